"""T9: cirbo/core/circuit/{validation,utils,circuit}.py -> Generated/CircuitCore.v

A small statement-level imperative-to-functional translation of the simple accessors, validators
and mutators of the Circuit class.  Every covered function `f` becomes `gen_f` over the SAME state
type `circuit` and helper vocabulary as the hand model coq/Model/Circuit.v; Proofs/CircuitCoreGen.v
proves `gen_f ... = <hand model> ...` for all arguments, so an edit of a covered method changes a
generated definition and breaks an equality lemma.  Anything outside the grammar raises
TranslatorError (the check then fails closed).  COVERED below is the fixed list of functions that
must translate.

Grammar (method bodies; `self` = first parameter of a method, or the parameter annotated 'Circuit'
of a validation function, which is read only):

  <stmt> ::= if <cond>: <stmts> [else: <stmts>]         (also `x is None` / `x is not None` on an Optional
                                                          parameter: a match with narrowing)
           | for <name> in <iterable>: <stmts>           -> foldM over the list, carrying the variables the
                                                          body assigns (self and/or local lists); no
                                                          break / continue / return / else
           | raise <ExcClass>[(...)]                     -> Err <ExcClass>   (class imported from ...exceptions)
           | assert <cond>                               -> Err PyAssertionError
           | return | return self | return <expr> | return self.<mutator>(...)
           | <name>[: T] = <expr>                        local (a fresh list is a mutable local)
           | <name>.append(e) | <name>.remove(e)         on a mutable local (remove: Err PyValueError)
           | self._inputs/_outputs .append(e) / .remove(e) ;  self._inputs/_outputs = <fresh list>
           | self._gates[k] = <Gate whose label is k> ; self._gate_to_users[k] = <fresh list>
           | self._blocks[k] = <Block whose name is k>
           | self._gate_to_users[k].append(e) / .remove(e)    (KeyError / ValueError as in Python)
           | del self._gate_to_users[k] / self._gates[k] / self._blocks[k]       (Err PyKeyError)
           | self.<mutator>(args) | <check function>(args) | <local closure>(args)
           | def <closure>(params): ...   (captures self only)  | logger.<level>(...) (no effect on the state)
           | self._inputs[i] / self._outputs[i] = e            (i a non-negative index; Err PyIndexError)
           | <ref> = self._gate_to_users[k] ... <ref>[i] = e    a live reference to one users list: the item store
                                                                updates the state (k may not be rebound in between)
           | self._gate_to_users[a] = self._gate_to_users[b]  immediately followed by  del self._gate_to_users[b]
                                                                (the list changes owner; no alias survives)
           | for i, x in enumerate(L): if <cond over x>: L[i] = <e>     (L = a Block list / self._inputs / self._outputs /
                                                                a mutable local)  ->  L := map (fun x => if cond then e else x) L
                                                                (each store hits the position just yielded)
           | for b in self.blocks.values(): b.<Block mutator>(args)    ->  every value of the dict updated (mapM)
  <expr> ::= names, (), (a,), [a, ...], list(), set(), list(x), set(x), len(x), x.values(),
             l[i] (i: int -> Python indexing incl. negative, Err PyIndexError), l.index(x) (Err PyValueError),
             [e for i, x in enumerate(xs) if c],
             self._field / self.property (trivial getters are verified), Gate / Block getters,
             gate.<TYPE>, d[k] (Err PyKeyError), `in` / `not in`, == != < <= > >=, not / and / or
             (short circuit kept when the right operand may raise), [e for x in xs if c],
             tuple(e for x in xs), a if c else b, gate.Gate(l, t[, ops][, **kwargs]), Block(name=, owner=self, ...),
             calls of translated pure methods / functions.

Python ints: a parameter annotated `int` is a Z; len(...) and index() results are nat; a comparison between the two
is made in Z.  Methods of Block (state type `block`) are emitted as gen_Block_<name>.

Representation: a Python Gate is a model `gate` (type, operands) plus, separately, the label it is known
to carry (the dict key): `.label` is resolved statically and a store `self._gates[k] = g` is accepted
only when the label of g is syntactically k.  Blocks likewise (name = key; owner must be self).
`**kwargs` may only be forwarded to gate.Gate / another translated method and is dropped (Gate.__init__
accepts no further keywords).  set[Label] values are lists that support membership only.

Aliasing discipline (what makes the functional reading sound): parameters are never mutated;
values that alias a state component (self._inputs, self._gate_to_users[k], block.gates ...) may be
read and iterated but become unusable after a write to that component; a loop may not iterate over
a component its body writes; only fresh lists (or immutable values) are stored into the state.
"""
import ast
import re

from .common import TranslatorError, fail, parse, strip_docstring, top_level_functions, verif_root, write_if_changed

CIRCUIT_PY = 'cirbo/core/circuit/circuit.py'
VALIDATION_PY = 'cirbo/core/circuit/validation.py'
UTILS_PY = 'cirbo/core/circuit/utils.py'
GATE_PY = 'cirbo/core/circuit/gate.py'

# (module key, function/method name) in emission priority; ALL of them must translate
COVERED = [
    ('circuit', 'has_gate'), ('circuit', 'get_gate'), ('circuit', 'get_gate_users'), ('circuit', 'get_block'),
    ('validation', 'check_gates_exist'), ('validation', 'check_label_doesnt_exist'),
    ('validation', 'check_gate_has_not_users'), ('validation', 'check_block_doesnt_exist'),
    ('validation', 'check_block_has_no_users'),
    ('utils', 'order_list'),
    ('circuit', '_add_user'), ('circuit', '_remove_user'), ('circuit', '_emplace_gate'), ('circuit', '_add_gate'),
    ('circuit', 'emplace_gate'), ('circuit', 'add_gate'), ('circuit', 'add_inputs'),
    ('circuit', 'mark_as_output'), ('circuit', 'set_outputs'), ('circuit', 'set_inputs'),
    ('circuit', 'order_inputs'), ('circuit', 'order_outputs'), ('circuit', 'replace_inputs'),
    ('circuit', 'delete_block'), ('circuit', 'make_block'), ('circuit', '_remove_gate'), ('circuit', 'remove_gate'),
    ('circuit', '_remove_block'), ('circuit', 'remove_block'),
    ('circuit', 'input_at_index'), ('circuit', 'output_at_index'),
    ('circuit', 'index_of_input'), ('circuit', 'all_indexes_of_output'),
    ('block', '_rename_gate'), ('circuit', 'rename_gate'),
]

COQ_TY = {
    'label': 'label', 'bool': 'bool', 'nat': 'nat', 'gtype': 'gtype', 'gate': 'gate', 'block': 'block',
    'labels': 'list label', 'labelset': 'list label',
    'optlabels': 'option (list label)', 'optlabelset': 'option (list label)',
    'gatepairs': 'list (label * gate)', 'blockpairs': 'list (label * block)',
    'gatedict': 'dict gate', 'usersdict': 'dict (list label)', 'blockdict': 'dict block',
    'circuit': 'circuit', 'unit': 'unit', 'int': 'Z', 'nats': 'list nat',
}
# attribute of a Circuit -> (projection, setter, type, state component)
FIELDS = {
    '_inputs': ('inputs', 'set_inputs_raw', 'labels', 'inputs'),
    '_outputs': ('outputs', 'set_outputs_raw', 'labels', 'outputs'),
    '_gates': ('gates', 'set_gates', 'gatedict', 'gates'),
    '_gate_to_users': ('users', 'set_users', 'usersdict', 'users'),
    '_blocks': ('blocks', 'set_blocks', 'blockdict', 'blocks'),
}
CIRCUIT_PROPS = {'inputs': '_inputs', 'outputs': '_outputs', 'gates': '_gates', 'blocks': '_blocks'}
GATE_PROPS = {'label': '_label', 'gate_type': '_gate_type', 'operands': '_operands'}
BLOCK_PROPS = {'name': '_name', 'inputs': '_inputs', 'gates': '_gates', 'outputs': '_outputs'}
BLOCK_PROJ = {'inputs': 'binputs', 'gates': 'bgates', 'outputs': 'boutputs'}
DICT_VALUE = {'gatedict': 'gate', 'usersdict': 'labels', 'blockdict': 'block'}
DICT_PAIRS = {'gatedict': 'gatepairs', 'blockdict': 'blockpairs'}
PAIR_ELEM = {'gatepairs': 'gate', 'blockpairs': 'block'}
LOG_LEVELS = {'debug', 'info', 'warning', 'error'}

HEADER = '''(* GENERATED by translator/t9_circuit_core.py from cirbo/core/circuit/{validation,utils,circuit}.py.
   DO NOT EDIT.  Proofs/CircuitCoreGen.v proves every gen_<name> equal to the hand model. *)
Require Import Cirbo.Model.Base Cirbo.Model.Gate Cirbo.Model.Circuit.

(* fixed prelude (not derived from the source): the raising primitives of Python dicts and lists *)
Definition dget_res {V} (d : dict V) (k : label) : res V :=
  match dget d k with Some v => Ok v | None => Err PyKeyError end.            (* d[k] *)
Definition ddel_res {V} (d : dict V) (k : label) : res (dict V) :=
  if dmem d k then Ok (ddel d k) else Err PyKeyError.                          (* del d[k] *)
Definition list_remove (x : label) (l : list label) : res (list label) :=
  if memb x l then Ok (remove1 x l) else Err PyValueError.                     (* l.remove(x) *)
(* l[i] for a Python int: negative indices count from the end *)
Definition list_index (l : list label) (i : Z) : res label :=
  let n := Z.of_nat (length l) in
  if (i <? - n)%Z || (n <=? i)%Z then Err PyIndexError
  else nth_res l (Z.to_nat (if (i <? 0)%Z then (i + n)%Z else i)).
Fixpoint list_index_of (x : label) (l : list label) : res nat :=               (* l.index(x) *)
  match l with
  | [] => Err PyValueError
  | y :: ys => if leqb y x then Ok O else do i <- list_index_of x ys; Ok (S i)
  end.
Fixpoint list_set (l : list label) (i : nat) (v : label) : res (list label) :=  (* l[i] = v, 0 <= i *)
  match l, i with
  | [], _ => Err PyIndexError
  | _ :: ys, O => Ok (v :: ys)
  | y :: ys, S i' => do ys' <- list_set ys i' v; Ok (y :: ys')
  end.
Definition enumerate (l : list label) : list (nat * label) := combine (seq 0 (length l)) l.
'''


def err_constructors():
    """constructors of Base.err (the only names `raise` may use)"""
    text = (verif_root() / 'coq' / 'Model' / 'Base.v').read_text()
    m = re.search(r'Inductive err : Type :=(.*?)\.\n', text, re.S)
    if not m:
        raise TranslatorError('cannot find Inductive err in Model/Base.v')
    return set(re.findall(r'\|\s*(\w+)', m.group(1)))


def gtype_constructors():
    text = (verif_root() / 'coq' / 'Model' / 'Gate.v').read_text()
    m = re.search(r'Inductive gtype : Type :=(.*?)\.\n', text, re.S)
    if not m:
        raise TranslatorError('cannot find Inductive gtype in Model/Gate.v')
    return set(re.findall(r'\|\s*(\w+)', m.group(1)))


def ind(text, n=2):
    pad = ' ' * n
    return '\n'.join(pad + ln if ln else ln for ln in text.split('\n'))


def paren(text):
    """parenthesise a (possibly multi-line) term"""
    if '\n' not in text:
        return f'({text})'
    return '(' + ind(text, 1)[1:] + ')'


def tuple_of(names):
    if not names:
        return 'tt'
    if len(names) == 1:
        return names[0]
    return '(' + ', '.join(names) + ')'


def pat_of(names, binder=False):
    if not names:
        return '(_ : unit)' if binder else '_'
    if len(names) == 1:
        return names[0]
    return ('(' if not binder else "'(") + ', '.join(names) + ')'


class Val:
    def __init__(self, code, ty, alias=frozenset(), label=None):
        self.code, self.ty, self.alias, self.label = code, ty, frozenset(alias), label


class Var:
    """a Python local.  kind: self | bself (a Block as the state) | circ (read-only circuit) | param | local |
    mutlocal | ref | none | fn"""
    def __init__(self, code, ty, kind, alias=frozenset(), label=None, fn=None):
        self.code, self.ty, self.kind, self.alias, self.label, self.fn = code, ty, kind, frozenset(alias), label, fn
        self.stale = False
        self.ref = None         # kind 'ref': (field attr, key name, key Var): a live reference to self._field[key]


class Fn:
    def __init__(self, name, coqname):
        self.name, self.coqname = name, coqname
        self.params = []        # (pyname, ty, default ast | None, needs_label)
        self.has_kwarg = False
        self.self_kind = None   # 'method' | 'closure' | None
        self.mutates = False
        self.ret_ty = None      # type of the returned VALUE ('unit' when nothing / self is returned)
        self.returns_self = False
        self.ret_label_param = None
        self.ret_alias = frozenset()
        self.monadic = True
        self.effects = set()
        self.text = ''
        self.ret_fresh = False
        self.closures = []
        self.state_ty = 'circuit'

    def result_coq_ty(self):
        if self.mutates:
            base = self.state_ty if self.ret_ty == 'unit' else f'({self.state_ty} * {COQ_TY[self.ret_ty]})'
        else:
            base = COQ_TY[self.ret_ty]
        if self.monadic:
            return f'res ({base})' if ' ' in base and not base.startswith('(') else f'res {base}'
        return base


class Unit:
    """all sources + the memo of translated functions (in emission order)"""
    def __init__(self):
        self.mods = {'circuit': parse(CIRCUIT_PY), 'validation': parse(VALIDATION_PY), 'utils': parse(UTILS_PY),
                     'gate': parse(GATE_PY)}
        self.errs = err_constructors()
        self.gtypes = gtype_constructors()
        self.classes = {}
        for key in ('circuit', 'gate'):
            for n in self.mods[key].body:
                if isinstance(n, ast.ClassDef):
                    self.classes[n.name] = n
        for c in ('Circuit', 'Block', 'Gate'):
            if c not in self.classes:
                raise TranslatorError(f'class {c} not found')
        self.circuit_methods = self.methods_of('Circuit')
        self.block_methods = self.methods_of('Block')
        self.funcs = {'validation': top_level_functions(self.mods['validation']),
                      'utils': top_level_functions(self.mods['utils'])}
        self.done = {}      # (modkey, name) -> Fn
        self.order = []
        self.in_progress = set()
        self.imports = {k: self.collect_imports(m) for k, m in self.mods.items()}
        self.check_environment()

    def methods_of(self, cls):
        out = {}
        for n in self.classes[cls].body:
            if isinstance(n, ast.FunctionDef):
                if n.name in out:
                    # property setter / overload: keep it observable
                    out[n.name] = None
                else:
                    out[n.name] = n
        return out

    @staticmethod
    def collect_imports(mod):
        """bound name -> (module, original name) for top-level `from m import a [as b]`; plain imports -> (m, None).
        A name bound twice at module level (import, def, class, assignment) is recorded as ambiguous."""
        out, seen = {}, {}
        for n in mod.body:
            names = []
            if isinstance(n, ast.ImportFrom):
                names = [(a.asname or a.name, (n.module, a.name)) for a in n.names]
            elif isinstance(n, ast.Import):
                names = [(a.asname or a.name.split('.')[0], (a.name, None)) for a in n.names]
            elif isinstance(n, (ast.FunctionDef, ast.ClassDef)):
                names = [(n.name, ('<local>', n.name))]
            elif isinstance(n, ast.Assign):
                names = [(t.id, ('<assign>', t.id)) for t in n.targets if isinstance(t, ast.Name)]
            elif isinstance(n, ast.AnnAssign) and isinstance(n.target, ast.Name):
                names = [(n.target.id, ('<assign>', n.target.id))]
            elif isinstance(n, ast.If):
                # `if tp.TYPE_CHECKING:` blocks only bind annotation names; anything else is suspicious
                for s in ast.walk(n):
                    if isinstance(s, ast.ImportFrom):
                        names += [(a.asname or a.name, ('<typing>', a.name)) for a in s.names]
            for b, v in names:
                seen[b] = seen.get(b, 0) + 1
                out[b] = v
        for b, k in seen.items():
            if k > 1:
                out[b] = ('<ambiguous>', b)
        return out

    # ---- facts about the surrounding classes that the translation relies on
    def trivial_getter(self, cls, prop, field):
        m = self.methods_of(cls).get(prop)
        if m is None:
            raise TranslatorError(f'{cls}.{prop}: not a single plain definition')
        decos = [d.id for d in m.decorator_list if isinstance(d, ast.Name)]
        body = strip_docstring(m.body)
        ok = (decos == ['property'] and len(m.decorator_list) == 1 and len(m.args.args) == 1 and len(body) == 1
              and isinstance(body[0], ast.Return) and isinstance(body[0].value, ast.Attribute)
              and isinstance(body[0].value.value, ast.Name) and body[0].value.value.id == m.args.args[0].arg
              and body[0].value.attr == field)
        if not ok:
            fail(m, f'{cls}.{prop} must be the trivial property `return self.{field}`')

    def init_assigns(self, cls, expected):
        """__init__ must consist of `self._f[: T] = <param>` for exactly the expected {field: param}"""
        m = self.methods_of(cls).get('__init__')
        if m is None:
            raise TranslatorError(f'{cls}.__init__ not found')
        got = {}
        for st in strip_docstring(m.body):
            if isinstance(st, ast.AnnAssign) and st.value is not None:
                tgt, val = st.target, st.value
            elif isinstance(st, ast.Assign) and len(st.targets) == 1:
                tgt, val = st.targets[0], st.value
            else:
                fail(st, f'{cls}.__init__ statement outside grammar')
            if not (isinstance(tgt, ast.Attribute) and isinstance(tgt.value, ast.Name)
                    and tgt.value.id == m.args.args[0].arg and isinstance(val, ast.Name)):
                fail(st, f'{cls}.__init__ must only store its parameters')
            got[tgt.attr] = val.id
        if got != expected:
            fail(m, f'{cls}.__init__ stores {got}, expected {expected}')
        a = m.args
        if a.vararg or a.kwarg or a.kwonlyargs or a.posonlyargs:
            fail(m, f'{cls}.__init__ signature outside grammar')
        return [x.arg for x in a.args[1:]]

    def check_environment(self):
        for p, f in CIRCUIT_PROPS.items():
            self.trivial_getter('Circuit', p, f)
        for p, f in GATE_PROPS.items():
            self.trivial_getter('Gate', p, f)
        for p, f in BLOCK_PROPS.items():
            self.trivial_getter('Block', p, f)
        self.gate_init = self.init_assigns('Gate', {'_label': 'label', '_gate_type': 'gate_type', '_operands': 'operands'})
        if self.gate_init != ['label', 'gate_type', 'operands']:
            raise TranslatorError(f'Gate.__init__ parameter order {self.gate_init}')
        gi = self.methods_of('Gate')['__init__']
        d = gi.args.defaults
        if not (len(d) == 1 and isinstance(d[0], ast.Tuple) and not d[0].elts):
            fail(gi, 'Gate.__init__: only `operands` may have a default, and it must be ()')
        self.block_init = self.init_assigns('Block', {'_name': 'name', '_owner': 'owner', '_inputs': 'inputs',
                                                      '_gates': 'gates', '_outputs': 'outputs'})
        if self.methods_of('Block')['__init__'].args.defaults:
            raise TranslatorError('Block.__init__ must have no defaults')
        # Circuit.__init__ creates the five fields empty
        ci = self.methods_of('Circuit').get('__init__')
        fields = set()
        for st in strip_docstring(ci.body) if ci else []:
            tgt = st.target if isinstance(st, ast.AnnAssign) else (st.targets[0] if isinstance(st, ast.Assign) else None)
            if isinstance(tgt, ast.Attribute):
                fields.add(tgt.attr)
        if fields != set(FIELDS):
            raise TranslatorError(f'Circuit.__init__ fields {sorted(fields)} differ from the model record')
        imp = self.imports['circuit']
        if imp.get('gate') != ('cirbo.core.circuit', 'gate'):
            raise TranslatorError('circuit.py: `gate` must be the module cirbo.core.circuit.gate')
        if imp.get('logger', ('', ''))[0] != '<assign>':
            raise TranslatorError('circuit.py: `logger` must be a module-level logger')

    # ---- lookup / lazy translation
    def make_tr(self, modkey, src, coqname):
        return FnTr(self, modkey, src, coqname)

    def get(self, modkey, name, node=None):
        key = (modkey, name)
        if key in self.done:
            return self.done[key]
        if key in self.in_progress:
            fail(node, f'recursion through {name}')
        if modkey == 'circuit':
            src = self.circuit_methods.get(name)
        elif modkey == 'block':
            src = self.block_methods.get(name)
        else:
            src = self.funcs[modkey].get(name)
        if src is None:
            raise TranslatorError(f'{modkey}: {name} not found (or defined twice)')
        self.in_progress.add(key)
        fn = self.make_tr(modkey, src, ('gen_Block_' if modkey == 'block' else 'gen_') + name).translate()
        self.in_progress.discard(key)
        self.done[key] = fn
        self.order.append(fn)
        return fn


class K:
    """continuation: what follows the statements being translated"""
    def __init__(self, emit, cheap, can_return):
        self.emit, self.cheap, self.can_return = emit, cheap, can_return


class FnTr:
    FORBIDDEN = (ast.Yield, ast.YieldFrom, ast.Await, ast.Try, ast.With, ast.While, ast.Global, ast.Nonlocal,
                 ast.Lambda, ast.NamedExpr, ast.Starred, ast.AugAssign)

    def __init__(self, unit, modkey, src, coqname, outer=None):
        self.u, self.modkey, self.src = unit, modkey, src
        self.impkey = 'circuit' if modkey == 'block' else modkey      # module whose imports are in scope
        self.fn = Fn(src.name, coqname)
        self.outer = outer          # FnTr of the enclosing method (closure)
        self.tmp = 0
        self.self_code = None       # Coq name of the circuit state (None: function without one)
        self.self_writable = False
        self.kwarg = None
        self.returns = []           # (kind, Val|None)
        self.pre_defs = []          # closures emitted before this definition

    # ------------------------------------------------------------ helpers
    def fresh(self):
        self.tmp += 1
        return f't{self.tmp}'

    def vname(self, node, name):
        if not (name.isidentifier() and name.isascii()):
            fail(node, f'name {name!r} not usable')
        return 'v_' + name

    def effect(self, comp, env):
        self.fn.effects.add(comp)
        for v in env.values():
            if comp in v.alias:
                v.stale = True

    def effects_of_call(self, callee, env):
        for c in sorted(callee.effects):
            self.effect(c, env)

    # ------------------------------------------------------------ signature
    def annotation_type(self, ann, node):
        if ann is None:
            fail(node, 'parameter without annotation')
        s = ast.unparse(ann).replace("'", '').replace('"', '').replace(' ', '')
        lab = r'(gate\.)?Label'
        seq = rf'(tp\.Sequence\[{lab}\]|list\[{lab}\]|tuple\[{lab},\.\.\.\])'
        table = [
            (rf'{lab}', 'label'), (seq, 'labels'), (rf'tp\.Optional\[{seq}\]', 'optlabels'),
            (rf'set\[{lab}\]', 'labelset'), (rf'tp\.Optional\[set\[{lab}\]\]', 'optlabelset'),
            (r'int', 'int'), (r'(gate\.)?GateType', 'gtype'), (r'(gate\.)?Gate', 'gate'), (r'Block', 'block'), (r'Circuit', 'circuit'),
        ]
        for rx, ty in table:
            if re.fullmatch(rx, s):
                return ty
        fail(node, f'parameter annotation outside grammar: {s}')

    def uses_attr(self, pname, attrs):
        for n in ast.walk(self.src):
            if isinstance(n, ast.Attribute) and isinstance(n.value, ast.Name) and n.value.id == pname and n.attr in attrs:
                return True
        return False

    def signature(self, env):
        f, fn = self.src, self.fn
        a = f.args
        if a.posonlyargs or a.kwonlyargs or a.vararg or a.kw_defaults:
            fail(f, 'signature outside grammar')
        deco = f.decorator_list
        if deco:
            fail(f, 'decorated definition')
        args = list(a.args)
        defaults = [None] * (len(args) - len(a.defaults)) + list(a.defaults)
        if self.outer is not None:
            fn.self_kind = 'closure'
            self.self_code = self.outer.self_code
            self.self_writable = self.outer.self_writable
            env[self.outer.self_py] = Var(self.self_code, 'circuit', 'self' if self.self_writable else 'circ')
            self.self_py = self.outer.self_py
        elif self.modkey in ('circuit', 'block'):
            if not args or args[0].arg != 'self':
                fail(f, 'method without self')
            fn.self_kind = 'method'
            self.self_code, self.self_writable, self.self_py = 'self', True, 'self'
            if self.modkey == 'block':
                fn.state_ty = 'block'
                env['self'] = Var('self', 'block', 'bself', {'blocks.content'})
            else:
                env['self'] = Var('self', 'circuit', 'self')
            args, defaults = args[1:], defaults[1:]
        if a.kwarg is not None:
            fn.has_kwarg = True
            self.kwarg = a.kwarg.arg
        for p, d in zip(args, defaults):
            ty = self.annotation_type(p.annotation, p)
            code = self.vname(p, p.arg)
            if p.arg in env:
                fail(p, 'parameter shadows the state')
            if ty == 'circuit':
                if self.self_code is not None:
                    fail(p, 'second circuit parameter')
                self.self_code, self.self_writable, self.self_py = code, False, p.arg
                env[p.arg] = Var(code, 'circuit', 'circ')
                fn.params.append((p.arg, ty, d, False))
                continue
            needs_label = ty in ('gate', 'block') and self.uses_attr(p.arg, {'label'} if ty == 'gate' else {'name'})
            label = code + '_label' if needs_label else None
            alias = {'param'} if ty in ('labels', 'labelset', 'optlabels', 'optlabelset') else set()
            if ty == 'block':
                alias = {'blocks.content'}
            env[p.arg] = Var(code, ty, 'param', alias, label)
            if d is not None:
                self.default_code(d, ty)   # must be translatable
            fn.params.append((p.arg, ty, d, needs_label))

    def default_code(self, d, ty):
        if isinstance(d, ast.Constant) and d.value is None and ty.startswith('opt'):
            return 'None'
        if isinstance(d, ast.Tuple) and not d.elts and ty == 'labels':
            return '[]'
        fail(d, 'default value outside grammar')

    def binders(self):
        out = []
        if self.fn.self_kind in ('method', 'closure'):
            out.append(f'({self.self_code} : {self.fn.state_ty})')
        for p, ty, _d, needs_label in self.fn.params:
            code = 'v_' + p
            if needs_label:
                out.append(f'({code}_label : label)')
            out.append(f'({code} : {COQ_TY[ty]})')
        return ' '.join(out)

    # ------------------------------------------------------------ syntactic pre-passes
    def callee_of(self, call, env):
        """-> ('method', Fn, recv node) | ('func', Fn) | ('closure', Fn) | None  for a call of translated code"""
        f = call.func
        if isinstance(f, ast.Attribute) and isinstance(f.value, ast.Name) and f.value.id in env \
                and env[f.value.id].ty == 'circuit':
            if f.attr in self.u.circuit_methods and self.u.circuit_methods[f.attr] is not None \
                    and not self.u.circuit_methods[f.attr].decorator_list:
                return ('method', self.u.get('circuit', f.attr, call), f.value)
            return None
        if isinstance(f, ast.Attribute) and isinstance(f.value, ast.Name) and f.value.id in env \
                and env[f.value.id].ty == 'block':
            if self.u.block_methods.get(f.attr) is not None and not self.u.block_methods[f.attr].decorator_list:
                return ('bmethod', self.u.get('block', f.attr, call), f.value)
            return None
        if isinstance(f, ast.Name):
            if f.id in env:
                if env[f.id].kind == 'fn':
                    return ('closure', env[f.id].fn)
                return None
            imp = self.u.imports[self.impkey].get(f.id)
            if imp == ('cirbo.core.circuit.validation', f.id) and f.id in self.u.funcs['validation']:
                return ('func', self.u.get('validation', f.id, call))
            if imp == ('cirbo.core.circuit.utils', f.id) and f.id in self.u.funcs['utils']:
                return ('func', self.u.get('utils', f.id, call))
            if imp == ('<local>', f.id) and self.modkey in self.u.funcs and f.id in self.u.funcs[self.modkey]:
                return ('func', self.u.get(self.modkey, f.id, call))
        return None

    def modset(self, stmts, env):
        """names (Python) that the statements may assign or mutate; 'self' stands for the state"""
        out = set()
        selfname = getattr(self, 'self_py', None)

        def root(n):
            while isinstance(n, (ast.Attribute, ast.Subscript)):
                n = n.value
            return n.id if isinstance(n, ast.Name) else None

        def visit(s, local_fns):
            if isinstance(s, (ast.Assign, ast.AnnAssign, ast.AugAssign)):
                tgts = s.targets if isinstance(s, ast.Assign) else [s.target]
                for t in tgts:
                    if isinstance(t, ast.Name):
                        out.add(t.id)
                    else:
                        r = root(t)
                        if r is not None:
                            out.add(r)
            elif isinstance(s, ast.Delete):
                for t in s.targets:
                    r = root(t)
                    if r is not None:
                        out.add(r)
            elif isinstance(s, ast.FunctionDef):
                local_fns[s.name] = s
                return
            for n in ast.walk(s) if not isinstance(s, (ast.If, ast.For)) else []:
                if isinstance(n, ast.Call):
                    f = n.func
                    if isinstance(f, ast.Attribute) and f.attr in ('append', 'remove', 'insert', 'pop', 'extend',
                                                                   'clear', 'sort', 'reverse', 'update', 'add',
                                                                   'discard', 'setdefault', 'popitem'):
                        r = root(f.value)
                        if r is not None:
                            out.add(r)
                    if isinstance(f, ast.Name) and f.id in local_fns:
                        for s2 in local_fns[f.id].body:
                            visit(s2, dict(local_fns))
                    if isinstance(f, ast.Name) and f.id in env and env[f.id].kind == 'fn' and env[f.id].fn.mutates:
                        out.add(selfname)
                    c = self.callee_of(n, env) if not (isinstance(f, ast.Name) and f.id in local_fns) else None
                    if c is not None and c[1].mutates:
                        out.add(selfname)
            if isinstance(s, ast.If):
                for n in ast.walk(s.test):
                    if isinstance(n, ast.Call):
                        c = self.callee_of(n, env)
                        if c is not None and c[1].mutates:
                            out.add(selfname)
                for s2 in s.body + s.orelse:
                    visit(s2, local_fns)
            elif isinstance(s, ast.For):
                for n in ast.walk(s.iter):
                    if isinstance(n, ast.Call):
                        c = self.callee_of(n, env)
                        if c is not None and c[1].mutates:
                            out.add(selfname)
                for s2 in s.body + s.orelse:
                    visit(s2, local_fns)

        fns = {}
        for s in stmts:
            visit(s, fns)
        # a local that aliases part of the state: mutation through it is a mutation of the state; so is (conservatively)
        # mutation through a name that is only bound inside these statements
        assigned = {t.id for st in stmts for n in ast.walk(st) if isinstance(n, (ast.Assign, ast.AnnAssign))
                    for t in (n.targets if isinstance(n, ast.Assign) else [n.target]) if isinstance(t, ast.Name)}
        for st in stmts:
            for n in ast.walk(st):
                tgts = n.targets if isinstance(n, (ast.Assign, ast.Delete)) else []
                for t in tgts:
                    if isinstance(t, ast.Subscript):
                        r = root(t)
                        if r is not None and (r not in env or r in assigned) and self.self_writable \
                                and not self.is_private_local(r):
                            out.add(selfname)
                if isinstance(n, ast.Call) and isinstance(n.func, ast.Attribute) and isinstance(n.func.value, ast.Name) \
                        and n.func.value.id not in env and self.u.block_methods.get(n.func.attr) is not None \
                        and self.self_writable:
                    out.add(selfname)
        for name in list(out):
            if name in env and env[name].kind in ('local', 'ref') and env[name].alias - {'param'}:
                out.add(selfname)
        return out

    def is_private_local(self, name):
        """a local container that provably shares nothing with the state (none in T9)"""
        return False

    @staticmethod
    def terminates(stmts):
        if not stmts:
            return False
        last = stmts[-1]
        if isinstance(last, (ast.Raise, ast.Return)):
            return True
        if isinstance(last, ast.If):
            return FnTr.terminates(last.body) and FnTr.terminates(last.orelse)
        return False

    # ------------------------------------------------------------ expressions
    def lookup(self, node, env):
        v = env.get(node.id)
        if v is None:
            fail(node, 'unknown name')
        if v.stale:
            fail(node, f'{node.id} aliases a part of the state that has been written since it was bound')
        if v.kind in ('fn', 'none'):
            fail(node, f'{node.id} is not a value here')
        return v

    def emit_pre(self, pre):
        return [f'do {p} <- {c};' for p, c in pre]

    def pure(self, node, env, what):
        pre = []
        v = self.expr(node, env, pre)
        if pre:
            fail(node, f'{what} must not contain an operation that can raise')
        return v

    def circuit_field(self, recv, attr, node):
        if attr in CIRCUIT_PROPS:
            attr = CIRCUIT_PROPS[attr]
        if attr not in FIELDS:
            return None
        proj, _setter, ty, comp = FIELDS[attr]
        return Val(f'({proj} {recv.code})', ty, {comp})

    def expr(self, node, env, pre):
        """-> Val.  pre: list collecting (pattern, monadic term) in evaluation order, or None where a raising
        sub-expression is not accepted"""
        if isinstance(node, ast.Name):
            if node.id in env:
                v = self.lookup(node, env)
                return Val(v.code, v.ty, v.alias, v.label)
            fail(node, 'unknown name')
        if isinstance(node, ast.Constant):
            if node.value is True:
                return Val('true', 'bool')
            if node.value is False:
                return Val('false', 'bool')
            if type(node.value) is int and node.value >= 0:
                return Val(str(node.value), 'nat')
            fail(node, 'constant outside grammar')
        if isinstance(node, (ast.Tuple, ast.List)):
            items = [self.typed(e, env, pre, 'label') for e in node.elts]
            return Val('[' + '; '.join(items) + ']', 'labels')
        if isinstance(node, ast.Attribute):
            return self.attribute(node, env, pre)
        if isinstance(node, ast.Subscript):
            base = self.expr(node.value, env, pre)
            if base.ty in DICT_VALUE:
                if pre is None:
                    fail(node, 'dict subscript (may raise KeyError) in a pure context')
                k = self.typed(node.slice, env, pre, 'label')
                t = self.fresh()
                pre.append((t, f'dget_res {base.code} {k}'))
                vt = DICT_VALUE[base.ty]
                if vt == 'gate':
                    return Val(t, 'gate', (), k)
                if vt == 'block':
                    return Val(t, 'block', {'blocks.content'}, k)
                return Val(t, 'labels', {'users.content'})
            if base.ty == 'labels':
                if pre is None:
                    fail(node, 'list subscript (may raise IndexError) in a pure context')
                i = self.expr(node.slice, env, pre)
                if i.ty not in ('nat', 'int'):
                    fail(node, 'list index must be an integer')
                t = self.fresh()
                pre.append((t, f'{"nth_res" if i.ty == "nat" else "list_index"} {self.atom(base)} {self.atom(i)}'))
                return Val(t, 'label')
            fail(node, 'subscript outside grammar')
        if isinstance(node, ast.Compare):
            return self.compare(node, env, pre)
        if isinstance(node, ast.UnaryOp) and isinstance(node.op, ast.Not):
            return Val(f'negb {self.atom(self.typed_val(node.operand, env, pre, "bool"))}', 'bool')
        if isinstance(node, ast.BoolOp):
            return self.boolop(node, env, pre)
        if isinstance(node, ast.IfExp):
            c = self.pure(node.test, env, 'conditional expression')
            a = self.pure(node.body, env, 'conditional expression')
            b = self.pure(node.orelse, env, 'conditional expression')
            if c.ty != 'bool' or a.ty != b.ty or a.ty not in ('label', 'bool', 'nat', 'gtype'):
                fail(node, 'conditional expression types')
            return Val(f'(if {c.code} then {a.code} else {b.code})', a.ty)
        if isinstance(node, ast.ListComp):
            return self.comprehension(node, env, pre)
        if isinstance(node, ast.Call):
            return self.call(node, env, pre)
        fail(node, 'expression outside grammar')

    @staticmethod
    def atom(v):
        c = v.code
        if re.fullmatch(r"[\w']+", c) or (c.startswith('(') and c.endswith(')')) or (c.startswith('[') and c.endswith(']')):
            return c
        return f'({c})'

    def typed_val(self, node, env, pre, ty):
        v = self.expr(node, env, pre)
        if v.ty != ty:
            fail(node, f'expected {ty}, got {v.ty}')
        return v

    def typed(self, node, env, pre, ty):
        return self.atom(self.typed_val(node, env, pre, ty))

    def attribute(self, node, env, pre):
        # gate.<TYPE>
        if isinstance(node.value, ast.Name) and node.value.id == 'gate' and 'gate' not in env and self.impkey == 'circuit':
            if node.attr in self.u.gtypes:
                return Val(node.attr, 'gtype')
            fail(node, 'unknown attribute of the gate module')
        recv = self.expr(node.value, env, pre)
        if recv.ty == 'circuit':
            v = self.circuit_field(recv, node.attr, node)
            if v is None:
                fail(node, 'circuit attribute outside grammar')
            return v
        if recv.ty == 'gate':
            if node.attr == 'label':
                if recv.label is None:
                    fail(node, 'label of this gate value is not known statically')
                return Val(recv.label, 'label')
            if node.attr == 'gate_type':
                return Val(f'(gtyp {self.atom(recv)})', 'gtype')
            if node.attr == 'operands':
                return Val(f'(gops {self.atom(recv)})', 'labels')       # a tuple: immutable
            fail(node, 'gate attribute outside grammar')
        if recv.ty == 'block':
            if node.attr == 'name':
                if recv.label is None:
                    fail(node, 'name of this block value is not known statically')
                return Val(recv.label, 'label')
            if node.attr in BLOCK_PROJ:
                return Val(f'({BLOCK_PROJ[node.attr]} {self.atom(recv)})', 'labels', {'blocks.content'})
            fail(node, 'block attribute outside grammar')
        fail(node, 'attribute outside grammar')

    def compare(self, node, env, pre):
        if len(node.ops) != 1:
            fail(node, 'chained comparison')
        op, ln, rn = node.ops[0], node.left, node.comparators[0]
        if isinstance(op, (ast.In, ast.NotIn)):
            x = self.typed(ln, env, pre, 'label')
            c = self.expr(rn, env, pre)
            if c.ty in ('labels', 'labelset'):
                code = f'memb {x} {self.atom(c)}'
            elif c.ty in DICT_VALUE:
                code = f'dmem {self.atom(c)} {x}'
            else:
                fail(node, f'membership in {c.ty}')
            return Val(code if isinstance(op, ast.In) else f'negb ({code})', 'bool')
        l = self.expr(ln, env, pre)
        r = self.expr(rn, env, pre)
        if {l.ty, r.ty} <= {'nat', 'int'} and 'int' in (l.ty, r.ty):
            # a Python int against a length: compare in Z
            la = self.atom(l) if l.ty == 'int' else f'(Z.of_nat {self.atom(l)})'
            ra = self.atom(r) if r.ty == 'int' else f'(Z.of_nat {self.atom(r)})'
            zop = {ast.Eq: f'Z.eqb {la} {ra}', ast.NotEq: f'negb (Z.eqb {la} {ra})', ast.Gt: f'Z.ltb {ra} {la}',
                   ast.GtE: f'Z.leb {ra} {la}', ast.Lt: f'Z.ltb {la} {ra}', ast.LtE: f'Z.leb {la} {ra}'}.get(type(op))
            if zop is None:
                fail(node, 'comparison outside grammar')
            return Val(zop, 'bool')
        if l.ty != r.ty:
            fail(node, f'comparison of {l.ty} with {r.ty}')
        la, ra = self.atom(l), self.atom(r)
        if isinstance(op, (ast.Eq, ast.NotEq)):
            eq = {'label': 'leqb', 'gtype': 'gtype_beq', 'nat': 'Nat.eqb'}.get(l.ty)
            if eq is None:
                fail(node, f'equality on {l.ty}')
            code = f'{eq} {la} {ra}'
            return Val(code if isinstance(op, ast.Eq) else f'negb ({code})', 'bool')
        if l.ty != 'nat':
            fail(node, 'order comparison on a non-integer')
        if isinstance(op, ast.Gt):
            return Val(f'Nat.ltb {ra} {la}', 'bool')
        if isinstance(op, ast.GtE):
            return Val(f'Nat.leb {ra} {la}', 'bool')
        if isinstance(op, ast.Lt):
            return Val(f'Nat.ltb {la} {ra}', 'bool')
        if isinstance(op, ast.LtE):
            return Val(f'Nat.leb {la} {ra}', 'bool')
        fail(node, 'comparison outside grammar')

    def boolop(self, node, env, pre):
        is_and = isinstance(node.op, ast.And)
        acc = self.typed_val(node.values[0], env, pre, 'bool')
        for nxt in node.values[1:]:
            sub = []
            v = self.typed_val(nxt, env, sub if pre is not None else None, 'bool')
            if not sub:
                acc = Val(f'{self.atom(acc)} {"&&" if is_and else "||"} {self.atom(v)}', 'bool')
                acc = Val(f'({acc.code})', 'bool')
                continue
            # the right operand may raise: keep Python's short circuit
            t = self.fresh()
            inner = '\n'.join(self.emit_pre(sub) + [f'Ok {self.atom(v)}'])
            if is_and:
                pre.append((t, f'(if {acc.code} then {paren(inner)} else Ok false)'))
            else:
                pre.append((t, f'(if {acc.code} then Ok true else {paren(inner)})'))
            acc = Val(t, 'bool')
        return acc

    def comprehension(self, node, env, pre, allow_gen=False):
        if len(node.generators) != 1:
            fail(node, 'comprehension with several generators')
        g = node.generators[0]
        if g.is_async:
            fail(node, 'comprehension target')
        if isinstance(g.target, ast.Tuple):
            return self.enum_comprehension(node, g, env, pre)
        if not isinstance(g.target, ast.Name):
            fail(node, 'comprehension target')
        it = self.expr(g.iter, env, pre)
        if it.ty != 'labels':
            fail(node, 'comprehension over a non-list')
        x = g.target.id
        if x in env:
            fail(node, 'comprehension variable shadows a name')
        inner = dict(env)
        xc = self.vname(g.target, x)
        inner[x] = Var(xc, 'label', 'local')
        code = self.atom(it)
        for c in g.ifs:
            cv = self.pure(c, inner, 'comprehension filter')
            if cv.ty != 'bool':
                fail(c, 'comprehension filter must be a bool')
            code = f'(filter (fun {xc} => {cv.code}) {code})'
        e = self.pure(node.elt, inner, 'comprehension element')
        if e.ty != 'label':
            fail(node, 'comprehension element must be a label')
        if e.code != xc:
            code = f'(map (fun {xc} => {e.code}) {code})'
        return Val(code, 'labels')        # a fresh list

    def enumerate_arg(self, it, env):
        ok = (isinstance(it, ast.Call) and isinstance(it.func, ast.Name) and it.func.id == 'enumerate'
              and 'enumerate' not in env and 'enumerate' not in self.u.imports[self.impkey]
              and len(it.args) == 1 and not it.keywords)
        return it.args[0] if ok else None

    def enum_comprehension(self, node, g, env, pre):
        """[e for i, x in enumerate(xs) if c]  ->  map (fun p => e) (filter (fun p => c) (enumerate xs))"""
        arg = self.enumerate_arg(g.iter, env)
        tg = g.target
        if arg is None or len(tg.elts) != 2 or not all(isinstance(e, ast.Name) for e in tg.elts) \
                or tg.elts[0].id == tg.elts[1].id:
            fail(node, 'comprehension with a tuple target must be `for i, x in enumerate(xs)`')
        xs = self.typed_val(arg, env, pre, 'labels')
        i, x = tg.elts[0].id, tg.elts[1].id
        if i in env or x in env:
            fail(node, 'comprehension variable shadows a name')
        pc = f'p_{i}_{x}'
        inner = dict(env)
        inner[i] = Var(f'(fst {pc})', 'nat', 'local')
        inner[x] = Var(f'(snd {pc})', 'label', 'local')
        code = f'(enumerate {self.atom(xs)})'
        for c in g.ifs:
            cv = self.pure(c, inner, 'comprehension filter')
            if cv.ty != 'bool':
                fail(c, 'comprehension filter must be a bool')
            code = f'(filter (fun {pc} => {cv.code}) {code})'
        e = self.pure(node.elt, inner, 'comprehension element')
        if e.ty not in ('nat', 'label'):
            fail(node, 'comprehension element must be an index or a label')
        return Val(f'(map (fun {pc} => {e.code}) {code})', 'nats' if e.ty == 'nat' else 'labels')

    def call(self, node, env, pre):
        f = node.func
        # builtins (not shadowed)
        if isinstance(f, ast.Name) and f.id not in env and f.id not in self.u.imports[self.impkey]:
            if f.id == 'len' and len(node.args) == 1 and not node.keywords:
                v = self.expr(node.args[0], env, pre)
                if v.ty not in ('labels',):
                    fail(node, f'len of {v.ty}')
                return Val(f'length {self.atom(v)}', 'nat')
            if f.id in ('list', 'tuple', 'set') and not node.keywords:
                if not node.args:
                    return Val('[]', 'labelset' if f.id == 'set' else 'labels')
                if len(node.args) == 1:
                    a = node.args[0]
                    if isinstance(a, ast.GeneratorExp) and f.id in ('list', 'tuple'):
                        return self.comprehension(a, env, pre)
                    v = self.expr(a, env, pre)
                    if v.ty == 'labels' or (v.ty == 'labelset' and f.id == 'set'):
                        return Val(v.code, 'labelset' if f.id == 'set' else 'labels')     # a copy
                    if v.ty in PAIR_ELEM and f.id == 'list':
                        return Val(v.code, v.ty, {'blocks.content'} if v.ty == 'blockpairs' else ())
                fail(node, f'{f.id}(...) outside grammar')
            fail(node, 'call of an unknown function')
        # l.index(x)
        if isinstance(f, ast.Attribute) and f.attr == 'index' and len(node.args) == 1 and not node.keywords \
                and not (isinstance(f.value, ast.Name) and f.value.id in env and env[f.value.id].ty == 'circuit'):
            l = self.expr(f.value, env, pre)
            if l.ty != 'labels':
                fail(node, 'index() of a non-list')
            if pre is None:
                fail(node, 'index() (may raise ValueError) in a pure context')
            x = self.typed(node.args[0], env, pre, 'label')
            t = self.fresh()
            pre.append((t, f'list_index_of {x} {self.atom(l)}'))
            return Val(t, 'nat')
        # d.values()
        if isinstance(f, ast.Attribute) and f.attr == 'values' and not node.args and not node.keywords:
            d = self.expr(f.value, env, pre)
            if d.ty in DICT_PAIRS:
                return Val(d.code, DICT_PAIRS[d.ty], d.alias)
            fail(node, 'values() of a non-dict')
        # gate.Gate(...)
        if isinstance(f, ast.Attribute) and isinstance(f.value, ast.Name) and f.value.id == 'gate' \
                and 'gate' not in env and f.attr == 'Gate' and self.impkey == 'circuit':
            kws = [k for k in node.keywords if k.arg is not None]
            stars = [k for k in node.keywords if k.arg is None]
            if kws or len(stars) > 1 or not 2 <= len(node.args) <= 3:
                fail(node, 'Gate(...) arguments outside grammar')
            if stars and not (isinstance(stars[0].value, ast.Name) and stars[0].value.id == self.kwarg):
                fail(node, '** argument must be the **kwargs parameter')
            lab = self.typed(node.args[0], env, pre, 'label')
            t = self.typed(node.args[1], env, pre, 'gtype')
            ops = self.typed(node.args[2], env, pre, 'labels') if len(node.args) == 3 else '[]'
            return Val(f'(mkGate {t} {ops})', 'gate', (), lab)
        # Block(name=..., owner=self, inputs=..., gates=..., outputs=...)
        if isinstance(f, ast.Name) and f.id == 'Block' and 'Block' not in env \
                and self.u.imports[self.impkey].get('Block') == ('<local>', 'Block'):
            names = self.u.block_init
            given = {}
            if len(node.args) > len(names):
                fail(node, 'Block(...) arity')
            for n, a in zip(names, node.args):
                given[n] = a
            for k in node.keywords:
                if k.arg is None or k.arg not in names or k.arg in given:
                    fail(node, 'Block(...) keywords')
                given[k.arg] = k.value
            if set(given) != set(names):
                fail(node, 'Block(...) must give name, owner, inputs, gates, outputs')
            # evaluation order = source order
            vals = {}
            for n in [n for n, _ in sorted(((n, (a.lineno, a.col_offset)) for n, a in given.items()), key=lambda x: x[1])]:
                if n == 'owner':
                    o = given[n]
                    if not (isinstance(o, ast.Name) and o.id in env and env[o.id].kind == 'self'):
                        fail(node, 'the owner of a new block must be self')
                elif n == 'name':
                    vals[n] = self.typed(given[n], env, pre, 'label')
                else:
                    v = self.typed_val(given[n], env, pre, 'labels')
                    if v.alias:
                        fail(given[n], 'a block must be built from fresh lists (list(...))')
                    vals[n] = self.atom(v)
            return Val(f'(mkBlock {vals["inputs"]} {vals["gates"]} {vals["outputs"]})', 'block', (), vals['name'])
        c = self.callee_of(node, env)
        if c is None:
            fail(node, 'call outside grammar')
        callee = c[1]
        if callee.mutates:
            fail(node, 'call of a mutator inside an expression')
        code, _ = self.call_code(c, node, env, pre)
        alias = callee.ret_alias
        label = None
        if callee.ret_label_param is not None:
            label = self._last_args[callee.ret_label_param]
        if callee.monadic:
            if pre is None:
                fail(node, 'call that may raise in a pure context')
            t = self.fresh()
            pre.append((t, code))
            code = t
        else:
            code = f'({code})'
        if callee.ret_ty == 'unit':
            fail(node, 'value of a function that returns nothing')
        return Val(code, callee.ret_ty, alias, label)

    def coerce_arg(self, v, want, node):
        """hook: an argument of type v.ty where `want` is expected (none in T9 / T10; T12 passes a length where a
        Python int is expected)"""
        return v

    def check_arg(self, v, callee, node):
        """hook: an argument about to be passed to a translated callee (no check in T9 / T10)"""

    def call_code(self, c, node, env, pre):
        """-> (coq application, callee).  Arguments are evaluated left to right (their pre-bindings first)."""
        kind, callee = c[0], c[1]
        params = callee.params
        given = {}
        if len(node.args) > len(params):
            fail(node, 'too many arguments')
        for (p, _ty, _d, _nl), a in zip(params, node.args):
            if isinstance(a, ast.Starred):
                fail(node, 'starred argument')
            given[p] = a
        for k in node.keywords:
            if k.arg is None:
                if not (callee.has_kwarg and isinstance(k.value, ast.Name) and k.value.id == self.kwarg):
                    fail(node, '** argument outside grammar')
                continue
            if k.arg in given or k.arg not in [p[0] for p in params]:
                fail(node, 'keyword argument outside grammar')
            given[k.arg] = k.value
        # evaluate in source order
        order = sorted(given, key=lambda p: (given[p].lineno, given[p].col_offset))
        codes = {}
        for p in order:
            _p, ty, _d, needs_label = next(x for x in params if x[0] == p)
            a = given[p]
            if ty == 'circuit':
                v = self.expr(a, env, pre)
                if v.ty != 'circuit':
                    fail(a, 'circuit argument expected')
                codes[p] = (None, v.code)
                continue
            if isinstance(a, ast.Constant) and a.value is None and ty.startswith('opt'):
                codes[p] = (None, 'None')
                continue
            v = self.expr(a, env, pre)
            if ty.startswith('opt') and v.ty == ty:
                codes[p] = (None, self.atom(v))         # an Optional passed on as it is
                continue
            want = ty[3:] if ty.startswith('opt') else ty
            if v.ty != want:
                v = self.coerce_arg(v, want, a)
            self.check_arg(v, callee, a)
            if v.ty != want and not (want == 'labelset' and v.ty == 'labels'):
                fail(a, f'argument of type {v.ty} where {ty} is expected')
            code = self.atom(v)
            if ty.startswith('opt'):
                code = f'(Some {code})'
            lab = None
            if needs_label:
                if v.label is None:
                    fail(a, 'label of the argument is not known statically')
                lab = v.label
            codes[p] = (lab, code)
        parts = [callee.coqname]
        if kind in ('method', 'closure', 'bmethod'):
            parts.append(self.self_code if kind == 'closure' else self.atom(Val(env[c[2].id].code, 'x')))
        arglist = []
        for p, ty, d, _nl in params:
            if p in codes:
                lab, code = codes[p]
            elif d is not None:
                lab, code = None, self.default_code(d, ty)
            else:
                fail(node, f'missing argument {p}')
            if lab is not None:
                parts.append(lab)
            parts.append(code)
            arglist.append(code)
        self._last_args = arglist
        return ' '.join(parts), callee

    # ------------------------------------------------------------ statements
    def carried(self, names, env):
        """ordered Python names of the variables a loop / join threads (the state first)"""
        names = [n for n in names if n in env and env[n].kind != 'fn']
        return sorted(names, key=lambda n: (env[n].kind not in ('self', 'bself', 'circ'), n))

    def stmts(self, body, env, k):
        if not body:
            return k.emit(env)
        s, rest = body[0], body[1:]
        kr = K(lambda e: self.stmts(rest, e, k), k.cheap and not rest, k.can_return) if rest else k
        if isinstance(s, ast.Pass):
            return kr.emit(env)
        if isinstance(s, ast.Expr) and isinstance(s.value, ast.Constant) and isinstance(s.value.value, str):
            return kr.emit(env)
        if isinstance(s, ast.Raise):
            if rest:
                fail(rest[0], 'unreachable statement after raise')
            return self.raise_(s)
        if isinstance(s, ast.Return):
            if rest:
                fail(rest[0], 'unreachable statement after return')
            return self.return_(s, env, k)
        if isinstance(s, ast.Assert):
            if s.msg is not None:
                fail(s, 'assert with a message')
            pre = []
            c = self.typed_val(s.test, env, pre, 'bool')
            return '\n'.join(self.emit_pre(pre) + [f'if {c.code} then', ind(kr.emit(env)), 'else Err PyAssertionError'])
        if isinstance(s, ast.If):
            return self.if_(s, rest, env, k, kr)
        if isinstance(s, ast.For):
            return self.for_(s, env, kr)
        if isinstance(s, ast.FunctionDef):
            return self.closure(s, env, kr)
        if isinstance(s, ast.Assign) and rest and self.is_move(s, rest[0], env):
            return self.move(s, env, kr)
        if isinstance(s, (ast.Assign, ast.AnnAssign)):
            return self.assign(s, env, kr)
        if isinstance(s, ast.Delete):
            return self.delete(s, env, kr)
        if isinstance(s, ast.Expr) and isinstance(s.value, ast.Call):
            return self.call_stmt(s.value, env, kr)
        fail(s, 'statement outside grammar')

    def raise_(self, s):
        if s.cause is not None or s.exc is None:
            fail(s, 'raise form outside grammar')
        e = s.exc.func if isinstance(s.exc, ast.Call) else s.exc
        if not isinstance(e, ast.Name) or e.id not in self.u.errs:
            fail(s, 'raise of something that is not a modelled exception class')
        imp = self.u.imports[self.impkey].get(e.id)
        if imp != ('cirbo.core.circuit.exceptions', e.id):
            fail(s, f'{e.id} is not imported from cirbo.core.circuit.exceptions')
        return f'Err {e.id}'

    def ok(self, code):
        return f'Ok {code}'

    def final(self, env, val=None):
        """the normal result of the function"""
        if self.fn.mutates:
            sc = env[self.self_py].code
            return self.ok(sc if val is None else f'({sc}, {val})')
        return self.ok('tt' if val is None else val)

    def return_(self, s, env, k):
        if not k.can_return:
            fail(s, 'return inside a loop or inside a branch that is joined')
        v = s.value
        if v is None or (isinstance(v, ast.Constant) and v.value is None):
            self.returns.append(('none', None))
            return self.final(env)
        if isinstance(v, ast.Name) and v.id in env and env[v.id].kind in ('self', 'bself'):
            self.returns.append(('self', None))
            if not self.fn.mutates:
                # returning an unmodified self: still a circuit-valued method
                self.fn.mutates = True
            return self.ok(env[v.id].code)
        if isinstance(v, ast.Call):
            c = self.callee_of(v, env)
            if c is not None and c[1].mutates:
                callee = c[1]
                if not (callee.returns_self and callee.ret_ty == 'unit' and callee.monadic):
                    fail(s, 'tail call of a mutator that does not return self')
                if not self.self_writable or not self.fn.mutates:
                    fail(s, 'mutator call on a read-only circuit')
                pre = []
                code, _ = self.call_code(c, v, env, pre)
                self.effects_of_call(callee, env)
                self.returns.append(('self', None))
                return '\n'.join(self.emit_pre(pre) + [code])
        pre = []
        val = self.expr(v, env, pre)
        self.returns.append(('value', val))
        # `do t <- m; Ok t`  ==>  m
        if pre and not self.fn.mutates and pre[-1][0] == val.code:
            return '\n'.join(self.emit_pre(pre[:-1]) + [pre[-1][1]])
        return '\n'.join(self.emit_pre(pre) + [self.final(env, self.atom(val))])

    def none_test(self, test, env):
        if isinstance(test, ast.Compare) and len(test.ops) == 1 and isinstance(test.ops[0], (ast.Is, ast.IsNot)) \
                and isinstance(test.comparators[0], ast.Constant) and test.comparators[0].value is None \
                and isinstance(test.left, ast.Name) and test.left.id in env:
            return test.left.id, isinstance(test.ops[0], ast.Is)
        for n in ast.walk(test):
            if isinstance(n, ast.Constant) and n.value is None:
                fail(test, 'None test outside grammar')
        return None

    def if_(self, s, rest, env, k, kr):
        nt = self.none_test(s.test, env)
        t_term, e_term = self.terminates(s.body), self.terminates(s.orelse)
        falls = (0 if t_term else 1) + (0 if e_term else 1)
        join = falls == 2 and rest and not kr.cheap
        lines = []
        if join:
            names = self.carried(self.modset(s.body + s.orelse, env), env)
            ends = []

            def jemit(e):
                ends.append(e)
                return self.ok(tuple_of([e[n].code for n in names]))
            kb = K(jemit, True, False)
        else:
            kb = kr
        env_t, env_e = dict(env), dict(env)
        if nt is not None:
            name, is_none = nt
            v = self.lookup(s.test.left, env)
            if not v.ty.startswith('opt'):
                fail(s.test, 'None test on a value that is not Optional')
            some_env, none_env = (env_e, env_t) if is_none else (env_t, env_e)
            some_env[name] = Var(v.code, v.ty[3:], 'param', v.alias, None)
            none_env[name] = Var(v.code, 'unit', 'none')
            tcode = self.stmts(s.body, env_t, kb)
            ecode = self.stmts(s.orelse, env_e, kb)
            some_code, none_code = (ecode, tcode) if is_none else (tcode, ecode)
            term = '\n'.join([f'match {v.code} with', f'| Some {v.code} =>', ind(some_code, 4),
                              '| None =>', ind(none_code, 4), 'end'])
        else:
            c = self.typed_val(s.test, env, lines_pre := [], 'bool')
            lines += self.emit_pre(lines_pre)
            tcode = self.stmts(s.body, env_t, kb)
            ecode = self.stmts(s.orelse, env_e, kb)
            term = '\n'.join([f'if {c.code} then', ind(tcode), 'else', ind(ecode)])
        if not join:
            return '\n'.join(lines + [term])
        # join: both branches fall through and something non-trivial follows
        env2 = dict(env)
        for n in names:
            tys = {e[n].ty for e in ends}
            if len(tys) != 1:
                fail(s, f'{n} has different types at the end of the branches: {sorted(tys)}')
            kinds = {e[n].kind for e in ends}
            alias = frozenset().union(*[e[n].alias for e in ends])
            kind = kinds.pop() if len(kinds) == 1 else ('local' if alias else 'mutlocal')
            old = env[n]
            env2[n] = Var(old.code, tys.pop(), kind, alias, None)
        pat = pat_of([env[n].code for n in names])
        return '\n'.join(lines + [f'do {pat} <- {paren(term)};', kr.emit(env2)])

    def iterable(self, node, env, pre):
        v = self.expr(node, env, pre)
        if v.ty not in ('labels', 'nats', 'gatepairs', 'blockpairs'):
            fail(node, f'loop over {v.ty}')
        return v

    def check_loop_body(self, s):
        for n in ast.walk(s):
            if isinstance(n, (ast.Break, ast.Continue)):
                fail(n, 'break / continue')

    def for_(self, s, env, kr):
        if not s.orelse and isinstance(s.target, ast.Tuple):
            return self.enum_update(s, env, kr)
        if not s.orelse and isinstance(s.target, ast.Name):
            r = self.values_update(s, env, kr)
            if r is not None:
                return r
        if s.orelse or not isinstance(s.target, ast.Name):
            fail(s, 'loop form outside grammar')
        self.check_loop_body(s)
        x = s.target.id
        if x in env:
            fail(s, f'loop variable {x} shadows a name')
        pre = []
        it = self.iterable(s.iter, env, pre)
        xc = self.vname(s.target, x)
        if it.ty in PAIR_ELEM:
            xc = 'kv_' + x          # a (key, value) pair of the dict

        def body_env():
            e = dict(env)
            if it.ty == 'labels':
                e[x] = Var(xc, 'label', 'local')
            elif it.ty == 'nats':
                e[x] = Var(xc, 'nat', 'local')
            else:
                ety = PAIR_ELEM[it.ty]
                e[x] = Var(f'(snd {xc})', ety, 'local', {'blocks.content'} if ety == 'block' else (), f'(fst {xc})')
            return e
        return self.fold_loop(s, env, kr, pre, it, xc, body_env)

    def fold_loop(self, s, env, kr, pre, it, xc, body_env):
        """foldM of the loop body over the list `it`, carrying the variables the body assigns"""
        names = self.carried(self.modset(s.body, env), env)
        for n in names:
            if env[n].kind not in ('self', 'mutlocal'):
                fail(s, f'the loop body modifies {n}, which is not a mutable local or the writable state')

        def kemit(e):
            for n in names:
                if e[n].ty != env[n].ty or e[n].kind != env[n].kind:
                    fail(s, f'{n} changes type inside the loop')
            return self.ok(tuple_of([e[n].code for n in names]))
        # dry run: learn what the body writes, then make sure nothing it reads or iterates is affected
        saved = (set(self.fn.effects), self.tmp, list(self.returns), list(self.pre_defs))
        self.fn.effects = set()
        self.loop_body(s.body, body_env(), K(kemit, True, False))
        body_effects = set(self.fn.effects)
        self.fn.effects, self.tmp, self.returns, self.pre_defs = saved[0] | body_effects, saved[1], saved[2], saved[3]
        if it.alias & body_effects:
            fail(s, f'the loop iterates over {sorted(it.alias & body_effects)} which its body writes')
        for v in env.values():
            if v.alias & body_effects:
                v.stale = True
        body = self.loop_body(s.body, body_env(), K(kemit, True, False))
        init = tuple_of([env[n].code for n in names])
        binder = pat_of([env[n].code for n in names], binder=True)
        pat = pat_of([env[n].code for n in names])
        loop = '\n'.join([f'foldM (fun {binder} {xc} =>', ind(body, 4) + ')', f'  {self.atom(it)} {init}'])
        return '\n'.join(self.emit_pre(pre) + [f'do {pat} <-', ind(loop) + ';', kr.emit(env)])

    def loop_body(self, body, env, k):
        return self.stmts(body, env, k)

    # ---- recognised in-place idioms
    def list_place(self, node, env):
        """a list that may be updated in place -> (current value code, function new value -> binding line, component)"""
        if isinstance(node, ast.Attribute) and isinstance(node.value, ast.Name) and node.value.id in env:
            v = env[node.value.id]
            if v.kind == 'bself' and node.attr in BLOCK_PROJ:
                sc = v.code
                cur = f'({BLOCK_PROJ[node.attr]} {sc})'

                def setter(new, attr=node.attr):
                    parts = [new if a == attr else f'({BLOCK_PROJ[a]} {sc})' for a in ('inputs', 'gates', 'outputs')]
                    return f'let {sc} := mkBlock {" ".join(parts)} in'
                return cur, setter, 'blocks.content'
            if v.kind == 'self':
                attr = CIRCUIT_PROPS.get(node.attr, node.attr)
                if attr in FIELDS and FIELDS[attr][2] == 'labels':
                    proj, _setter, _ty, comp = FIELDS[attr]
                    return f'({proj} {v.code})', (lambda new, attr=attr: self.set_field(env, attr, new)), comp
        if isinstance(node, ast.Name) and node.id in env and env[node.id].kind == 'mutlocal' and env[node.id].ty == 'labels':
            c = env[node.id].code
            return c, (lambda new: f'let {c} := {new} in'), None
        return None

    def enum_update(self, s, env, kr):
        """for i, x in enumerate(L): if <cond over x>: L[i] = <e>      (L updatable in place)
           Each store hits the position the iterator has just yielded, so positions still to come are read
           unchanged: the loop is  L := map (fun x => if cond then e else x) L."""
        arg = self.enumerate_arg(s.iter, env)
        tg = s.target
        if arg is None or len(tg.elts) != 2 or not all(isinstance(e, ast.Name) for e in tg.elts):
            fail(s, 'loop with a tuple target must be `for i, x in enumerate(L)`')
        i, x = tg.elts[0].id, tg.elts[1].id
        if i == x or i in env or x in env:
            fail(s, 'loop variables shadow a name')
        pl = self.list_place(arg, env)
        if pl is None:
            fail(s, 'enumerate-update loop over something that is not updatable in place')
        cur, setter, comp = pl
        ok = (len(s.body) == 1 and isinstance(s.body[0], ast.If) and not s.body[0].orelse
              and len(s.body[0].body) == 1 and isinstance(s.body[0].body[0], ast.Assign))
        if not ok:
            fail(s, 'enumerate-update loop body must be `if <cond>: L[i] = <e>`')
        test, st = s.body[0].test, s.body[0].body[0]
        ok = (len(st.targets) == 1 and isinstance(st.targets[0], ast.Subscript)
              and ast.dump(st.targets[0].value) == ast.dump(arg)
              and isinstance(st.targets[0].slice, ast.Name) and st.targets[0].slice.id == i)
        if not ok:
            fail(st, 'enumerate-update loop must store into L[i]')
        for e in (test, st.value):
            for n in ast.walk(e):
                if not isinstance(n, (ast.Name, ast.Compare, ast.BoolOp, ast.UnaryOp, ast.Load, ast.Eq, ast.NotEq, ast.And,
                                      ast.Or, ast.Not, ast.Constant)):
                    fail(e, 'enumerate-update loop: condition / value must be built from names and comparisons only')
                if isinstance(n, ast.Name) and (n.id == i or (isinstance(arg, ast.Name) and n.id == arg.id)):
                    fail(e, 'enumerate-update loop: condition / value may not mention the index or the list')
        inner = dict(env)
        xc = self.vname(tg.elts[1], x)
        inner[x] = Var(xc, 'label', 'local')
        c = self.pure(test, inner, 'enumerate-update condition')
        e = self.pure(st.value, inner, 'enumerate-update value')
        if c.ty != 'bool' or e.ty != 'label':
            fail(s, 'enumerate-update loop types')
        if comp is not None:
            self.effect(comp, env)
        line = setter(f'(map (fun {xc} => if {c.code} then {e.code} else {xc}) {cur})')
        return '\n'.join([line, kr.emit(env)])

    def values_update(self, s, env, kr):
        """for b in self.blocks.values(): b.<Block mutator>(args)   ->  the dict with every value updated
           (the dict structure is not touched; every Block is a separate object)"""
        it = s.iter
        ok = (isinstance(it, ast.Call) and isinstance(it.func, ast.Attribute) and it.func.attr == 'values'
              and not it.args and not it.keywords and len(s.body) == 1 and isinstance(s.body[0], ast.Expr)
              and isinstance(s.body[0].value, ast.Call) and isinstance(s.body[0].value.func, ast.Attribute)
              and isinstance(s.body[0].value.func.value, ast.Name) and s.body[0].value.func.value.id == s.target.id)
        if not ok:
            return None
        call = s.body[0].value
        x = s.target.id
        if x in env:
            fail(s, f'loop variable {x} shadows a name')
        pre = []
        d = self.expr(it.func.value, env, pre)
        if d.ty != 'blockdict' or pre or not self.self_writable or env[self.self_py].kind != 'self':
            return None
        kv = 'kv_' + x
        inner = dict(env)
        inner[x] = Var(f'(snd {kv})', 'block', 'local', {'blocks.content'}, f'(fst {kv})')
        c = self.callee_of(call, inner)
        if c is None or c[0] != 'bmethod' or not c[1].mutates or c[1].ret_ty != 'unit':
            fail(s, 'loop over dict values must call a translated Block mutator on each value')
        for a in list(call.args) + [k.value for k in call.keywords]:
            for n in ast.walk(a):
                if isinstance(n, ast.Name) and n.id == x:
                    fail(s, 'arguments may not mention the loop variable')
        apre = []
        code, callee = self.call_code(c, call, inner, apre)
        if apre:
            fail(s, 'arguments of the Block mutator must be pure')
        self.effect('blocks.content', env)
        t = self.fresh()
        body = f'do b <- {code}; Ok (fst {kv}, b)' if callee.monadic else f'Ok (fst {kv}, {code})'
        lines = [f'do {t} <- mapM (fun {kv} => {body}) {self.atom(d)};', self.set_field(env, '_blocks', t)]
        return '\n'.join(lines + [kr.emit(env)])

    # ---- self._gate_to_users[new] = self._gate_to_users[old]; del self._gate_to_users[old]
    def users_item(self, node, env):
        if isinstance(node, ast.Subscript) and isinstance(node.value, ast.Attribute) \
                and isinstance(node.value.value, ast.Name) and node.value.value.id in env \
                and env[node.value.value.id].kind == 'self' and node.value.attr == '_gate_to_users' \
                and isinstance(node.slice, ast.Name) and node.slice.id in env and env[node.slice.id].ty == 'label':
            return node.slice.id
        return None

    def is_move(self, s, nxt, env):
        if len(s.targets) != 1 or not isinstance(nxt, ast.Delete) or len(nxt.targets) != 1:
            return False
        dst, src, dele = self.users_item(s.targets[0], env), self.users_item(s.value, env), self.users_item(nxt.targets[0], env)
        return dst is not None and src is not None and dele == src

    def move(self, s, env, kr):
        """the users list is stored under a second key and the first key is deleted by the NEXT statement: the list
        object changes owner, no alias survives"""
        dst, src = self.users_item(s.targets[0], env), self.users_item(s.value, env)
        kd, ks = self.lookup(s.targets[0].slice, env).code, self.lookup(s.value.slice, env).code
        sc = env[self.self_py].code
        t = self.fresh()
        self.effect('users', env)
        lines = [f'do {t} <- dget_res (users {sc}) {ks};', self.set_field(env, '_gate_to_users', f'(dset (users {sc}) {kd} {t})')]
        return '\n'.join(lines + [kr.emit(env)])

    def closure(self, s, env, kr):
        if s.name in env:
            fail(s, 'closure shadows a name')
        # free names: its parameters, self, module-level names
        params = {a.arg for a in s.args.args}
        for n in ast.walk(s):
            if isinstance(n, ast.Name) and n.id in env and n.id not in params and env[n.id].kind not in ('self', 'circ'):
                fail(n, 'a closure may capture only self')
            if isinstance(n, (ast.Nonlocal, ast.Global, ast.Lambda)) or (isinstance(n, ast.FunctionDef) and n is not s):
                fail(n, 'closure body outside grammar')
        sub = type(self)(self.u, self.modkey, s, f'{self.fn.coqname}_{s.name.lstrip("_")}', outer=self)
        fn = sub.translate()
        self.pre_defs = [d for d in self.pre_defs if d.coqname != fn.coqname] + [fn]
        env2 = dict(env)
        env2[s.name] = Var('', 'unit', 'fn', fn=fn)
        return kr.emit(env2)

    def is_fresh_list(self, node, env):
        """syntactically a new list object"""
        if isinstance(node, (ast.List, ast.ListComp)):
            return True
        if isinstance(node, ast.Call) and isinstance(node.func, ast.Name) and node.func.id in ('list', 'set') \
                and node.func.id not in env:
            return True
        if isinstance(node, ast.Call):
            c = self.callee_of(node, env)
            return c is not None and not c[1].ret_alias and c[1].ret_fresh
        return False

    def place(self, node, env):
        """classify an l-value / mutated receiver:
           ('field', attr) | ('item', attr, key node) | ('local', name)"""
        if isinstance(node, ast.Name) and node.id in env:
            return ('local', node.id)
        if isinstance(node, ast.Attribute) and isinstance(node.value, ast.Name) and node.value.id in env \
                and env[node.value.id].ty == 'circuit' and node.attr in FIELDS:
            if env[node.value.id].kind != 'self':
                fail(node, 'write through a read-only circuit')
            return ('field', node.attr)
        if isinstance(node, ast.Subscript):
            b = node.value
            if isinstance(b, ast.Attribute) and isinstance(b.value, ast.Name) and b.value.id in env \
                    and env[b.value.id].ty == 'circuit' and b.attr in FIELDS:
                if env[b.value.id].kind != 'self':
                    fail(node, 'write through a read-only circuit')
                return ('item', b.attr, node.slice)
        fail(node, 'assignment / mutation target outside grammar')

    def set_field(self, env, attr, code):
        proj, setter, _ty, _comp = FIELDS[attr]
        sc = env[self.self_py].code
        return f'let {sc} := {setter} {sc} {code} in'

    def assign(self, s, env, kr):
        if isinstance(s, ast.Assign):
            if len(s.targets) != 1:
                fail(s, 'multiple assignment')
            tgt, val = s.targets[0], s.value
        else:
            tgt, val = s.target, s.value
            if val is None:
                fail(s, 'annotation without value')
        pre = []
        if isinstance(tgt, ast.Name):
            name = tgt.id
            if name in env and env[name].kind in ('self', 'bself', 'circ', 'fn'):
                fail(s, 'assignment to the state variable')
            if name in env and env[name].ty in ('label', 'gate', 'block', 'gtype', 'nat', 'int', 'bool'):
                # statically resolved labels of Gate / Block values and item references mention such names
                fail(s, f'rebinding of the scalar name {name}')
            if isinstance(val, ast.Call):
                c = self.callee_of(val, env)
                if c is not None and c[1].mutates:
                    fail(s, 'value of a mutator call')
            v = self.expr(val, env, pre)
            if v.ty in ('circuit', 'unit'):
                fail(s, 'assignment of a circuit')
            code = self.vname(tgt, name)
            key = self.users_item(val, env)
            if key is not None and self.self_writable:
                # a live reference to self._gate_to_users[key]: item assignment through it updates the state
                env2 = dict(env)
                var = Var(code, 'labels', 'ref', {'users', 'users.content'})
                var.ref = ('_gate_to_users', key, env[key])
                env2[name] = var
                return '\n'.join(self.emit_pre(pre) + [f'let {code} := {v.code} in', kr.emit(env2)])
            fresh = v.ty in ('labels', 'labelset') and not v.alias and self.is_fresh_list(val, env)
            kind = 'mutlocal' if fresh and v.ty == 'labels' else 'local'
            env2 = dict(env)
            env2[name] = Var(code, v.ty, kind, v.alias, v.label)
            line = f'let {code} := {v.code} in'
            return '\n'.join(self.emit_pre(pre) + [line, kr.emit(env2)])
        if isinstance(tgt, ast.Subscript) and isinstance(tgt.value, ast.Name) and tgt.value.id in env \
                and env[tgt.value.id].kind == 'ref':
            var = self.lookup(tgt.value, env)
            attr, keyname, keyvar = var.ref
            if env.get(keyname) is not keyvar:
                fail(s, 'the key of the referenced item has been rebound')
            v = self.typed(val, env, pre, 'label')
            i = self.expr(tgt.slice, env, pre)
            if i.ty != 'nat':
                fail(s, 'list index must be a non-negative integer (a length or an index() result)')
            t = self.fresh()
            pre.append((t, f'list_set {var.code} {self.atom(i)} {v}'))
            self.effect('users.content', env)
            sc = env[self.self_py].code
            proj = FIELDS[attr][0]
            return '\n'.join(self.emit_pre(pre)
                             + [self.set_field(env, attr, f'(dset ({proj} {sc}) {keyvar.code} {t})'), kr.emit(env)])
        pl = self.place(tgt, env)
        if pl[0] == 'item' and FIELDS[pl[1]][2] == 'labels':
            attr = pl[1]
            proj, _setter, _ty, comp = FIELDS[attr]
            v = self.typed(val, env, pre, 'label')
            i = self.expr(pl[2], env, pre)
            if i.ty != 'nat':
                fail(s, 'list index must be a non-negative integer (a length or an index() result)')
            t = self.fresh()
            sc = env[self.self_py].code
            pre.append((t, f'list_set ({proj} {sc}) {self.atom(i)} {v}'))
            self.effect(comp, env)
            return '\n'.join(self.emit_pre(pre) + [self.set_field(env, attr, t), kr.emit(env)])
        if pl[0] == 'field':
            attr = pl[1]
            _proj, _setter, ty, comp = FIELDS[attr]
            if ty != 'labels':
                fail(s, 'only the inputs / outputs lists may be rebound')
            v = self.typed_val(val, env, pre, 'labels')
            self.effect(comp, env)
            env = self.store_check(s, val, v, env, comp)
            return '\n'.join(self.emit_pre(pre) + [self.set_field(env, attr, self.atom(v)), kr.emit(env)])
        if pl[0] == 'item':
            attr, knode = pl[1], pl[2]
            proj, _setter, ty, comp = FIELDS[attr]
            if ty not in DICT_VALUE:
                fail(s, 'item assignment on a list')
            # Python evaluates the value first, then the key
            v = self.expr(val, env, pre)
            k = self.typed(knode, env, pre, 'label')
            want = DICT_VALUE[ty]
            if v.ty != want:
                fail(s, f'value of type {v.ty} stored into {attr}')
            if want in ('gate', 'block'):
                if v.label is None or v.label != k:
                    fail(s, f'the key must syntactically be the label / name of the stored {want}')
                if want == 'block' and v.alias:
                    fail(s, 'only a new Block may be stored')
            self.effect(comp, env)
            if want == 'labels':
                env = self.store_check(s, val, v, env, 'users.content')
            sc = env[self.self_py].code
            return '\n'.join(self.emit_pre(pre)
                             + [self.set_field(env, attr, f'(dset ({proj} {sc}) {k} {self.atom(v)})'), kr.emit(env)])
        fail(s, 'assignment target outside grammar')

    def store_check(self, s, val, v, env, comp):
        """only a fresh list may be stored into the state: a new-list expression, or a mutable local (which then
        becomes a read-only view of that component: the state owns the list from here on)"""
        if isinstance(val, ast.Name) and val.id in env and env[val.id].kind == 'mutlocal' and not v.alias:
            env = dict(env)
            old = env[val.id]
            env[val.id] = Var(old.code, old.ty, 'local', {comp})
            return env
        if v.alias or not self.is_fresh_list(val, env):
            fail(s, 'only a fresh list may be stored into the state')
        return env

    def delete(self, s, env, kr):
        if len(s.targets) != 1:
            fail(s, 'multiple delete')
        pl = self.place(s.targets[0], env)
        if pl[0] != 'item' or FIELDS[pl[1]][2] not in DICT_VALUE:
            fail(s, 'del outside grammar')
        attr = pl[1]
        proj, _setter, _ty, comp = FIELDS[attr]
        pre = []
        k = self.typed(pl[2], env, pre, 'label')
        t = self.fresh()
        sc = env[self.self_py].code
        pre.append((t, f'ddel_res ({proj} {sc}) {k}'))
        self.effect(comp, env)
        return '\n'.join(self.emit_pre(pre) + [self.set_field(env, attr, t), kr.emit(env)])

    def call_stmt(self, call, env, kr):
        f = call.func
        # logger.<level>(...): no effect on the modelled state (its arguments must still be in the grammar)
        if isinstance(f, ast.Attribute) and isinstance(f.value, ast.Name) and f.value.id == 'logger' \
                and 'logger' not in env and f.attr in LOG_LEVELS and self.impkey == 'circuit':
            for a in call.args:
                if not isinstance(a, (ast.JoinedStr, ast.Constant)):
                    fail(call, 'logger argument outside grammar')
                for n in ast.walk(a):
                    if isinstance(n, ast.FormattedValue):
                        self.pure(n.value, env, 'logged value')
            if call.keywords:
                fail(call, 'logger keywords')
            return kr.emit(env)
        # X.append(e) / X.remove(e)
        if isinstance(f, ast.Attribute) and f.attr in ('append', 'remove') and len(call.args) == 1 and not call.keywords \
                and not (isinstance(f.value, ast.Name) and f.value.id in env and env[f.value.id].ty == 'circuit'):
            return self.list_mutation(f.value, f.attr, call.args[0], env, kr, call)
        c = self.callee_of(call, env)
        if c is None:
            fail(call, 'call statement outside grammar')
        callee = c[1]
        pre = []
        code, _ = self.call_code(c, call, env, pre)
        if callee.mutates:
            if c[0] == 'method' and env[c[2].id].kind != 'self':
                fail(call, 'mutator call on a read-only circuit')
            if not self.self_writable:
                fail(call, 'mutator call on a read-only circuit')
            self.effects_of_call(callee, env)
            sc = env[self.self_py].code
            pat = sc if callee.ret_ty == 'unit' else f"({sc}, _)"
            pat_q = pat if callee.ret_ty == 'unit' else "'" + pat
            line = f'do {pat} <- {code};' if callee.monadic else f"let {pat_q} := {code} in"
        else:
            if not callee.monadic:
                fail(call, 'statement without effect')
            line = f'do _ <- {code};'
        return '\n'.join(self.emit_pre(pre) + [line, kr.emit(env)])

    def list_mutation(self, recv, op, arg, env, kr, node):
        pre = []
        if isinstance(recv, ast.Name):
            if recv.id not in env:
                fail(node, 'unknown name')
            var = self.lookup(recv, env)
            if var.kind != 'mutlocal' or var.ty != 'labels':
                fail(node, f'{recv.id} is not a mutable local list (parameters and views of the state are not mutated)')
            e = self.typed(arg, env, pre, 'label')
            env2 = dict(env)
            env2[recv.id] = Var(var.code, 'labels', 'mutlocal')
            if op == 'append':
                line = f'let {var.code} := {var.code} ++ [{e}] in'
            else:
                line = f'do {var.code} <- list_remove {e} {var.code};'
            return '\n'.join(self.emit_pre(pre) + [line, kr.emit(env2)])
        pl = self.place(recv, env)
        sc = env[self.self_py].code
        if pl[0] == 'field':
            attr = pl[1]
            proj, _setter, ty, comp = FIELDS[attr]
            if ty != 'labels':
                fail(node, f'{op} on {attr}')
            e = self.typed(arg, env, pre, 'label')
            self.effect(comp, env)
            if op == 'append':
                lines = [self.set_field(env, attr, f'({proj} {sc} ++ [{e}])')]
            else:
                t = self.fresh()
                lines = [f'do {t} <- list_remove {e} ({proj} {sc});', self.set_field(env, attr, t)]
            return '\n'.join(self.emit_pre(pre) + lines + [kr.emit(env)])
        if pl[0] == 'item':
            attr = pl[1]
            proj, _setter, ty, comp = FIELDS[attr]
            if ty != 'usersdict':
                fail(node, f'{op} on an item of {attr}')
            k = self.typed(pl[2], env, pre, 'label')
            t = self.fresh()
            pre.append((t, f'dget_res ({proj} {sc}) {k}'))
            e = self.typed(arg, env, pre, 'label')
            self.effect('users.content', env)
            if op == 'append':
                lines = [self.set_field(env, attr, f'(dset ({proj} {sc}) {k} ({t} ++ [{e}]))')]
            else:
                t2 = self.fresh()
                lines = [f'do {t2} <- list_remove {e} {t};', self.set_field(env, attr, f'(dset ({proj} {sc}) {k} {t2})')]
            return '\n'.join(self.emit_pre(pre) + lines + [kr.emit(env)])
        fail(node, 'mutation target outside grammar')

    # ------------------------------------------------------------ whole function
    def translate(self):
        fn, f = self.fn, self.src
        env = {}
        self.signature(env)
        body = strip_docstring(f.body)
        if not body:
            fail(f, 'empty body')
        for n in ast.walk(f):
            if isinstance(n, self.FORBIDDEN):
                fail(n, 'construct outside grammar')
        # **kwargs may only be forwarded
        if self.kwarg is not None:
            uses = [n for n in ast.walk(f) if isinstance(n, ast.Name) and n.id == self.kwarg]
            fwd = [k.value for n in ast.walk(f) if isinstance(n, ast.Call) for k in n.keywords if k.arg is None]
            if any(u not in fwd for u in uses):
                fail(f, '**kwargs may only be forwarded')
        ms = self.modset(body, env)
        fn.mutates = getattr(self, 'self_py', None) in ms
        if fn.mutates and not self.self_writable:
            fail(f, 'writes through a read-only circuit')
        # a single `return <pure expression>`: a plain (non-monadic) definition
        if len(body) == 1 and isinstance(body[0], ast.Return) and body[0].value is not None and not fn.mutates:
            pre = []
            save = self.tmp
            try:
                v = self.expr(body[0].value, env, pre)
            except TranslatorError:
                pre = [None]
            if not pre and v.ty not in ('circuit', 'unit'):
                fn.monadic, fn.ret_ty, fn.ret_alias = False, v.ty, v.alias
                fn.ret_fresh = not v.alias and self.is_fresh_list(body[0].value, env)
                fn.text = f'Definition {fn.coqname} {self.binders()} : {fn.result_coq_ty()} :=\n  {v.code}.\n'
                return fn
            self.tmp = save
        code = self.stmts(body, env, K(lambda e: self.fallthrough(e), True, True))
        # result type
        vals = [v for kind, v in self.returns if kind == 'value']
        kinds = {kind for kind, _ in self.returns}
        if vals:
            tys = {v.ty for v in vals}
            if len(tys) != 1 or kinds - {'value'}:
                fail(f, f'inconsistent return statements: {sorted(tys)} {sorted(kinds)}')
            fn.ret_ty = tys.pop()
            if fn.ret_ty in ('circuit', 'unit'):
                fail(f, 'returned value outside grammar')
            fn.ret_alias = frozenset().union(*[v.alias for v in vals])
            labs = {v.label for v in vals}
            if fn.ret_ty in ('gate', 'block') and len(labs) == 1 and None not in labs:
                lab = labs.pop()
                for i, (p, _ty, _d, _nl) in enumerate(fn.params):
                    if lab == 'v_' + p:
                        fn.ret_label_param = i
            rets = [n for n in ast.walk(f) if isinstance(n, ast.Return) and n.value is not None]
            fn.ret_fresh = not fn.ret_alias and all(
                self.is_fresh_ret(r.value, body) for r in rets)
        else:
            if 'self' in kinds and 'none' in kinds:
                fail(f, 'mixes `return self` with falling off the end')
            fn.ret_ty = 'unit'
            fn.returns_self = 'self' in kinds
            fn.ret_fresh = False
        fn.text = f'Definition {fn.coqname} {self.binders()} : {fn.result_coq_ty()} :=\n{ind(code)}.\n'
        fn.closures = list(self.pre_defs)
        return fn

    def is_fresh_ret(self, node, body):
        """`return <local>` where every assignment of the local in the function creates a new list"""
        if isinstance(node, (ast.List, ast.ListComp)):
            return True
        if isinstance(node, ast.Name):
            assigns = [s for s in ast.walk(self.src) if isinstance(s, (ast.Assign, ast.AnnAssign))
                       and any(isinstance(t, ast.Name) and t.id == node.id
                               for t in (s.targets if isinstance(s, ast.Assign) else [s.target]))]
            return bool(assigns) and all(self.is_fresh_list(s.value, {}) for s in assigns) \
                and node.id not in [p[0] for p in self.fn.params]
        return False

    def fallthrough(self, env):
        self.returns.append(('none', None))
        return self.final(env)


def translate():
    u = Unit()
    for modkey, name in COVERED:
        u.get(modkey, name)
    parts = [HEADER]
    emitted = set()

    def emit(fn):
        if fn.coqname in emitted:
            return
        emitted.add(fn.coqname)
        for d in fn.closures:
            emit(d)
        parts.append(fn.text)

    for fn in u.order:
        emit(fn)
    text = '\n'.join(parts)
    return {'Generated/CircuitCore.v': write_if_changed('Generated/CircuitCore.v', text)}


if __name__ == '__main__':
    print(translate())
