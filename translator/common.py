"""Shared helpers for the fail-closed translators (Python ast -> Coq text)."""
import ast
import os
import pathlib


class TranslatorError(Exception):
    """A source construct fell outside the translator's grammar (fail closed)."""


def repo_root() -> pathlib.Path:
    return pathlib.Path(os.environ.get('CIRBO_REPO', '/repo'))


def verif_root() -> pathlib.Path:
    return pathlib.Path(__file__).resolve().parent.parent


def parse(relpath: str) -> ast.Module:
    p = repo_root() / relpath
    try:
        return ast.parse(p.read_text(), filename=str(p))
    except (OSError, SyntaxError) as e:  # pragma: no cover
        raise TranslatorError(f'cannot parse {p}: {e}')


def fail(node, msg):
    line = getattr(node, 'lineno', '?')
    raise TranslatorError(f'line {line}: {msg}: {ast.dump(node)[:200] if isinstance(node, ast.AST) else node}')


def write_if_changed(relpath: str, text: str) -> bool:
    p = verif_root() / 'coq' / relpath
    p.parent.mkdir(parents=True, exist_ok=True)
    if p.exists() and p.read_text() == text:
        return False
    p.write_text(text)
    return True


def guard_module(mod: ast.Module):
    """fail closed on module-level code that could change, at import time, what a module-level name means
    after its definition was read: a name bound twice (def after def, assignment after def, ...), a
    decorated function or class, augmented / subscript / attribute assignment or `del` on a module-level
    name, a method call statement on one (`tbl.update(...)`), or a compound statement (for / while / with /
    try / if other than `if TYPE_CHECKING`) that stores to or calls methods on one."""
    if getattr(mod, '_guarded', False):
        return
    bound = {}

    def bind(name, node):
        if name in bound:
            fail(node, f'module-level name {name!r} is bound more than once')
        bound[name] = node

    def names_in(node):
        return {n.id for n in ast.walk(node) if isinstance(n, ast.Name)}

    # first pass: every module-level binding
    for node in mod.body:
        if isinstance(node, (ast.FunctionDef, ast.ClassDef, ast.AsyncFunctionDef)):
            if node.decorator_list and not isinstance(node, ast.ClassDef):
                fail(node, f'decorated module-level function {node.name!r}')
            bind(node.name, node)
        elif isinstance(node, ast.Assign):
            for t in node.targets:
                if isinstance(t, ast.Name):
                    bind(t.id, node)
        elif isinstance(node, ast.AnnAssign) and isinstance(node.target, ast.Name) and node.value is not None:
            bind(node.target.id, node)
    # second pass: anything that mutates or rebinds them
    for node in mod.body:
        if isinstance(node, ast.AugAssign):
            if names_in(node.target) & set(bound):
                fail(node, 'augmented assignment to a module-level name')
        elif isinstance(node, (ast.Assign, ast.AnnAssign, ast.Delete)):
            targets = node.targets if isinstance(node, (ast.Assign, ast.Delete)) else [node.target]
            for t in targets:
                if not isinstance(t, ast.Name) and names_in(t) & set(bound):
                    fail(node, 'subscript / attribute assignment or del on a module-level name')
                if isinstance(node, ast.Delete) and isinstance(t, ast.Name) and t.id in bound:
                    fail(node, 'del of a module-level name')
        elif isinstance(node, ast.Expr) and isinstance(node.value, ast.Call):
            f = node.value.func
            if isinstance(f, ast.Attribute) and names_in(f.value) & set(bound):
                fail(node, 'method call statement on a module-level name')
        elif isinstance(node, (ast.For, ast.While, ast.With, ast.Try, ast.If, ast.Global)):
            if isinstance(node, ast.If) and 'TYPE_CHECKING' in ast.dump(node.test):
                continue
            for sub in ast.walk(node):
                if isinstance(sub, ast.Name) and isinstance(sub.ctx, (ast.Store, ast.Del)) and sub.id in bound:
                    fail(node, 'module-level compound statement rebinds a module-level name')
                if isinstance(sub, ast.Call) and isinstance(sub.func, ast.Attribute) and names_in(sub.func.value) & set(bound):
                    fail(node, 'module-level compound statement calls a method on a module-level name')
                if isinstance(sub, (ast.Subscript, ast.Attribute)) and isinstance(sub.ctx, (ast.Store, ast.Del)) \
                        and names_in(sub) & set(bound):
                    fail(node, 'module-level compound statement mutates a module-level name')
    mod._guarded = True


def top_level_functions(mod: ast.Module):
    guard_module(mod)
    return {n.name: n for n in mod.body if isinstance(n, ast.FunctionDef)}


def top_level_assigns(mod: ast.Module):
    """name -> value node, for simple `x = ...` and `x: T = ...` at module level."""
    guard_module(mod)
    out = {}
    for n in mod.body:
        if isinstance(n, ast.Assign) and len(n.targets) == 1 and isinstance(n.targets[0], ast.Name):
            out[n.targets[0].id] = n.value
        elif isinstance(n, ast.AnnAssign) and isinstance(n.target, ast.Name) and n.value is not None:
            out[n.target.id] = n.value
    return out


def strip_docstring(body):
    if body and isinstance(body[0], ast.Expr) and isinstance(body[0].value, ast.Constant) \
            and isinstance(body[0].value.value, str):
        return body[1:]
    return body
