"""Shared helpers for the fail-closed translators (Python ast -> Coq text)."""
import ast
import os
import pathlib


class TranslatorError(Exception):
    """A source construct fell outside the translator's grammar (fail closed)."""


def repo_root() -> pathlib.Path:
    return pathlib.Path(os.environ.get('CIRBO_REPO', '/repo'))


def verif_root() -> pathlib.Path:
    return pathlib.Path(__file__).resolve().parent.parent


def parse(relpath: str) -> ast.Module:
    p = repo_root() / relpath
    try:
        return ast.parse(p.read_text(), filename=str(p))
    except (OSError, SyntaxError) as e:  # pragma: no cover
        raise TranslatorError(f'cannot parse {p}: {e}')


def fail(node, msg):
    line = getattr(node, 'lineno', '?')
    raise TranslatorError(f'line {line}: {msg}: {ast.dump(node)[:200] if isinstance(node, ast.AST) else node}')


def write_if_changed(relpath: str, text: str) -> bool:
    p = verif_root() / 'coq' / relpath
    p.parent.mkdir(parents=True, exist_ok=True)
    if p.exists() and p.read_text() == text:
        return False
    p.write_text(text)
    return True


def top_level_functions(mod: ast.Module):
    return {n.name: n for n in mod.body if isinstance(n, ast.FunctionDef)}


def top_level_assigns(mod: ast.Module):
    """name -> value node, for simple `x = ...` and `x: T = ...` at module level."""
    out = {}
    for n in mod.body:
        if isinstance(n, ast.Assign) and len(n.targets) == 1 and isinstance(n.targets[0], ast.Name):
            out[n.targets[0].id] = n.value
        elif isinstance(n, ast.AnnAssign) and isinstance(n.target, ast.Name) and n.value is not None:
            out[n.target.id] = n.value
    return out


def strip_docstring(body):
    if body and isinstance(body[0], ast.Expr) and isinstance(body[0].value, ast.Constant) \
            and isinstance(body[0].value.value, str):
        return body[1:]
    return body
