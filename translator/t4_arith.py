"""T4: cirbo/synthesis/generation/arithmetics/{_utils,subtraction,summation}.py
       -> Generated/ArithTables.v (binary_tt_to_type, operand order of add_gate_from_tt)
       -> Generated/ArithCells.v  (the straight-line cells as builder programs)

Grammar accepted (anything else raises TranslatorError):

_utils.py
  binary_tt_to_type = { "<4 chars over 01>": gate.<NAME>, ... }      all 16 keys, no duplicates
  PLACEHOLDER_STR = '<string>'
  def add_gate_from_tt(circuit, left, right, operation):
      _label = generate_random_label(circuit)
      circuit.emplace_gate(label=_label, gate_type=binary_tt_to_type[operation], operands=(left, right))
      return _label
  def generate_random_label(circuit):
      _name = "new_" + uuid.uuid4().hex
      while circuit.has_gate(_name):
          _name = "new_" + uuid.uuid4().hex
      return _name
  def validate_const_size(seq, sz):  if len(seq) != sz: raise DifferentShapesError(...)
  def reverse_if_big_endian(seq, big_endian): res = list(seq); if big_endian: res.reverse(); return res

cells (subtraction.py: add_sub2 add_sub3; summation.py: add_sum2 add_sum3 add_stockmeyer_block
       add_mdfa add_simplified_mdfa add_sum2_aig add_sum3_aig)
  def cell(circuit, input_labels, *, big_endian=False)?:
      input_labels = list(input_labels)
      [if big_endian: input_labels.reverse()]
      validate_const_size(input_labels, K)
      x1, ..., xK = input_labels        |  [x1, ..., xK] = input_labels
      g = add_gate_from_tt(circuit, <name>, <name>, '<tt>')      (any number, names in scope)
      return list([<name>, ...])
"""
import ast

from .common import TranslatorError, fail, parse, strip_docstring, top_level_assigns, top_level_functions, write_if_changed

GTYPES = {'INPUT', 'ALWAYS_TRUE', 'ALWAYS_FALSE', 'AND', 'GEQ', 'GT', 'IFF', 'LEQ', 'LIFF', 'LNOT',
          'LT', 'NAND', 'NOR', 'NOT', 'NXOR', 'OR', 'RIFF', 'RNOT', 'XOR'}
COQ_RESERVED = {'as', 'at', 'cofix', 'else', 'end', 'exists', 'exists2', 'fix', 'for', 'forall', 'fun', 'if',
                'IF', 'in', 'let', 'match', 'mod', 'Prop', 'return', 'Set', 'then', 'Type', 'using', 'where',
                'with', 'do', 'bdo', 'check', 'Ret', 'Bind', 'Fail', 'gate_tt', 'TT', 'rev', 'label', 'prog',
                'input_labels', 'big_endian', 'circuit'}

UTILS = 'cirbo/synthesis/generation/arithmetics/_utils.py'
CELLS = [('cirbo/synthesis/generation/arithmetics/subtraction.py', ['add_sub2', 'add_sub3']),
         ('cirbo/synthesis/generation/arithmetics/summation.py',
          ['add_sum2', 'add_sum3', 'add_stockmeyer_block', 'add_mdfa', 'add_simplified_mdfa',
           'add_sum2_aig', 'add_sum3_aig'])]


def _name(node, want=None):
    if not isinstance(node, ast.Name) or (want is not None and node.id != want):
        fail(node, f'expected the name {want or "<identifier>"}')
    return node.id


def _call(node, fname, nargs=None):
    """node is `fname(args...)` (fname may be dotted); returns (args, keywords)"""
    if not isinstance(node, ast.Call):
        fail(node, f'expected a call of {fname}')
    got = ast.unparse(node.func)
    if got != fname:
        fail(node, f'expected a call of {fname}, got {got}')
    if nargs is not None and (len(node.args) != nargs or node.keywords):
        fail(node, f'{fname} must be called with {nargs} positional arguments')
    return node.args, node.keywords


def _tt(node):
    if not (isinstance(node, ast.Constant) and isinstance(node.value, str) and len(node.value) == 4
            and set(node.value) <= {'0', '1'}):
        fail(node, 'expected a 4-character truth table string over 0/1')
    return node.value


def tt_term(s):
    return '(TT ' + ' '.join('true' if ch == '1' else 'false' for ch in s) + ')'


# ------------------------------------------------------------------ _utils.py
def translate_utils():
    mod = parse(UTILS)
    assigns = top_level_assigns(mod)
    funcs = top_level_functions(mod)

    d = assigns.get('binary_tt_to_type')
    if not isinstance(d, ast.Dict):
        fail(d, 'binary_tt_to_type must be a dict literal')
    table = {}
    for k, v in zip(d.keys, d.values):
        key = _tt(k)
        if key in table:
            fail(k, 'duplicate key in binary_tt_to_type')
        if not (isinstance(v, ast.Attribute) and isinstance(v.value, ast.Name) and v.value.id == 'gate'
                and v.attr in GTYPES):
            fail(v, 'binary_tt_to_type value must be gate.<TYPE>')
        table[key] = v.attr
    if len(table) != 16:
        fail(d, f'binary_tt_to_type must have all 16 keys, has {len(table)}')

    ph = assigns.get('PLACEHOLDER_STR')
    if not (isinstance(ph, ast.Constant) and isinstance(ph.value, str) and ph.value.isascii()
            and '"' not in ph.value):
        fail(ph, 'PLACEHOLDER_STR must be a string literal')

    # add_gate_from_tt
    f = funcs.get('add_gate_from_tt')
    if f is None:
        raise TranslatorError('add_gate_from_tt not found')
    params = [a.arg for a in f.args.args]
    if params != ['circuit', 'left', 'right', 'operation'] or f.args.kwonlyargs or f.args.vararg or f.args.kwarg:
        fail(f, 'add_gate_from_tt(circuit, left, right, operation) expected')
    body = strip_docstring(f.body)
    if len(body) != 3:
        fail(f, 'add_gate_from_tt: three statements expected')
    s0, s1, s2 = body
    if not (isinstance(s0, ast.Assign) and len(s0.targets) == 1 and isinstance(s0.targets[0], ast.Name)):
        fail(s0, 'add_gate_from_tt: `_label = generate_random_label(circuit)` expected')
    lab = s0.targets[0].id
    args, _ = _call(s0.value, 'generate_random_label', 1)
    _name(args[0], 'circuit')
    if not isinstance(s1, ast.Expr):
        fail(s1, 'add_gate_from_tt: circuit.emplace_gate(...) expected')
    args, kws = _call(s1.value, 'circuit.emplace_gate')
    if args or sorted(k.arg for k in kws) != ['gate_type', 'label', 'operands']:
        fail(s1, 'emplace_gate(label=, gate_type=, operands=) expected')
    kw = {k.arg: k.value for k in kws}
    _name(kw['label'], lab)
    gt = kw['gate_type']
    if not (isinstance(gt, ast.Subscript) and isinstance(gt.value, ast.Name) and gt.value.id == 'binary_tt_to_type'
            and isinstance(gt.slice, ast.Name) and gt.slice.id == 'operation'):
        fail(gt, 'gate_type=binary_tt_to_type[operation] expected')
    ops = kw['operands']
    if not (isinstance(ops, ast.Tuple) and len(ops.elts) == 2 and all(isinstance(e, ast.Name) for e in ops.elts)
            and {e.id for e in ops.elts} == {'left', 'right'}):
        fail(ops, 'operands must be a pair made of left and right')
    order = [e.id for e in ops.elts]
    if not (isinstance(s2, ast.Return) and isinstance(s2.value, ast.Name) and s2.value.id == lab):
        fail(s2, 'add_gate_from_tt must return the new label')

    # generate_random_label: "new_" + uuid4().hex retried while the circuit has the gate
    f = funcs.get('generate_random_label')
    body = strip_docstring(f.body) if f else None
    want = ['_name = \'new_\' + uuid.uuid4().hex',
            'while circuit.has_gate(_name):\n    _name = \'new_\' + uuid.uuid4().hex',
            'return _name']
    if not body or [ast.unparse(s) for s in body] != want:
        fail(f, 'generate_random_label: unexpected body')

    # validate_const_size raises DifferentShapesError iff len(seq) != sz
    f = funcs.get('validate_const_size')
    body = strip_docstring(f.body) if f else None
    ok = (body and len(body) == 1 and isinstance(body[0], ast.If)
          and ast.unparse(body[0].test) == 'len(seq) != sz' and not body[0].orelse
          and len(body[0].body) == 1 and isinstance(body[0].body[0], ast.Raise)
          and isinstance(body[0].body[0].exc, ast.Call)
          and ast.unparse(body[0].body[0].exc.func) == 'DifferentShapesError')
    if not ok:
        fail(f, 'validate_const_size: unexpected body')
    f = funcs.get('validate_equal_sizes')
    body = strip_docstring(f.body) if f else None
    ok = (body and len(body) == 1 and isinstance(body[0], ast.If)
          and ast.unparse(body[0].test) == 'len(seq_a) != len(seq_b)' and not body[0].orelse
          and len(body[0].body) == 1 and isinstance(body[0].body[0], ast.Raise)
          and isinstance(body[0].body[0].exc, ast.Call)
          and ast.unparse(body[0].body[0].exc.func) == 'DifferentShapesError')
    if not ok:
        fail(f, 'validate_equal_sizes: unexpected body')

    # reverse_if_big_endian
    f = funcs.get('reverse_if_big_endian')
    body = strip_docstring(f.body) if f else None
    want = ['res = list(seq)', 'if big_endian:\n    res.reverse()', 'return res']
    if not body or [ast.unparse(s) for s in body] != want:
        fail(f, 'reverse_if_big_endian: unexpected body')

    lines = ['(* GENERATED by translator/t4_arith.py from cirbo/synthesis/generation/arithmetics/_utils.py. DO NOT EDIT. *)',
             'Require Import Cirbo.Model.Base Cirbo.Model.Gate.', '',
             '(* a 4-character truth table string "abcd": the characters in string order *)',
             'Record tt4 : Type := TT { tt_c0 : bool; tt_c1 : bool; tt_c2 : bool; tt_c3 : bool }.', '',
             '(* binary_tt_to_type[operation] *)',
             'Definition binary_tt_to_type (t : tt4) : gtype :=', '  match t with']
    for key in sorted(table):
        lines.append(f'  | {tt_term(key)[1:-1]} => {table[key]}')
    lines += ['  end.', '',
              '(* add_gate_from_tt(circuit, left, right, operation): operands=(...) of the emplaced gate *)',
              f'Definition gate_tt_operands (left right : label) : list label := [{order[0]}; {order[1]}].', '',
              f'Definition PLACEHOLDER_STR : label := "{ph.value}".', '']
    return '\n'.join(lines)


# ------------------------------------------------------------------ cells
def translate_cell(f: ast.FunctionDef):
    pos = [a.arg for a in f.args.args]
    kwo = [a.arg for a in f.args.kwonlyargs]
    if pos != ['circuit', 'input_labels'] or f.args.vararg or f.args.kwarg or kwo not in ([], ['big_endian']):
        fail(f, f'{f.name}(circuit, input_labels, *, big_endian=False)? expected')
    has_be = kwo == ['big_endian']
    if has_be:
        dflt = f.args.kw_defaults[0]
        if not (isinstance(dflt, ast.Constant) and dflt.value is False):
            fail(f, 'big_endian must default to False')
    body = list(strip_docstring(f.body))

    def pop():
        if not body:
            fail(f, f'{f.name}: body ended early')
        return body.pop(0)

    s = pop()
    if ast.unparse(s) != 'input_labels = list(input_labels)':
        fail(s, '`input_labels = list(input_labels)` expected')
    reverse = False
    if isinstance(body[0], ast.If):
        s = pop()
        if ast.unparse(s) != 'if big_endian:\n    input_labels.reverse()' or not has_be:
            fail(s, '`if big_endian: input_labels.reverse()` expected')
        reverse = True
    if has_be and not reverse:
        fail(f, 'big_endian parameter is never used')
    s = pop()
    if not isinstance(s, ast.Expr):
        fail(s, 'validate_const_size(input_labels, K) expected')
    args, _ = _call(s.value, 'validate_const_size', 2)
    _name(args[0], 'input_labels')
    if not (isinstance(args[1], ast.Constant) and type(args[1].value) is int and 1 <= args[1].value <= 8):
        fail(args[1], 'constant size expected')
    k = args[1].value
    s = pop()
    if not (isinstance(s, ast.Assign) and len(s.targets) == 1 and isinstance(s.targets[0], (ast.Tuple, ast.List))
            and isinstance(s.value, ast.Name) and s.value.id == 'input_labels'):
        fail(s, 'unpacking of input_labels expected')
    names = [_name(e) for e in s.targets[0].elts]
    if len(names) != k or len(set(names)) != k:
        fail(s, f'unpacking must bind {k} distinct names')
    scope = list(names)
    for n in names:
        if n in COQ_RESERVED:
            fail(s, f'identifier {n} is reserved')
    steps = []
    while body and isinstance(body[0], ast.Assign):
        s = pop()
        if not (len(s.targets) == 1 and isinstance(s.targets[0], ast.Name)):
            fail(s, '`g = add_gate_from_tt(...)` expected')
        tgt = s.targets[0].id
        if tgt in scope or tgt in COQ_RESERVED:
            fail(s, f'{tgt} is assigned twice or reserved')
        args, _ = _call(s.value, 'add_gate_from_tt', 4)
        _name(args[0], 'circuit')
        a, b = _name(args[1]), _name(args[2])
        if a not in scope or b not in scope:
            fail(s, 'operand is not a label in scope')
        steps.append((tgt, a, b, _tt(args[3])))
        scope.append(tgt)
    s = pop()
    if body:
        fail(body[0], 'statement after return')
    if not isinstance(s, ast.Return):
        fail(s, 'return expected')
    args, _ = _call(s.value, 'list', 1)
    if not isinstance(args[0], ast.List):
        fail(s, 'return list([...]) expected')
    outs = [_name(e) for e in args[0].elts]
    if any(o not in scope for o in outs):
        fail(s, 'returned label not in scope')

    sig = '(input_labels : list label)' + (' (big_endian : bool)' if has_be else '')
    out = [f'Definition {f.name} {sig} : prog (list label) :=']
    if reverse:
        out.append('  let input_labels := if big_endian then rev input_labels else input_labels in')
    out.append('  match input_labels with')
    out.append('  | [' + '; '.join(names) + '] =>')
    for tgt, a, b, t in steps:
        out.append(f'    bdo {tgt} <- gate_tt {tt_term(t)} {a} {b};')
    out.append('    Ret [' + '; '.join(outs) + ']')
    out.append('  | _ => Fail GenerationError')
    out.append('  end.')
    out.append(f'Definition {f.name}_gates : nat := {len(steps)}.')
    return '\n'.join(out)


def translate_cells():
    lines = ['(* GENERATED by translator/t4_arith.py from cirbo/synthesis/generation/arithmetics/'
             '{subtraction,summation}.py. DO NOT EDIT. *)',
             'Require Import Cirbo.Model.Base Cirbo.Model.Gate Cirbo.Model.Circuit.',
             'Require Import Cirbo.Generated.ArithTables Cirbo.Model.Builder.', '']
    for path, names in CELLS:
        funcs = top_level_functions(parse(path))
        lines.append(f'(* ---- {path} ---- *)')
        for n in names:
            if n not in funcs:
                raise TranslatorError(f'{path}: cell {n} not found')
            lines.append(translate_cell(funcs[n]))
            lines.append('')
    return '\n'.join(lines)


def translate():
    return {'Generated/ArithTables.v': write_if_changed('Generated/ArithTables.v', translate_utils()),
            'Generated/ArithCells.v': write_if_changed('Generated/ArithCells.v', translate_cells())}


if __name__ == '__main__':
    print(translate())
