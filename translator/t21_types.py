"""T21 (part 1 of 4): types, values and the syntactic analyses shared by translator/t21_*.py.
See translator/t21_subcircuit_alg.py for the grammar and the conventions."""
import ast

from .common import TranslatorError, fail

LABEL, BOOL, NAT, INT, ST, TRI, GATE, GLABEL, CIRCUIT, PATOPS, UNIT, FUEL = (
    'label', 'bool', 'N', 'Z', 'st', 'tri', 'gate', 'glabel', 'circuit', 'patops', 'unit', 'fuel')
LABELS = ('list', LABEL)


def TL(t):
    return ('list', t)


def coq_ty(t):
    if isinstance(t, str):
        return {LABEL: 'label', BOOL: 'bool', NAT: 'N', INT: 'Z', ST: 'st', TRI: 'option bool', GATE: 'gate',
                GLABEL: 'label', CIRCUIT: 'circuit', PATOPS: 'N', UNIT: 'unit', FUEL: 'nat'}[t]
    if t[0] in ('list', 'set'):
        return f'list {pty(t[1])}'
    if t[0] == 'dict':
        if t[1] == LABEL:
            return f'dict {pty(t[2])}'
        return f'list ({pty(t[1])} * {pty(t[2])})'
    if t[0] == 'opt':
        return f'option {pty(t[1])}'
    if t[0] == 'obj':
        return 'gen_' + t[1].lstrip('_')
    if t[0] == 'pair':
        return f'{pty(t[1])} * {pty(t[2])}'
    raise TranslatorError(f'no Coq type for {t}')


def pty(t):
    s = coq_ty(t)
    return f'({s})' if ' ' in s else s


def key_eqb(kty, node=None):
    if kty == NAT:
        return 'N.eqb'
    if kty == LABELS:
        return 'labels_eqb'
    fail(node, f'dict key type outside grammar: {kty}')


def same_ty(a, b):
    """type equality up to the default value of dicts and label / glabel"""
    if a == b:
        return True
    if {a, b} == {LABEL, GLABEL}:
        return True
    if isinstance(a, tuple) and isinstance(b, tuple) and a[0] == b[0]:
        if a[0] == 'dict':
            return same_ty(a[1], b[1]) and same_ty(a[2], b[2])
        return len(a) == len(b) and all(same_ty(x, y) if not isinstance(x, str) or not isinstance(y, str) else same_ty(x, y)
                                        for x, y in zip(a[1:], b[1:]))
    return False


class Val:
    def __init__(self, code, ty, maxpat=False):
        self.code, self.ty, self.maxpat = code, ty, maxpat


class Var:
    def __init__(self, code, ty, maxpat=False, fn=None, observed=False):
        self.code, self.ty, self.maxpat, self.fn, self.observed = code, ty, maxpat, fn, observed


class Fn:
    """a translated function / closure / class constructor"""
    def __init__(self, coqname, params, ret, captures=(), fuels=(), raises=True, defaults=None):
        self.coqname, self.params, self.ret = coqname, list(params), ret
        self.captures, self.fuels, self.raises = list(captures), list(fuels), raises
        self.defaults = defaults or {}


def atom(code):
    code = code.strip()
    if code.replace('_', 'a').replace("'", 'a').replace('.', 'a').isalnum():
        return code
    if code.startswith('"') and code.endswith('"') and code.count('"') == 2:
        return code
    if (code.startswith('(') and code.endswith(')')) or (code.startswith('[') and code.endswith(']')):
        d = 0
        ok = True
        for i, ch in enumerate(code):
            d += ch in '(['
            d -= ch in ')]'
            if d == 0 and i < len(code) - 1:
                ok = False
                break
        if ok:
            return code
    return f'({code})'


def ind(text, n=2):
    pad = ' ' * n
    return '\n'.join(pad + ln if ln else ln for ln in text.split('\n'))


def tuple_code(codes):
    if not codes:
        return 'tt'
    return codes[0] if len(codes) == 1 else '(' + ', '.join(codes) + ')'


def tuple_pat(codes):
    """a pattern usable after `fun` / `do` / `let`"""
    if not codes:
        return '_'
    return codes[0] if len(codes) == 1 else "'(" + ', '.join(codes) + ')'


def tuple_ty(tys):
    if not tys:
        return 'unit'
    return ' * '.join(pty(t) for t in tys)


def coq_string(s, node=None):
    if any(ord(ch) < 32 or ord(ch) > 126 for ch in s):
        fail(node, 'string literal outside printable ASCII')
    return '"' + s.replace('"', '""') + '"'


# ---------------------------------------------------------------------------------------------- syntactic analyses
MUTATORS = {'append', 'add', 'update', 'pop', 'popleft', 'sort', 'extend', 'insert', 'remove', 'clear', 'discard',
            'appendleft', 'reverse', 'setdefault', 'popitem'}


def base_name(node):
    """the variable that a store / mutating call through `node` changes: x, x[..], x[..][..], x.attr"""
    while isinstance(node, (ast.Subscript, ast.Attribute)):
        node = node.value
    return node.id if isinstance(node, ast.Name) else None


def walk_no_defs(node):
    """ast.walk that does not enter nested function definitions / lambdas (but yields them)"""
    todo = [node]
    while todo:
        n = todo.pop()
        yield n
        for c in ast.iter_child_nodes(n):
            if isinstance(n, (ast.FunctionDef, ast.Lambda)) and n is not node:
                break
            todo.append(c)


def assigned_names(stmts):
    """names that the statements (re)bind or mutate in place, in no particular order (nested defs are not entered,
    a nested def binds its own name)"""
    out = set()
    for s in stmts:
        for n in walk_no_defs(s):
            if isinstance(n, ast.FunctionDef) and n is not s:
                out.add(n.name)
            elif isinstance(n, ast.FunctionDef):
                out.add(n.name)
            elif isinstance(n, ast.Name) and isinstance(n.ctx, (ast.Store, ast.Del)):
                out.add(n.id)
            elif isinstance(n, (ast.Subscript, ast.Attribute)) and isinstance(n.ctx, (ast.Store, ast.Del)):
                b = base_name(n)
                if b:
                    out.add(b)
            elif isinstance(n, ast.Call) and isinstance(n.func, ast.Attribute) and n.func.attr in MUTATORS:
                b = base_name(n.func.value)
                if b:
                    out.add(b)
            elif isinstance(n, ast.comprehension):
                pass
    # comprehension variables are local to the comprehension
    for s in stmts:
        for n in walk_no_defs(s):
            if isinstance(n, (ast.ListComp, ast.DictComp, ast.SetComp, ast.GeneratorExp)):
                for g in n.generators:
                    for x in ast.walk(g.target):
                        if isinstance(x, ast.Name):
                            # only drop it when nothing else binds it
                            if not _bound_outside_comprehensions(stmts, x.id):
                                out.discard(x.id)
    return out


def _bound_outside_comprehensions(stmts, name):
    comp_targets = set()
    for s in stmts:
        for n in walk_no_defs(s):
            if isinstance(n, ast.comprehension):
                comp_targets |= {id(x) for x in ast.walk(n.target)}
    for s in stmts:
        for n in walk_no_defs(s):
            if isinstance(n, ast.Name) and n.id == name and isinstance(n.ctx, (ast.Store, ast.Del)) \
                    and id(n) not in comp_targets:
                return True
            if isinstance(n, (ast.Subscript, ast.Attribute)) and isinstance(n.ctx, (ast.Store, ast.Del)) \
                    and base_name(n) == name:
                return True
            if isinstance(n, ast.Call) and isinstance(n.func, ast.Attribute) and n.func.attr in MUTATORS \
                    and base_name(n.func.value) == name:
                return True
    return False


def loaded_names(stmts):
    """every name that occurs in the statements (loads, stores, inside nested defs and lambdas too)"""
    out = set()
    for s in stmts:
        for n in ast.walk(s):
            if isinstance(n, ast.Name):
                out.add(n.id)
    return out


def while_nodes(stmts):
    out = []
    for s in stmts:
        for n in ast.walk(s):
            if isinstance(n, ast.While):
                out.append(n)
    return out


def has_exit(stmts, loop_level=True):
    """does a break / continue of THIS loop level, or a return at any depth, occur in the statements"""
    for s in stmts:
        if isinstance(s, (ast.Break, ast.Continue)) and loop_level:
            return True
        if isinstance(s, ast.Return):
            return True
        if isinstance(s, ast.If):
            if has_exit(s.body, loop_level) or has_exit(s.orelse, loop_level):
                return True
        elif isinstance(s, (ast.For, ast.While)):
            if has_exit(s.body, False) or has_exit(s.orelse, False):
                return True
    return False


def has_break(stmts):
    for s in stmts:
        if isinstance(s, ast.Break):
            return True
        if isinstance(s, ast.If) and (has_break(s.body) or has_break(s.orelse)):
            return True
    return False


def has_return(stmts):
    return any(isinstance(n, ast.Return) for s in stmts for n in walk_no_defs(s))


def terminates(stmts):
    """every path through the statements ends in break / continue / return"""
    for s in stmts:
        if isinstance(s, (ast.Return, ast.Continue, ast.Break)):
            return True
        if isinstance(s, ast.If) and terminates(s.body) and terminates(s.orelse):
            return True
    return False
