"""T10: the algorithmic methods of cirbo/core/circuit/circuit.py -> Generated/CircuitAlgos.v

Extends the statement-level translation of T9 (translator/t9_circuit_core.py: same state type, same helper
vocabulary, same aliasing discipline; read its header first) by the constructs the remaining methods of the
Circuit class use (and validation.check_circuit_has_no_cycles).  Every function of ALGOS becomes `gen_<name>` in Generated/CircuitAlgos.v (which imports
Generated/CircuitCore.v: the functions of T9 are used, not re-emitted); Proofs/CircuitAlgosGen*.v prove each
of them equal to the hand model (Model/Traverse.v, Eval.v, Connect.v, Circuit.v).  Anything outside the grammar
raises TranslatorError (the check fails closed).  ALGOS is the fixed list of functions that must translate.

Additional grammar (on top of T9):

  signatures   keyword-only parameters; parameters of type bool, str (= label), tp_ext.Self / "Circuit" (a SECOND
               circuit: a read-only value, assumed to be a different object from self), dict[Label, GateState]
               (`dict st`), dict[Label, Label] (`dict label`), tp.Sequence[bool] (`list st`: a Python bool is a
               GateState); defaults False / True / '' / None / ();  @property methods of Circuit that are a single
               `return <pure expression>` (size, input_size).
  builders     `<n> = Circuit()` as the first statement and `return <n>`: the new circuit is the state that the
               body mutates, `self` (a Circuit, or a Block together with its `_owner`) is a read-only value.
  while        `while <local list>:` -> a separate Fixpoint on explicit fuel, `Err OutOfFuel` when it runs out.
               The fuel is a PARAMETER of the generated function, so that the equality lemmas can instantiate
               it with the fuel of the hand model: `fuelN : nat` for a loop of the function itself, and
               `fuelN : circuit -> nat` for every fuel parameter of a function it calls (the function is applied
               to the circuit the callee runs on, at the call: the model computes its fuel from that state),
               in source order.  The body may not write the circuit.
               `l.pop()`, `l.pop(0)` (also inside an expression: the list is rebound), `l[-1]` -> list_pop,
               list_pop0, list_last (Err PyIndexError on an empty list).
  generators   `yield <gate>` appends (label, gate) to the list of yielded values, which is what the function
               returns; a bare `return` ends it.  A consumer (`for g in self.top_sort(...)`) receives the whole
               list: the generator is run to completion before the consuming loop starts.  This differs from
               Python's interleaving only in WHICH exception is seen when both the generator (after its first
               yield) and the consumer raise.
  for          `for i, x in enumerate(L)` and `for k, v in d.items()` with a general body;
               `if <cond>: continue` as a statement of a for body; iteration over a dict (= its keys).
  lambdas      `f = (lambda p: A) if <bool name> else (lambda p: B)` : f(e) is expanded in place to
               `if <name> then A[e/p] else B[e/p]` (the lambdas may mention only self, parameters and p).
  local dicts  `{}` (typed by its annotation), dict(d), copy.copy(d), dict comprehensions, d[k] (Err PyKeyError),
               d[k] = v, d[k] -= <n>, k in d, d.setdefault(k, v), d.items() / d.values() / d.keys(), len(d).
               Values: labels, GateStates, ints (Z; a len(...) stored into such a dict is converted).
  local sets   set(), {e for x in xs if c}, s.add(x), x in s, len(set(xs)), list(s).  A set is represented by the
               list of its elements in order of first insertion.  Python's iteration order of a set of strings is
               not defined (hash order); following the hand model, `list(s)` is `set_to_list self s`: the elements
               of s that are gates of self in the order of the gate map of self (canonical_block_gates), followed
               by the elements that are not gates of self (in the covered methods there are none: this is part of
               what the equality proofs show).
  expressions  string literals, a + b on strings and on lists, `x if p is None else p`, conditional expressions of
               list type, `not <list>`, comprehensions whose element (or whose single filter) can raise
               (-> mapM / filterM, evaluation order kept), tuple / list of such generators, l[i] on a list of
               GateStates, tp.cast(T, e) = e, copy.copy(<tuple>) = the tuple,
               g.operator(*(d[o] for o in g.operands))  ->  gate_operator g (Err GateTypeNoOperatorError for INPUT,
               evaluated first, as in Python), then the operand values, then Generated.GateTypes.operator_of,
               [list(i) for i in zip(*(E for x in itertools.product((False, True), repeat=n)))]
                  ->  rows := mapM (fun x => E) (Eval.all_bool_vectors n) ; zip_star rows   (list(x) = map inj x);
               `for x in itertools.product((False, True), repeat=n)`, zip(<labels>, <bools>) as the iterable of a dict
               comprehension; n + m on lengths; a | b on local dicts (dict_union); list(d) = the keys;
               f-strings over strings, '<sep>'.join(<strings>), g.format_gate() (= Generated.BenchDispatch.format_gate,
               regenerated from gate.py by translator T7).
  defaultdict  collections.defaultdict(list) with d[k].append(v) (ddict_append; the element type is fixed by the first
               append), d.items(); a list taken out of such a local dict may be stored into the state (nobody else
               holds it); self._gate_to_users[k].extend(l).
  uuid         uuid.uuid4().hex is the next element of the parameter `fresh : list string` (Err OutOfFuel when the
               stream is empty); convert_gate(g, self) of converters.py is Generated.Converters.generated_convert_gate
               (translator T6), which takes one element of the stream for the rules that call uuid4
               (generated_needs_fresh): prelude function convert_gate_fresh.
  mutators     `x = self.<mutator that returns a Block>(...)` binds the new state and the Block;
               `return self.<such a mutator>(...)` passes the pair on.
  traversal    (_traverse_circuit, dfs, bfs, validation.check_circuit_has_no_cycles)
               parameters of type TraverseMode (tmode); TraverseMode.X / TraverseState.X are the constructors of
               Model/Traverse.v (the two enums of circuit.py are checked against them);
               hook parameters (TraverseHookT / TraverseStateHookT, default `lambda ...: None`) are NOT values: a
               call `on_enter_hook(g, states)` appends the event EvEnter <label of g> to the log (EvDiscover with the
               state of the gate, EvExit, EvUnvisited, EvEnd likewise), `yield g` appends EvYield; the generated
               function returns the log.  on_discover_hook may raise: parameter `abort : label -> tstate -> option err`
               (hook_discover).  A call that forwards the hooks (`on_enter_hook=on_enter_hook, ...`) passes `abort`
               on; a local `def on_discover_hook(gate, gate_states): if gate_states[gate.label] == TraverseState.X:
               raise E(...)` is the function `fun _ s => if s = X then Some E else None`;
               `gate_states = collections.defaultdict(lambda: TraverseState.UNVISITED)`: a `dict tstate` read with
               state_of (the insertion of the default on a read is not modelled);
               a name first bound in every branch of an if / elif / else chain whose other branches raise
               (`pop_index`, `queue`): `do x <- if .. then Ok e1 else if .. then Ok e2 else Err E`;
               `if <test over parameters>: def f(p): ... else: def f(q): ...` with `nonlocal`: f(e) is expanded in
               place to `if <test> then <body 1> else <body 2>` acting on the caller's variables;
               l[i] / l.pop(i) for an int variable i (list_index / list_pop_at: Python indexing, negative from the end);
               more_itertools.consume(<generator call>) runs the generator; a local
               `from cirbo.core.circuit.circuit import TraverseState`.
"""
import ast
import re

from .common import TranslatorError, fail, strip_docstring, write_if_changed
from . import t9_circuit_core as t9
from .t9_circuit_core import (FnTr, Unit, Val, Var, Fn, K, COQ_TY, FIELDS, CIRCUIT_PROPS, DICT_VALUE, PAIR_ELEM,
                              ind, paren, tuple_of, pat_of)

# (module key, name): ALL of them must translate
ALGOS = [
    ('circuit', 'size'), ('circuit', 'input_size'),
    ('circuit', 'top_sort'),
    ('circuit', 'connect_circuit'), ('circuit', 'connect_left'), ('circuit', 'connect_right'),
    ('circuit', 'connect_inputs'), ('circuit', 'extend_circuit'), ('circuit', 'add_circuit'),
    ('circuit', '__copy__'), ('block', 'into_circuit'),
    ('circuit', 'evaluate_full_circuit'), ('circuit', 'evaluate_circuit'), ('circuit', 'evaluate_circuit_outputs'),
    ('circuit', 'evaluate'), ('circuit', 'evaluate_at'), ('circuit', 'get_truth_table'),
    ('circuit', 'make_block_from_slice'),
    ('circuit', 'get_gates_truth_table'), ('circuit', 'format_circuit'), ('circuit', 'into_bench'),
    ('circuit', '_traverse_circuit'), ('circuit', 'dfs'), ('circuit', 'bfs'),
    ('validation', 'check_circuit_has_no_cycles'),
    ('circuit', 'replace_subcircuit'),
]

COQ_TY.update({
    'labeldict': 'dict label', 'intdict': 'dict Z', 'stdict': 'dict st', 'st': 'st', 'sts': 'list st',
    'stss': 'list (list st)', 'bools': 'list bool', 'boolvecs': 'list (list bool)',
    'enumpairs': 'list (nat * label)', 'labelpairs': 'list (label * label)', 'intpairs': 'list (label * Z)',
    'stpairs': 'list (label * st)', 'stsdict': 'dict (list st)', 'labelsdict': 'dict (list label)',
    'ddict?': '?', 'strings': 'list string', 'tmode': 'tmode', 'tstate': 'tstate', 'statedict': 'dict tstate',
    'events': 'list event', 'abortfn': 'label -> tstate -> option err',
    'labelspairs': 'list (label * list label)', 'stspairs': 'list (label * list st)',
})
# hook parameter -> (event constructor, takes a gate)
HOOKS = {'on_enter_hook': ('EvEnter', True), 'on_discover_hook': ('EvDiscover', True), 'on_exit_hook': ('EvExit', True),
         'unvisited_hook': ('EvUnvisited', True), 'on_traversal_end_hook': ('EvEnd', False)}
DDICT_OF = {'st': 'stsdict', 'label': 'labelsdict'}
LOCAL_DICT = {'labeldict': 'label', 'intdict': 'int', 'stdict': 'st'}
DICT_OF = {v: k for k, v in LOCAL_DICT.items()}
DICT_ITEMS = {'labeldict': 'labelpairs', 'intdict': 'intpairs', 'stdict': 'stpairs'}
DICT_VALUE.update(LOCAL_DICT)       # `k in d` of T9 then covers the local dicts
LIST_OF = {'label': 'labels', 'st': 'sts', 'nat': 'nats', 'sts': 'stss'}
# iterable type -> (binder prefix, [(component, type)])
PAIR_ITER = {'enumpairs': ('nat', 'label'), 'labelpairs': ('label', 'label'), 'intpairs': ('label', 'int'),
             'stpairs': ('label', 'st'), 'labelspairs': ('label', 'labels'), 'stspairs': ('label', 'sts')}
DDICT_ITEMS = {'labelsdict': 'labelspairs', 'stsdict': 'stspairs'}

HEADER = '''(* GENERATED by translator/t10_circuit_algos.py from cirbo/core/circuit/circuit.py.  DO NOT EDIT.
   Proofs/CircuitAlgosGen*.v prove every gen_<name> equal to the hand model.

   Conventions (see the header of the translator):
   - a `while <list>:` loop is a Fixpoint on explicit fuel (Err OutOfFuel); the fuel parameters fuel1, fuel2, ...
     of a function stand for its loops (a number) and for the fuel parameters of the functions it calls (a function
     of the circuit the callee runs on, applied to that circuit at the call), in source order;
   - a generator returns the list of the (label, gate) pairs it yields and is run to completion before its
     consumer starts;
   - a second circuit argument (`other`, `subcircuit`) is a different object from self;
   - the five hooks of _traverse_circuit / dfs / bfs are observed as an event log (Model/Traverse.v `event`), which
     also receives the yields; the generated functions return the log; the only hook that can raise is
     on_discover_hook, through the parameter `abort`; reading a collections.defaultdict inserts the default in
     Python, which is not modelled (gate_states[k] is `state_of`);
   - a Python set is the list of its elements in order of first insertion; `list(s)` / iteration over a set is
     `set_to_list self s` = the elements of s that are gates of self, in the order of the gate map of self,
     followed by the others (hand-model convention; Python's order is the hash order of the strings). *)
Require Import Cirbo.Model.Base Cirbo.Model.Gate Cirbo.Model.Circuit Cirbo.Model.Traverse Cirbo.Model.Eval.
Require Import Cirbo.Model.Connect.
Require Import Cirbo.Generated.Operators Cirbo.Generated.GateTypes Cirbo.Generated.CircuitCore.
Require Cirbo.Generated.BenchDispatch Cirbo.Generated.Converters.

(* fixed prelude (not derived from the source): Python primitives *)
Definition list_pop {A} (l : list A) : res (A * list A) :=                       (* l.pop() *)
  match pop_last l with Some r => Ok r | None => Err PyIndexError end.
Definition list_pop0 {A} (l : list A) : res (A * list A) :=                      (* l.pop(0) *)
  match l with x :: r => Ok (x, r) | [] => Err PyIndexError end.
Definition list_last {A} (l : list A) : res A :=                                 (* l[-1] *)
  match pop_last l with Some (x, _) => Ok x | None => Err PyIndexError end.
Definition set_add (s : list label) (x : label) : list label :=                  (* s.add(x) *)
  if memb x s then s else s ++ [x].
Definition set_of_list (l : list label) : list label := fold_left set_add l [].  (* set(l), {x for x in l} *)
Definition set_to_list (c : circuit) (s : list label) : list label :=            (* list(s): canonical order *)
  canonical_block_gates c s ++ filter (fun x => negb (has_gate c x)) s.
Fixpoint filterM {A} (f : A -> res bool) (l : list A) : res (list A) :=          (* [x for x in l if f x] *)
  match l with
  | [] => Ok []
  | x :: xs => do b <- f x; do r <- filterM f xs; Ok (if b then x :: r else r)
  end.
(* g.operator : the operator of the gate's type; INPUT has none *)
Definition gate_operator (g : gate) : res gtype :=
  if gtype_beq (gtyp g) INPUT then Err GateTypeNoOperatorError else Ok (gtyp g).
(* collections.defaultdict(list): d[k].append(v) creates the key on first use *)
Definition ddict_append {V} (d : dict (list V)) (k : label) (v : V) : dict (list V) :=
  match dget d k with Some l => dset d k (l ++ [v]) | None => dset d k [v] end.
Definition dict_union {V} (a b : dict V) : dict V :=                             (* a | b *)
  fold_left (fun d kv => dset d (fst kv) (snd kv)) b a.
(* uuid.uuid4().hex: the next element of the stream `fresh` (the harness patches uuid4 to a counter) *)
Definition next_uuid (fresh : list string) : res (string * list string) :=
  match fresh with f :: fr => Ok (f, fr) | [] => Err OutOfFuel end.
Definition nl : string := String (Ascii.ascii_of_nat 10) EmptyString.            (* "\n" *)
(* convert_gate(g, circuit) of converters.py is regenerated by translator T6 (Generated/Converters.v:
   generated_convert_gate); the rules that call uuid.uuid4() (generated_needs_fresh) consume the next element of
   the stream `fresh` of uuid4().hex values *)
Definition convert_gate_fresh (c : circuit) (fresh : list string) (l : label) (g : gate)
  : res (circuit * list string) :=
  if Converters.generated_needs_fresh (gtyp g) then
    match fresh with
    | f :: fr => do c' <- Converters.generated_convert_gate c l g f; Ok (c', fr)
    | [] => Err OutOfFuel
    end
  else do c' <- Converters.generated_convert_gate c l g ""; Ok (c', fresh).
(* l.pop(i) for a Python int i (negative indices count from the end) *)
Definition list_pop_at {A} (l : list A) (i : Z) : res (A * list A) :=
  let n := Z.of_nat (length l) in
  if (i <? - n)%Z || (n <=? i)%Z then Err PyIndexError
  else let j := Z.to_nat (if (i <? 0)%Z then (i + n)%Z else i) in
       match nth_error l j with
       | Some x => Ok (x, firstn j l ++ skipn (S j) l)
       | None => Err PyIndexError
       end.
Definition tmode_eqb (a b : tmode) : bool :=
  match a, b with DFS, DFS => true | BFS, BFS => true | _, _ => false end.
(* the hooks of a traversal are not code of the library: as in the hand model (Model/Traverse.v) a call of a hook
   is recorded as an event of the log (a `yield` as EvYield); on_discover_hook(g, states) may raise, depending on
   the label of g and its state: `abort` *)
Definition hook_discover (abort : label -> tstate -> option err) (l : label) (s : tstate) : res unit :=
  match abort l s with Some e => Err e | None => Ok tt end.
(* zip( *rows ): as many tuples as the shortest row has elements; none when there are no rows *)
Definition zip_star (rows : list (list st)) : list (list st) :=
  match rows with
  | [] => []
  | r :: rs => map (fun j => map (fun row => nth j row U) rows)
                   (seq 0 (fold_left (fun m row => Nat.min m (length row)) rs (length r)))
  end.
'''


def coq_string(s):
    if not all(32 <= ord(ch) < 127 for ch in s):
        raise TranslatorError(f'string literal {s!r} outside grammar')
    return '"' + s.replace('"', '""') + '"'


def coq_str_expr(s):
    """a Python string constant as a Coq term (newlines via the prelude constant nl)"""
    parts = s.split('\n')
    terms = []
    for i, part in enumerate(parts):
        if i:
            terms.append('nl')
        if part:
            terms.append(coq_string(part))
    if not terms:
        return '""'
    if len(terms) == 1:
        return terms[0]
    return '(' + ' ++ '.join(terms) + ')%string'


def is_ident(code):
    return re.fullmatch(r"[A-Za-z_][\w']*", code) is not None


def ty_paren(t):
    return f'({t})' if ' ' in t else t


class AlgoUnit(Unit):
    def __init__(self):
        super().__init__()
        core = Unit()
        for key in t9.COVERED:
            core.get(*key)
        self.core_names = set()
        for fn in core.order:
            self.core_names.add(fn.coqname)
            for d in fn.closures:
                self.core_names.add(d.coqname)
        self.algos = set(ALGOS)
        self.check_algos_environment()

    def make_tr(self, modkey, src, coqname):
        if (modkey, src.name) in self.algos:
            return AlgoTr(self, modkey, src, coqname)
        return FnTr(self, modkey, src, coqname)

    def get(self, modkey, name, node=None):
        fn = super().get(modkey, name, node)
        if (modkey, name) not in self.algos and fn.coqname not in self.core_names:
            raise TranslatorError(f'{name}: neither defined by T9 (Generated/CircuitCore.v) nor in the list of T10')
        return fn

    def check_algos_environment(self):
        """facts about gate.py / circuit.py that the fixed prelude relies on"""
        g = self.methods_of('Gate').get('operator')
        ok = (g is not None and len(g.decorator_list) == 1 and isinstance(g.decorator_list[0], ast.Name)
              and g.decorator_list[0].id == 'property')
        body = strip_docstring(g.body) if ok else []
        ok = ok and len(body) == 1 and isinstance(body[0], ast.Return) \
            and ast.unparse(body[0].value) == 'self._gate_type.operator'
        if not ok:
            raise TranslatorError('Gate.operator must be the property `return self._gate_type.operator`')
        gt = None
        for n in self.mods['gate'].body:
            if isinstance(n, ast.ClassDef) and n.name == 'GateType':
                gt = n
        op = None
        for n in gt.body if gt else []:
            if isinstance(n, ast.FunctionDef) and n.name == 'operator':
                op = n
        want = 'if self._operator is None:\n    raise GateTypeNoOperatorError()\nreturn self._operator'
        if op is None or '\n'.join(ast.unparse(s) for s in strip_docstring(op.body)) != want:
            raise TranslatorError('GateType.operator must raise GateTypeNoOperatorError iff _operator is None')
        # INPUT is the only type without an operator
        for n in self.mods['gate'].body:
            if isinstance(n, ast.Assign) and isinstance(n.value, ast.Call) and isinstance(n.value.func, ast.Name) \
                    and n.value.func.id == 'GateType':
                name = n.targets[0].id
                a = n.value.args
                none = len(a) >= 2 and isinstance(a[1], ast.Constant) and a[1].value is None
                if none != (name == 'INPUT'):
                    raise TranslatorError(f'gate.{name}: INPUT must be the only gate type without an operator')
        # the two enums of circuit.py and the constructors of the model
        self.enums = {}
        for n in self.mods['circuit'].body:
            if isinstance(n, ast.ClassDef) and n.name in ('TraverseMode', 'TraverseState'):
                if [ast.unparse(b) for b in n.bases] != ['enum.Enum']:
                    raise TranslatorError(f'{n.name} must be an enum.Enum')
                members = []
                for st in n.body:
                    if isinstance(st, ast.Assign) and len(st.targets) == 1 and isinstance(st.targets[0], ast.Name):
                        members.append(st.targets[0].id)
                    elif not (isinstance(st, ast.Expr) and isinstance(st.value, ast.Constant)):
                        raise TranslatorError(f'{n.name}: body outside grammar')
                self.enums[n.name] = members
        if sorted(self.enums.get('TraverseMode', [])) != ['BFS', 'DFS'] \
                or sorted(self.enums.get('TraverseState', [])) != ['ENTERED', 'UNVISITED', 'VISITED']:
            raise TranslatorError(f'TraverseMode / TraverseState differ from the model: {self.enums}')
        if self.imports['validation'].get('more_itertools') != ('more_itertools', None):
            raise TranslatorError('validation.py: more_itertools must be the module')
        imp = self.imports['circuit']
        for mod in ('copy', 'itertools', 'collections'):
            if imp.get(mod) != (mod, None):
                raise TranslatorError(f'circuit.py: `{mod}` must be the standard module')
        if imp.get('tp') != ('typing', None):
            raise TranslatorError('circuit.py: `tp` must be typing')
        if imp.get('Undefined') != ('cirbo.core.circuit.operators', 'Undefined'):
            raise TranslatorError('circuit.py: Undefined must come from operators.py')
        if imp.get('Circuit') != ('<local>', 'Circuit') or imp.get('Block') != ('<local>', 'Block'):
            raise TranslatorError('circuit.py: Circuit / Block must be the local classes')


class AlgoTr(FnTr):
    FORBIDDEN = (ast.YieldFrom, ast.Await, ast.Try, ast.With, ast.Global, ast.NamedExpr)

    def __init__(self, unit, modkey, src, coqname, outer=None):
        super().__init__(unit, modkey, src, coqname, outer)
        self.fn.fuel_names = []
        self.fn.fuel_kinds = {}         # name -> 'nat' (a loop of this function) | 'fun' (a call site)
        self.fn.builder = None
        self.fn.hooks = set()
        self.local_imports = set()
        self.fuel_sites = {}
        self.loop_ks = []
        self.nloops = 0
        self.is_gen = False
        self.builder = None
        self.loop_names = {}

    # ------------------------------------------------------------ fuel
    def alloc_fuel(self, node, n=1, kind='nat'):
        if self.outer is not None:
            fail(node, 'fuel inside a closure')
        key = id(node)
        if key not in self.fuel_sites:
            names = []
            for _ in range(n):
                nm = f'fuel{len(self.fn.fuel_names) + 1}'
                self.fn.fuel_names.append(nm)
                self.fn.fuel_kinds[nm] = kind
                names.append(nm)
            self.fuel_sites[key] = names
        return self.fuel_sites[key]

    # ------------------------------------------------------------ signature
    def annotation_type(self, ann, node):
        if ann is not None:
            s = ast.unparse(ann).replace("'", '').replace('"', '').replace(' ', '')
            lab = r'(gate\.)?Label'
            table = [
                (r'bool', 'bool'), (r'str', 'label'), (r'tp_ext\.Self', 'circuit'),
                (rf'dict\[({lab}|str),GateState\]', 'stdict'), (rf'dict\[{lab},{lab}\]', 'labeldict'),
                (r'tp\.Sequence\[bool\]', 'sts'), (r'TraverseMode', 'tmode'),
                (r'Traverse(State)?HookT', 'hook'), (r'tp\.Optional\[tp\.Sequence\[Label\]\]', 'optlabels'),
            ]
            for rx, ty in table:
                if re.fullmatch(rx, s):
                    return ty
        return super().annotation_type(ann, node)

    def detect_builder(self):
        body = strip_docstring(self.src.body)
        if not body:
            return None
        s = body[0]
        if isinstance(s, ast.Assign) and len(s.targets) == 1 and isinstance(s.targets[0], ast.Name) \
                and self.is_new_circuit(s.value):
            name = s.targets[0].id
            # the name is bound exactly once and is what the function returns
            binds = [n for n in ast.walk(self.src) if isinstance(n, ast.Name) and n.id == name
                     and isinstance(n.ctx, ast.Store)]
            rets = [n for n in ast.walk(self.src) if isinstance(n, ast.Return)]
            if len(binds) == 1 and rets and all(isinstance(r.value, ast.Name) and r.value.id == name for r in rets):
                return name
        return None

    def is_new_circuit(self, node):
        return (isinstance(node, ast.Call) and isinstance(node.func, ast.Name) and node.func.id == 'Circuit'
                and not node.args and not node.keywords)

    def signature(self, env):
        f, fn = self.src, self.fn
        a = f.args
        if a.posonlyargs or a.vararg:
            fail(f, 'signature outside grammar')
        self.is_property = False
        if f.decorator_list:
            d = f.decorator_list
            if len(d) == 1 and isinstance(d[0], ast.Name) and d[0].id == 'property' and self.modkey == 'circuit' \
                    and len(a.args) == 1 and not a.kwonlyargs and not a.kwarg:
                self.is_property = True
            else:
                fail(f, 'decorated definition')
        args = list(a.args)
        defaults = [None] * (len(args) - len(a.defaults)) + list(a.defaults)
        args += list(a.kwonlyargs)
        defaults += list(a.kw_defaults)
        self.builder = fn.builder = self.detect_builder() if self.outer is None else None
        if self.outer is not None:
            fn.self_kind = 'closure'
            self.self_code = self.outer.self_code
            self.self_writable = self.outer.self_writable
            env[self.outer.self_py] = Var(self.self_code, 'circuit', 'self' if self.self_writable else 'circ')
            self.self_py = self.outer.self_py
        elif self.modkey in ('circuit', 'block'):
            if not args or args[0].arg != 'self':
                fail(f, 'method without self')
            fn.self_kind = 'method'
            if self.builder:
                name = self.builder
                if name == 'self':
                    fail(f, 'builder name')
                code = self.vname(f, name)
                self.self_code, self.self_writable, self.self_py = code, True, name
                env[name] = Var(code, 'circuit', 'self')
                if self.modkey == 'block':
                    env['self'] = Var('self', 'block', 'param', {'owner:blocks.content'})
                    env['self._owner'] = Var('self_owner', 'circuit', 'circ')
                else:
                    env['self'] = Var('self', 'circuit', 'circ')
            else:
                self.self_code, self.self_writable, self.self_py = 'self', True, 'self'
                if self.modkey == 'block':
                    fn.state_ty = 'block'
                    env['self'] = Var('self', 'block', 'bself', {'blocks.content'})
                else:
                    env['self'] = Var('self', 'circuit', 'self')
            args, defaults = args[1:], defaults[1:]
        elif self.modkey != 'validation':
            fail(f, 'T10 translates methods and validation functions only')
        if a.kwarg is not None:
            fn.has_kwarg = True
            self.kwarg = a.kwarg.arg
        for p, d in zip(args, defaults):
            ty = self.annotation_type(p.annotation, p)
            code = self.vname(p, p.arg)
            if p.arg in env:
                fail(p, 'parameter shadows the state')
            if ty == 'hook':
                # a traversal hook: observed through the event log, not a value
                ok = (p.arg in HOOKS and isinstance(d, ast.Lambda) and isinstance(d.body, ast.Constant)
                      and d.body.value is None and len(d.args.args) == (2 if HOOKS[p.arg][1] else 1))
                if not ok:
                    fail(p, 'hook parameter outside grammar')
                fn.hooks.add(p.arg)
                env[p.arg] = Var('', 'unit', 'hook')
                continue
            if ty == 'circuit':
                env[p.arg] = Var(code, 'circuit', 'circ')
                if d is not None:
                    fail(p, 'default for a circuit parameter')
                if self.self_code is None:
                    # a validation function: the circuit parameter is the (read-only) state
                    self.self_code, self.self_writable, self.self_py = code, False, p.arg
                fn.params.append((p.arg, ty, None, False))
                continue
            needs_label = ty in ('gate', 'block') and self.uses_attr(p.arg, {'label'} if ty == 'gate' else {'name'})
            label = code + '_label' if needs_label else None
            alias = {'param'} if ty in ('labels', 'labelset', 'optlabels', 'optlabelset', 'sts') or ty in LOCAL_DICT \
                else set()
            if ty == 'block':
                alias = {'blocks.content'}
            env[p.arg] = Var(code, ty, 'param', alias, label)
            if d is not None:
                self.default_code(d, ty)
            fn.params.append((p.arg, ty, d, needs_label))

    def default_code(self, d, ty):
        if isinstance(d, ast.Constant):
            if d.value is True and ty == 'bool':
                return 'true'
            if d.value is False and ty == 'bool':
                return 'false'
            if isinstance(d.value, str) and ty == 'label':
                return coq_string(d.value)
        return super().default_code(d, ty)

    def binders(self):
        out = [f'({n} : {"nat" if self.fn.fuel_kinds[n] == "nat" else "circuit -> nat"})' for n in self.fn.fuel_names]
        if self.builder:
            out.append('(self : block) (self_owner : circuit)' if self.modkey == 'block' else '(self : circuit)')
        elif self.fn.self_kind in ('method', 'closure'):
            out.append(f'({self.self_code} : {self.fn.state_ty})')
        for p, ty, _d, needs_label in self.fn.params:
            code = 'v_' + p
            if needs_label:
                out.append(f'({code}_label : label)')
            out.append(f'({code} : {COQ_TY[ty]})')
        if getattr(self.fn, 'uses_fresh', False):
            out.append('(fresh : list string)')
        if self.fn.hooks:
            out.append('(abort : label -> tstate -> option err)')
        return ' '.join(out)

    # ------------------------------------------------------------ aliases of a second circuit
    def circuit_field(self, recv, attr, node):
        v = super().circuit_field(recv, attr, node)
        if v is not None and recv.code != self.self_code:
            v = Val(v.code, v.ty, {f'{recv.code}:{a}' for a in v.alias}, v.label)
        return v

    # ------------------------------------------------------------ pre-passes
    def callee_of(self, call, env):
        f = call.func
        # self._owner.<method>(...) of a Block
        if isinstance(f, ast.Attribute) and isinstance(f.value, ast.Attribute) and isinstance(f.value.value, ast.Name) \
                and f.value.value.id == 'self' and f.value.attr == '_owner' and 'self._owner' in env:
            call = ast.copy_location(ast.Call(
                func=ast.copy_location(ast.Attribute(
                    value=ast.copy_location(ast.Name(id='self._owner', ctx=ast.Load()), f.value),
                    attr=f.attr, ctx=ast.Load()), f),
                args=call.args, keywords=call.keywords), call)
            f = call.func
        if isinstance(f, ast.Name) and f.id in env and env[f.id].kind == 'lam':
            return None
        c = super().callee_of(call, env)
        if c is not None and getattr(c[1], 'builder', None):
            fail(call, 'call of a builder method')
        if c is not None and c[0] in ('method', 'bmethod') and isinstance(f.value, ast.Name):
            c = (c[0], c[1], f.value)
        return c

    def is_uuid_hex(self, node, env):
        return (isinstance(node, ast.Attribute) and node.attr == 'hex' and isinstance(node.value, ast.Call)
                and not node.value.args and not node.value.keywords
                and self.is_module_attr(node.value.func, 'uuid', 'uuid4', env))

    def is_convert_gate(self, call, env):
        f = call.func
        return (isinstance(f, ast.Name) and f.id == 'convert_gate' and f.id not in env and self.impkey == 'circuit'
                and self.u.imports['circuit'].get('convert_gate') == ('cirbo.core.circuit.converters', 'convert_gate'))

    def modset(self, stmts, env):
        out = super().modset(stmts, env)
        for st in stmts:
            for n in ast.walk(st):
                if isinstance(n, ast.Call) and self.is_convert_gate(n, env):
                    out.add('<fresh>')
                    out.add(self.self_py)
                if self.is_uuid_hex(n, env):
                    out.add('<fresh>')
                if isinstance(n, ast.Call) and isinstance(n.func, ast.Name) and n.func.id in env:
                    v = env[n.func.id]
                    if v.kind == 'hook':
                        out.add('<log>')
                    if v.kind == 'macro':
                        for d in v.macro[1:]:
                            out |= self.modset([b for b in d.body if not isinstance(b, ast.Nonlocal)], env)
                if isinstance(n, ast.Yield) and '<log>' in env:
                    out.add('<log>')
                if isinstance(n, ast.Yield):
                    out.add('<yield>')
                if isinstance(n, ast.AugAssign):
                    t = n.target
                    while isinstance(t, (ast.Attribute, ast.Subscript)):
                        t = t.value
                    if isinstance(t, ast.Name):
                        out.add(t.id)
        return out

    def is_private_local(self, name):
        """every binding of the name in the function creates a new dict / set"""
        stores = [n for n in ast.walk(self.src) if isinstance(n, ast.Name) and n.id == name
                  and isinstance(n.ctx, (ast.Store, ast.Del))]
        assigns = [s for s in ast.walk(self.src) if isinstance(s, (ast.Assign, ast.AnnAssign))
                   and any(isinstance(t, ast.Name) and t.id == name
                           for t in (s.targets if isinstance(s, ast.Assign) else [s.target]))]
        args = self.src.args
        params = [a.arg for a in args.args + args.kwonlyargs + args.posonlyargs]
        return (bool(assigns) and len(stores) == len(assigns) and name not in params
                and all(s.value is not None and self.is_fresh_value(s.value, {}) for s in assigns))

    def carried(self, names, env):
        names = [n for n in names if n in env and env[n].kind not in ('fn', 'lam', 'macro', 'hook', 'hookdef')]
        return sorted(names, key=lambda n: (env[n].kind not in ('self', 'bself', 'circ'), n))

    def check_loop_body(self, s):
        """`continue` only as the whole body of an else-less `if` that is a statement of the loop body"""
        allowed = {id(st.body[0]) for st in s.body
                   if isinstance(st, ast.If) and not st.orelse and len(st.body) == 1
                   and isinstance(st.body[0], ast.Continue)}
        for n in ast.walk(s):
            if isinstance(n, ast.Break):
                fail(n, 'break')
            if isinstance(n, ast.Continue) and id(n) not in allowed:
                fail(n, 'continue outside the form `if <cond>: continue`')

    def loop_body(self, body, env, k):
        self.loop_ks.append(k)
        try:
            return self.stmts(body, env, k)
        finally:
            self.loop_ks.pop()

    # ------------------------------------------------------------ expressions
    def lookup(self, node, env):
        v = env.get(node.id)
        if v is not None and v.kind == 'lam':
            fail(node, f'{node.id} is not a value here')
        return super().lookup(node, env)

    def none_test_expr(self, test, env):
        if isinstance(test, ast.Compare) and len(test.ops) == 1 and isinstance(test.ops[0], (ast.Is, ast.IsNot)) \
                and isinstance(test.comparators[0], ast.Constant) and test.comparators[0].value is None \
                and isinstance(test.left, ast.Name) and test.left.id in env and env[test.left.id].ty.startswith('opt'):
            return test.left.id, isinstance(test.ops[0], ast.Is)
        return None

    def expr(self, node, env, pre):
        if isinstance(node, ast.Constant) and isinstance(node.value, str):
            return Val(coq_str_expr(node.value), 'label')
        if isinstance(node, ast.JoinedStr):
            terms = []
            for part in node.values:
                if isinstance(part, ast.Constant) and isinstance(part.value, str):
                    if part.value:
                        terms.append(coq_str_expr(part.value))
                elif isinstance(part, ast.FormattedValue) and part.conversion == -1 and part.format_spec is None:
                    terms.append(self.typed(part.value, env, pre, 'label'))
                else:
                    fail(node, 'f-string part outside grammar')
            if not terms:
                return Val('""', 'label')
            return Val(terms[0] if len(terms) == 1 else '(' + ' ++ '.join(terms) + ')%string', 'label')
        if isinstance(node, ast.Name) and node.id == 'Undefined' and 'Undefined' not in env:
            return Val('U', 'st')
        if isinstance(node, ast.Attribute) and isinstance(node.value, ast.Name) and node.value.id not in env \
                and node.value.id in ('TraverseMode', 'TraverseState'):
            enum = node.value.id
            if not (self.u.imports[self.impkey].get(enum) == ('<local>', enum) or enum in self.local_imports):
                fail(node, f'{enum} is not the enum of circuit.py')
            if node.attr not in self.u.enums[enum]:
                fail(node, f'unknown member of {enum}')
            return Val(node.attr, 'tmode' if enum == 'TraverseMode' else 'tstate')
        if isinstance(node, ast.UnaryOp) and isinstance(node.op, ast.USub) and isinstance(node.operand, ast.Constant) \
                and type(node.operand.value) is int:
            return Val(f'(-{node.operand.value})%Z', 'int')
        if isinstance(node, ast.UnaryOp) and isinstance(node.op, ast.Not):
            save = self.tmp
            sub = []
            v = self.expr(node.operand, env, sub if pre is not None else None)
            if v.ty in ('labels', 'sts', 'gatepairs'):
                if pre is not None:
                    pre.extend(sub)
                return Val(f'Nat.eqb (length {self.atom(v)}) 0', 'bool')
            self.tmp = save
        if self.is_uuid_hex(node, env):
            if pre is None or '<fresh>' not in env:
                fail(node, 'uuid4() in a pure context')
            fc = env['<fresh>'].code
            t = self.fresh()
            pre.append((f'({t}, {fc})', f'next_uuid {fc}'))
            return Val(t, 'label')
        if isinstance(node, ast.BinOp) and isinstance(node.op, ast.BitOr):
            l = self.expr(node.left, env, pre)
            r = self.expr(node.right, env, pre)
            if l.ty == r.ty and l.ty in LOCAL_DICT:
                return Val(f'(dict_union {self.atom(l)} {self.atom(r)})', l.ty)      # a new dict
            fail(node, f'| on {l.ty} and {r.ty}')
        if isinstance(node, ast.BinOp) and isinstance(node.op, ast.Add):
            l = self.expr(node.left, env, pre)
            r = self.expr(node.right, env, pre)
            if l.ty == r.ty == 'nat':
                return Val(f'({self.atom(l)} + {self.atom(r)})', 'nat')
            if l.ty == r.ty == 'label':
                return Val(f'({self.atom(l)} ++ {self.atom(r)})%string', 'label')
            if l.ty == r.ty == 'labels':
                return Val(f'({self.atom(l)} ++ {self.atom(r)})', 'labels')      # a new list
            fail(node, f'+ on {l.ty} and {r.ty}')
        if isinstance(node, ast.IfExp):
            return self.ifexp(node, env, pre)
        if isinstance(node, ast.Subscript):
            r = self.subscript(node, env, pre)
            if r is not None:
                return r
        if isinstance(node, ast.Attribute):
            r = self.property_attr(node, env)
            if r is not None:
                return r
        if isinstance(node, ast.DictComp):
            return self.dictcomp(node, env, pre)
        if isinstance(node, ast.SetComp):
            v = self.comprehension(node, env, pre)
            if v.ty != 'labels':
                fail(node, 'set comprehension of non-labels')
            return Val(f'(set_of_list {self.atom(v)})', 'labelset')
        return super().expr(node, env, pre)

    def compare(self, node, env, pre):
        if len(node.ops) == 1 and isinstance(node.ops[0], (ast.Eq, ast.NotEq)):
            save, n0 = self.tmp, (len(pre) if pre is not None else 0)
            l = self.expr(node.left, env, pre)
            r = self.expr(node.comparators[0], env, pre)
            if l.ty == r.ty and l.ty in ('tmode', 'tstate'):
                eq = 'tmode_eqb' if l.ty == 'tmode' else 'tstate_beq'
                code = f'{eq} {self.atom(l)} {self.atom(r)}'
                return Val(code if isinstance(node.ops[0], ast.Eq) else f'negb ({code})', 'bool')
            self.tmp = save
            if pre is not None:
                del pre[n0:]
        return super().compare(node, env, pre)

    def ifexp(self, node, env, pre):
        nt = self.none_test_expr(node.test, env)
        if nt is not None:
            name, is_none = nt
            v = self.lookup(node.test.left, env)
            some_env, none_env = dict(env), dict(env)
            some_env[name] = Var(v.code, v.ty[3:], 'param', v.alias, None)
            none_env[name] = Var(v.code, 'unit', 'none')
            tn, en = (node.body, node.orelse)
            a = self.pure(tn, none_env if is_none else some_env, 'conditional expression')
            b = self.pure(en, some_env if is_none else none_env, 'conditional expression')
            if a.ty != b.ty or a.ty not in ('labels', 'label'):
                fail(node, 'conditional expression types')
            some_v, none_v = (b, a) if is_none else (a, b)
            return Val(f'(match {v.code} with Some {v.code} => {some_v.code} | None => {none_v.code} end)',
                       a.ty, a.alias | b.alias)
        c = self.pure(node.test, env, 'conditional expression')
        a = self.pure(node.body, env, 'conditional expression')
        b = self.pure(node.orelse, env, 'conditional expression')
        if c.ty != 'bool' or a.ty != b.ty or a.ty not in ('label', 'bool', 'nat', 'gtype', 'labels'):
            fail(node, 'conditional expression types')
        return Val(f'(if {c.code} then {a.code} else {b.code})', a.ty, a.alias | b.alias)

    def subscript(self, node, env, pre):
        """local dicts, l[-1], lists of gate states; None: leave it to T9"""
        sl = node.slice
        neg1 = isinstance(sl, ast.UnaryOp) and isinstance(sl.op, ast.USub) and isinstance(sl.operand, ast.Constant) \
            and sl.operand.value == 1 and type(sl.operand.value) is int
        save = self.tmp
        sub = []
        base = self.expr(node.value, env, sub if pre is not None else None)
        if base.ty == 'statedict':
            # a defaultdict: a missing key reads as the default (the insertion of the key is not modelled)
            if pre is not None:
                pre.extend(sub)
            k = self.typed(sl, env, pre, 'label')
            return Val(f'(state_of {self.atom(base)} {k})', 'tstate')
        if base.ty in LOCAL_DICT:
            if pre is None:
                fail(node, 'dict subscript (may raise KeyError) in a pure context')
            pre.extend(sub)
            k = self.typed(sl, env, pre, 'label')
            t = self.fresh()
            pre.append((t, f'dget_res {self.atom(base)} {k}'))
            return Val(t, LOCAL_DICT[base.ty])
        if base.ty == 'labels' and neg1:
            if pre is None:
                fail(node, 'list subscript (may raise IndexError) in a pure context')
            pre.extend(sub)
            t = self.fresh()
            pre.append((t, f'list_last {self.atom(base)}'))
            return Val(t, 'label')
        if base.ty == 'sts':
            if pre is None:
                fail(node, 'list subscript (may raise IndexError) in a pure context')
            pre.extend(sub)
            i = self.expr(sl, env, pre)
            if i.ty != 'nat':
                fail(node, 'index of a list of gate states must be a non-negative integer')
            t = self.fresh()
            pre.append((t, f'nth_res {self.atom(base)} {self.atom(i)}'))
            return Val(t, 'st')
        self.tmp = save
        return None

    def property_attr(self, node, env):
        if isinstance(node.value, ast.Name) and node.value.id in env and env[node.value.id].ty == 'circuit' \
                and node.attr not in FIELDS and node.attr not in CIRCUIT_PROPS:
            m = self.u.circuit_methods.get(node.attr)
            if m is not None and len(m.decorator_list) == 1 and isinstance(m.decorator_list[0], ast.Name) \
                    and m.decorator_list[0].id == 'property':
                callee = self.u.get('circuit', node.attr, node)
                if callee.monadic or callee.mutates or callee.params:
                    fail(node, 'property outside grammar')
                recv = self.lookup(node.value, env)
                return Val(f'({callee.coqname} {recv.code})', callee.ret_ty, callee.ret_alias)
        return None

    # ---- comprehensions
    def iter_val(self, node, env, pre):
        """the iterated value of a comprehension / pair loop"""
        v = self.expr(node, env, pre)
        if v.ty in DICT_VALUE:
            # iterating a dict: its keys
            return Val(f'(dkeys {self.atom(v)})', 'labels', v.alias)
        return v

    def bind_target(self, target, it, env, node):
        """-> (binder code, inner env)"""
        inner = dict(env)
        if isinstance(target, ast.Name):
            x = target.id
            if x in env:
                fail(node, 'loop / comprehension variable shadows a name')
            if it.ty in PAIR_ELEM:
                xc = 'kv_' + x
                ety = PAIR_ELEM[it.ty]
                inner[x] = Var(f'(snd {xc})', ety, 'local', {'blocks.content'} if ety == 'block' else (), f'(fst {xc})')
                return xc, inner
            elem = {'labels': 'label', 'labelset': 'label', 'nats': 'nat', 'sts': 'st', 'stss': 'sts',
                    'boolvecs': 'bools'}.get(it.ty)
            if elem is None:
                fail(node, f'iteration over {it.ty}')
            xc = self.vname(target, x)
            inner[x] = Var(xc, elem, 'local')
            return xc, inner
        if isinstance(target, ast.Tuple) and len(target.elts) == 2 and all(isinstance(e, ast.Name) for e in target.elts) \
                and it.ty in PAIR_ITER:
            a, b = target.elts[0].id, target.elts[1].id
            if a == b or a in env or b in env:
                fail(node, 'loop / comprehension variables shadow a name')
            xc = f'p_{a}_{b}'
            ta, tb = PAIR_ITER[it.ty]
            inner[a] = Var(f'(fst {xc})', ta, 'local')
            inner[b] = Var(f'(snd {xc})', tb, 'local')
            # the lists of a local defaultdict(list) belong to nobody else: they may be stored into the state
            inner[b].owned = it.ty in ('labelspairs', 'stspairs') and not it.alias
            return xc, inner
        fail(node, 'loop / comprehension target outside grammar')

    def comprehension(self, node, env, pre, allow_gen=False):
        if len(node.generators) != 1:
            fail(node, 'comprehension with several generators')
        g = node.generators[0]
        if g.is_async:
            fail(node, 'comprehension target')
        it = self.iter_val(g.iter, env, pre)
        if it.ty == 'labelset':
            fail(node, 'iteration over a set')
        xc, inner = self.bind_target(g.target, it, env, node)
        code = self.atom(it)
        mfilter = None
        for c in g.ifs:
            sub = []
            cv = self.typed_val(c, inner, sub if pre is not None else None, 'bool')
            if sub:
                if mfilter is not None or len(g.ifs) != 1:
                    fail(c, 'only a single filter may raise')
                mfilter = '\n'.join(self.emit_pre(sub) + [f'Ok {self.atom(cv)}'])
            else:
                code = f'(filter (fun {xc} => {cv.code}) {code})'
        sub = []
        e = self.expr(node.elt, inner, sub if pre is not None else None)
        if e.ty not in LIST_OF:
            fail(node, f'comprehension element of type {e.ty}')
        rty = LIST_OF[e.ty]
        if mfilter is not None:
            if sub or e.code != xc or e.ty != 'label':
                fail(node, 'a comprehension with a raising filter must return the iteration variable')
            t = self.fresh()
            pre.append((t, f'filterM (fun {xc} => {paren(mfilter)}) {code}'))
            return Val(t, rty)
        if sub:
            t = self.fresh()
            body = '\n'.join(self.emit_pre(sub) + [f'Ok {self.atom(e)}'])
            # `do t <- m; Ok t` ==> m
            if len(sub) == 1 and sub[0][0] == e.code:
                body = sub[0][1]
            pre.append((t, f'mapM (fun {xc} => {paren(body) if chr(10) in body else body}) {code}'))
            return Val(t, rty)
        if e.code != xc:
            code = f'(map (fun {xc} => {e.code}) {code})'
        return Val(code, rty)        # a fresh list

    def dictcomp(self, node, env, pre):
        if pre is None:
            fail(node, 'dict comprehension in a pure context')
        if len(node.generators) != 1 or node.generators[0].is_async or node.generators[0].ifs:
            fail(node, 'dict comprehension form')
        g = node.generators[0]
        it = self.iter_val(g.iter, env, pre)
        if it.ty == 'labelset':
            fail(node, 'iteration over a set')
        xc, inner = self.bind_target(g.target, it, env, node)
        sub = []
        k = self.typed(node.key, inner, sub, 'label')
        v = self.expr(node.value, inner, sub)
        vty, vcode = self.dict_value(v, node)
        t = self.fresh()
        body = '\n'.join(self.emit_pre(sub) + [f'Ok (dset d_ {k} {vcode})'])
        pre.append((t, '\n'.join([f'foldM (fun d_ {xc} =>', ind(body, 4) + ')', f'  {self.atom(it)} []'])))
        return Val(t, DICT_OF[vty])

    def dict_value(self, v, node):
        """a value stored into a local dict -> (value type of the dict, code)"""
        if v.ty == 'nat':
            return 'int', f'(Z.of_nat {self.atom(v)})'
        if v.ty in DICT_OF:
            return v.ty, self.atom(v)
        fail(node, f'dict value of type {v.ty}')

    # ---- calls
    def is_module_attr(self, f, mod, attr, env):
        want = ('cirbo.core.circuit', 'gate') if mod == 'gate' else ({'tp': 'typing'}.get(mod, mod), None)
        return (isinstance(f, ast.Attribute) and f.attr == attr and isinstance(f.value, ast.Name)
                and f.value.id == mod and mod not in env and self.u.imports[self.impkey].get(mod) == want
                and (mod != 'gate' or self.impkey == 'circuit'))

    def call(self, node, env, pre):
        f = node.func
        plain = not node.keywords
        builtin = isinstance(f, ast.Name) and f.id not in env and f.id not in self.u.imports[self.impkey]
        # gate.Gate(label=..., gate_type=..., operands=...): keywords in parameter order = positional
        if self.is_module_attr(f, 'gate', 'Gate', env) and node.keywords and all(k.arg is not None for k in node.keywords):
            names = self.u.gate_init
            given = names[:len(node.args)] + [k.arg for k in node.keywords]
            if given != names[:len(given)]:
                fail(node, 'Gate(...) keywords must follow the parameter order')
            node = ast.copy_location(ast.Call(func=f, args=list(node.args) + [k.value for k in node.keywords],
                                              keywords=[]), node)
            return super().call(node, env, pre)
        # lambda macro
        if isinstance(f, ast.Name) and f.id in env and env[f.id].kind == 'lam':
            return self.call_lambda(env[f.id], node, env, pre)
        # len of sets / dicts / other lists
        if builtin and f.id == 'len' and len(node.args) == 1 and plain:
            save = self.tmp
            sub = []
            v = self.expr(node.args[0], env, sub if pre is not None else None)
            if v.ty == 'labelset':
                if pre is not None:
                    pre.extend(sub)
                return Val(f'length (set_of_list {self.atom(v)})', 'nat')
            if v.ty in DICT_VALUE or v.ty in ('sts', 'gatepairs'):
                if pre is not None:
                    pre.extend(sub)
                return Val(f'length {self.atom(v)}', 'nat')
            self.tmp = save
        if builtin and f.id == 'list' and len(node.args) == 1 and plain:
            a = node.args[0]
            if not isinstance(a, ast.GeneratorExp):
                save = self.tmp
                sub = []
                v = self.expr(a, env, sub if pre is not None else None)
                if v.ty == 'labelset':
                    if pre is not None:
                        pre.extend(sub)
                    return Val(f'(set_to_list {self.self_code} {self.atom(v)})', 'labels')
                if v.ty in DICT_VALUE:
                    if pre is not None:
                        pre.extend(sub)
                    return Val(f'(dkeys {self.atom(v)})', 'labels')          # list(d): the keys, a new list
                if v.ty == 'bools':
                    return Val(f'(map inj {self.atom(v)})', 'sts')
                if v.ty == 'sts':
                    return Val(v.code, 'sts')
                self.tmp = save
        if builtin and f.id == 'dict' and len(node.args) == 1 and plain:
            v = self.expr(node.args[0], env, pre)
            if v.ty not in LOCAL_DICT:
                fail(node, 'dict(...) of a non-dict')
            return Val(v.code, v.ty)                # a copy
        if self.is_module_attr(f, 'copy', 'copy', env) and len(node.args) == 1 and plain:
            v = self.expr(node.args[0], env, pre)
            if v.ty not in LOCAL_DICT and v.ty not in ('labels', 'gatedict'):
                fail(node, 'copy.copy(...) outside grammar')
            return Val(v.code, v.ty)                # a (shallow) copy of a dict / list of strings (Gates are immutable)
        # '<sep>'.join(<strings>)
        if isinstance(f, ast.Attribute) and f.attr == 'join' and isinstance(f.value, ast.Constant) \
                and isinstance(f.value.value, str) and len(node.args) == 1 and plain:
            a = node.args[0]
            v = self.comprehension(a, env, pre) if isinstance(a, ast.GeneratorExp) else self.expr(a, env, pre)
            if v.ty != 'labels':
                fail(node, 'join of something that is not a list of strings')
            return Val(f'(String.concat {coq_str_expr(f.value.value)} {self.atom(v)})', 'label')
        # g.format_gate(): Gate.format_gate is regenerated by translator T7 (Generated/BenchDispatch.v)
        if isinstance(f, ast.Attribute) and f.attr == 'format_gate' and not node.args and plain:
            g = self.expr(f.value, env, pre)
            if g.ty != 'gate' or g.label is None:
                fail(node, 'format_gate of a gate whose label is not known')
            if self.u.methods_of('Gate').get('format_gate') is None:
                fail(node, 'Gate.format_gate not found')
            return Val(f'(BenchDispatch.format_gate {g.label} {self.atom(g)})', 'label')
        # zip(<labels>, <bools>)
        if builtin and f.id == 'zip' and len(node.args) == 2 and plain \
                and not any(isinstance(a, ast.Starred) for a in node.args):
            a = self.typed_val(node.args[0], env, pre, 'labels')
            b = self.expr(node.args[1], env, pre)
            if b.ty == 'bools':
                return Val(f'(combine {self.atom(a)} (map inj {self.atom(b)}))', 'stpairs')
            if b.ty == 'sts':
                return Val(f'(combine {self.atom(a)} {self.atom(b)})', 'stpairs')
            fail(node, 'zip(...) outside grammar')
        # collections.defaultdict(lambda: TraverseState.UNVISITED)
        if self.is_module_attr(f, 'collections', 'defaultdict', env) and plain and len(node.args) == 1 \
                and isinstance(node.args[0], ast.Lambda) and not node.args[0].args.args:
            d = self.pure(node.args[0].body, env, 'defaultdict default')
            if d.ty != 'tstate' or d.code != 'UNVISITED':
                fail(node, 'defaultdict default outside grammar')
            return Val('[]', 'statedict')
        # collections.defaultdict(list)
        if self.is_module_attr(f, 'collections', 'defaultdict', env) and plain and len(node.args) == 1 \
                and isinstance(node.args[0], ast.Name) and node.args[0].id == 'list' and 'list' not in env:
            return Val('[]', 'ddict?')
        if self.is_module_attr(f, 'tp', 'cast', env) and len(node.args) == 2 and plain:
            return self.expr(node.args[1], env, pre)
        if self.is_module_attr(f, 'itertools', 'product', env):
            ok = (len(node.args) == 1 and isinstance(node.args[0], ast.Tuple) and len(node.args[0].elts) == 2
                  and all(isinstance(e, ast.Constant) for e in node.args[0].elts)
                  and node.args[0].elts[0].value is False and node.args[0].elts[1].value is True
                  and len(node.keywords) == 1 and node.keywords[0].arg == 'repeat')
            if not ok:
                fail(node, 'itertools.product must be product((False, True), repeat=n)')
            n = self.expr(node.keywords[0].value, env, pre)
            if n.ty != 'nat':
                fail(node, 'repeat= must be a length')
            return Val(f'(all_bool_vectors {self.atom(n)})', 'boolvecs')
        # zip(*(E for x in xs))
        if builtin and f.id == 'zip' and len(node.args) == 1 and plain and isinstance(node.args[0], ast.Starred) \
                and isinstance(node.args[0].value, ast.GeneratorExp):
            rows = self.comprehension(node.args[0].value, env, pre)
            if rows.ty != 'stss':
                fail(node, 'zip(*rows) of something that is not a list of lists of gate states')
            return Val(f'(zip_star {self.atom(rows)})', 'stss')
        # l.pop() / l.pop(0)
        if isinstance(f, ast.Attribute) and f.attr == 'pop' and isinstance(f.value, ast.Name) and f.value.id in env \
                and env[f.value.id].kind == 'mutlocal' and env[f.value.id].ty == 'labels' and plain:
            if pre is None:
                fail(node, 'pop() in a pure context')
            q = self.lookup(f.value, env)
            if not node.args:
                op = 'list_pop'
            elif len(node.args) == 1 and isinstance(node.args[0], ast.Constant) and node.args[0].value == 0 \
                    and type(node.args[0].value) is int:
                op = 'list_pop0'
            elif len(node.args) == 1:
                i = self.pure(node.args[0], env, 'pop index')
                if i.ty != 'int':
                    fail(node, 'pop(i) outside grammar')
                op = None
            else:
                fail(node, 'pop(i) outside grammar')
            t = self.fresh()
            pre.append((f'({t}, {q.code})', f'{op} {q.code}' if op else f'list_pop_at {q.code} {self.atom(i)}'))
            return Val(t, 'label')
        # d.items() / d.values() / d.keys() of a local dict
        if isinstance(f, ast.Attribute) and f.attr in ('items', 'values', 'keys') and not node.args and plain:
            save = self.tmp
            sub = []
            d = self.expr(f.value, env, sub if pre is not None else None)
            if d.ty in DDICT_ITEMS and f.attr == 'items':
                if pre is not None:
                    pre.extend(sub)
                return Val(d.code, DDICT_ITEMS[d.ty], d.alias)
            if d.ty in LOCAL_DICT:
                if pre is not None:
                    pre.extend(sub)
                if f.attr == 'items':
                    return Val(d.code, DICT_ITEMS[d.ty], d.alias)
                if f.attr == 'keys':
                    return Val(f'(dkeys {self.atom(d)})', 'labels', d.alias)
                if d.ty == 'labeldict':
                    return Val(f'(dvals {self.atom(d)})', 'labels', d.alias)
                fail(node, 'values() of this dict')
            self.tmp = save
        # g.operator(*(d[o] for o in g.operands))
        if isinstance(f, ast.Attribute) and f.attr == 'operator' and len(node.args) == 1 and plain \
                and isinstance(node.args[0], ast.Starred) and isinstance(node.args[0].value, ast.GeneratorExp):
            if pre is None:
                fail(node, 'operator call in a pure context')
            g = self.expr(f.value, env, pre)
            if g.ty != 'gate':
                fail(node, '.operator of a non-gate')
            t1 = self.fresh()
            pre.append((t1, f'gate_operator {self.atom(g)}'))
            args = self.comprehension(node.args[0].value, env, pre)
            if args.ty != 'sts':
                fail(node, 'operator arguments must be gate states')
            t2 = self.fresh()
            pre.append((t2, f'operator_of {t1} {self.atom(args)}'))
            return Val(t2, 'st')
        return super().call(node, env, pre)

    def call_lambda(self, lam, node, env, pre):
        cond, param, abody, bbody = lam.lam
        if len(node.args) != 1 or node.keywords:
            fail(node, 'call of a local lambda')
        arg = self.expr(node.args[0], env, pre)
        cv = self.lookup(ast.Name(id=cond, ctx=ast.Load()), env)
        if cv.ty != 'bool':
            fail(node, 'lambda selector must be a bool')
        inner = dict(env)
        inner[param] = Var(arg.code, arg.ty, 'local', arg.alias, arg.label)
        pa, pb = [], []
        a = self.expr(abody, inner, pa if pre is not None else None)
        b = self.expr(bbody, inner, pb if pre is not None else None)
        if a.ty != b.ty or a.ty not in ('nat', 'labels', 'label', 'bool'):
            fail(node, f'lambda results of types {a.ty} / {b.ty}')
        alias = a.alias | b.alias
        if not pa and not pb:
            return Val(f'(if {cv.code} then {a.code} else {b.code})', a.ty, alias)

        def branch(p, v):
            if len(p) == 1 and p[0][0] == v.code:
                return p[0][1]
            return paren('\n'.join(self.emit_pre(p) + [f'Ok {self.atom(v)}'])) if p else f'Ok {self.atom(v)}'
        t = self.fresh()
        pre.append((t, f'(if {cv.code} then {branch(pa, a)} else {branch(pb, b)})'))
        return Val(t, a.ty, alias)

    def call_code(self, c, node, env, pre):
        hooks = getattr(c[1], 'hooks', set())
        abort = None
        if hooks:
            kept = []
            abort = 'no_abort'
            for k in node.keywords:
                if k.arg in hooks:
                    v = k.value
                    if not (isinstance(v, ast.Name) and v.id in env):
                        fail(node, 'a hook argument must be a hook parameter or a local hook definition')
                    if env[v.id].kind == 'hook' and v.id == k.arg:
                        if k.arg == 'on_discover_hook':
                            abort = env['<abort>'].code
                    elif env[v.id].kind == 'hookdef' and k.arg == 'on_discover_hook':
                        abort = env[v.id].code
                    else:
                        fail(node, 'hook argument outside grammar')
                else:
                    kept.append(k)
            node2 = ast.copy_location(ast.Call(func=node.func, args=node.args, keywords=kept), node)
            code, callee = self.call_code_fuel(c, node2, env, pre, site=node)
            return code + ' ' + abort, callee
        return self.call_code_fuel(c, node, env, pre, site=node)

    def call_code_fuel(self, c, node, env, pre, site):
        code, callee = FnTr.call_code(self, c, node, env, pre)
        node = site
        if getattr(callee, 'uses_fresh', False):
            fail(node, 'call of a function that consumes uuid values')
        cf = getattr(callee, 'fuel_names', [])
        if cf:
            # the fuel of a call is a function of the circuit the callee runs on, evaluated at the call
            if c[0] in ('method', 'bmethod'):
                recv = env[c[2].id].code
            else:
                idx = [i for i, p_ in enumerate(callee.params) if p_[1] == 'circuit']
                if len(idx) != 1:
                    fail(node, 'fuel for a call without a circuit')
                recv = self._last_args[idx[0]]
            fuels = self.alloc_fuel(node, len(cf), 'fun')
            args = [f'({f_} {recv})' if callee.fuel_kinds[cn] == 'nat' else f_ for f_, cn in zip(fuels, cf)]
            assert code.startswith(callee.coqname)
            code = callee.coqname + ' ' + ' '.join(args) + code[len(callee.coqname):]
        return code, callee

    # ------------------------------------------------------------ statements
    def stmts(self, body, env, k):
        if not body:
            return k.emit(env)
        s, rest = body[0], body[1:]
        kr = K(lambda e: self.stmts(rest, e, k), k.cheap and not rest, k.can_return) if rest else k
        if isinstance(s, ast.ImportFrom):
            ok = (s.module == 'cirbo.core.circuit.circuit' and s.level == 0 and len(s.names) == 1
                  and s.names[0].name == 'TraverseState' and s.names[0].asname is None and 'TraverseState' not in env)
            if not ok:
                fail(s, 'local import outside grammar')
            self.local_imports.add('TraverseState')
            return kr.emit(env)
        if isinstance(s, ast.FunctionDef) and s.name in HOOKS:
            return self.define_hook(s, env, kr)
        if isinstance(s, ast.If):
            r = self.define_by_cases(s, env, kr)
            if r is None:
                r = self.define_macro(s, env, kr)
            if r is not None:
                return r
        if isinstance(s, ast.Expr) and isinstance(s.value, ast.Call) and isinstance(s.value.func, ast.Name) \
                and s.value.func.id in env and env[s.value.func.id].kind in ('hook', 'macro'):
            if env[s.value.func.id].kind == 'hook':
                return self.hook_call(s.value, env, kr)
            return self.macro_call(s.value, env, kr)
        if isinstance(s, ast.Expr) and isinstance(s.value, ast.Call) \
                and self.is_module_attr(s.value.func, 'more_itertools', 'consume', env):
            # consume(<generator>): run it for its effects / exceptions
            call = s.value
            if len(call.args) != 1 or call.keywords:
                fail(s, 'consume(...) arguments')
            pre = []
            v = self.expr(call.args[0], env, pre)
            if v.ty not in ('events', 'gatepairs') or not pre or pre[-1][0] != v.code:
                fail(s, 'consume(...) of something that is not a generator call')
            pre[-1] = ('_', pre[-1][1])
            return '\n'.join(self.emit_pre(pre) + [kr.emit(env)])
        if isinstance(s, ast.While):
            return self.while_(s, env, kr)
        if isinstance(s, ast.Expr) and isinstance(s.value, ast.Yield):
            return self.yield_(s.value, env, kr)
        if isinstance(s, ast.AugAssign):
            return self.augassign(s, env, kr)
        if isinstance(s, ast.If) and not s.orelse and len(s.body) == 1 and isinstance(s.body[0], ast.Continue):
            if not self.loop_ks:
                fail(s, 'continue outside a loop')
            pre = []
            c = self.typed_val(s.test, env, pre, 'bool')
            return '\n'.join(self.emit_pre(pre) + [f'if {c.code} then', ind(self.loop_ks[-1].emit(dict(env))), 'else',
                                                   ind(kr.emit(env))])
        return super().stmts(body, env, k)

    def return_(self, s, env, k):
        v = s.value
        if isinstance(v, ast.Call) and k.can_return:
            c = self.callee_of(v, env)
            if c is not None and c[1].mutates and c[1].monadic and c[1].ret_ty != 'unit' and c[0] == 'method' \
                    and env[c[2].id].kind == 'self' and self.fn.mutates:
                # tail call of a mutator that returns a value: the pair (state, value) is passed on
                callee = c[1]
                pre = []
                code, _ = self.call_code(c, v, env, pre)
                self.effects_of_call(callee, env)
                label = None
                if callee.ret_label_param is not None:
                    label = self._last_args[callee.ret_label_param]
                self.returns.append(('value', Val('<tail call>', callee.ret_ty, callee.ret_alias, label)))
                return '\n'.join(self.emit_pre(pre) + [code])
        return super().return_(s, env, k)

    def final(self, env, val=None):
        if self.is_gen:
            if val is not None:
                fail(self.src, 'return of a value inside a generator')
            return self.ok(env['<log>' if '<log>' in env else '<yield>'].code)
        return super().final(env, val)

    # ---- traversal idioms
    def cases_chain(self, s):
        """if t1: x = e1 / raise  elif t2: ...  else: x = en / raise   ->  [(test | None, stmt)] or None"""
        out = []
        while True:
            if len(s.body) != 1 or not isinstance(s.body[0], (ast.Assign, ast.AnnAssign, ast.Raise)):
                return None
            out.append((s.test, s.body[0]))
            if len(s.orelse) == 1 and isinstance(s.orelse[0], ast.If):
                s = s.orelse[0]
                continue
            if len(s.orelse) != 1 or not isinstance(s.orelse[0], (ast.Assign, ast.AnnAssign, ast.Raise)):
                return None
            out.append((None, s.orelse[0]))
            return out

    def define_by_cases(self, s, env, kr):
        """a name that is first bound in every branch of an if / elif / else chain (the other branches raise)"""
        chain = self.cases_chain(s)
        if chain is None:
            return None
        names = set()
        for _t, st in chain:
            if isinstance(st, ast.Raise):
                continue
            tgt = st.targets[0] if isinstance(st, ast.Assign) and len(st.targets) == 1 else getattr(st, 'target', None)
            if not isinstance(tgt, ast.Name) or st.value is None:
                return None
            names.add(tgt.id)
        if len(names) != 1:
            return None
        name = names.pop()
        if name in env:
            return None
        vals = []

        def build(i, e):
            test, st = chain[i]

            def leaf(env_):
                if isinstance(st, ast.Raise):
                    return self.raise_(st)
                v = self.pure(st.value, env_, 'value of a definition by cases')
                ann = getattr(st, 'annotation', None)
                if v.ty == 'nat' and ann is not None and ast.unparse(ann) == 'int':
                    v = Val(f'{v.code}%Z', 'int')
                vals.append((v, st.value))
                return f'Ok {self.atom(v)}'
            if test is None:
                return leaf(e)
            nt = self.none_test_expr(test, e)
            if nt is not None:
                nm, is_none = nt
                v0 = self.lookup(test.left, e)
                some_env, none_env = dict(e), dict(e)
                some_env[nm] = Var(v0.code, v0.ty[3:], 'param', v0.alias, None)
                none_env[nm] = Var(v0.code, 'unit', 'none')
                this_env, rest_env = (none_env, some_env) if is_none else (some_env, none_env)
                a = leaf(this_env)
                b = build(i + 1, rest_env)
                some_c, none_c = (b, a) if is_none else (a, b)
                return f'(match {v0.code} with Some {v0.code} => {some_c} | None => {none_c} end)'
            c = self.pure(test, e, 'test of a definition by cases')
            if c.ty != 'bool':
                fail(test, 'test of a definition by cases must be a bool')
            return f'(if {c.code} then {leaf(e)} else {build(i + 1, e)})'
        code = build(0, env)
        tys = {v.ty for v, _ in vals}
        if len(tys) != 1:
            fail(s, f'definition by cases with values of types {sorted(tys)}')
        ty = tys.pop()
        if ty not in ('int', 'labels', 'label', 'bool', 'nat'):
            fail(s, f'definition by cases of type {ty}')
        fresh = ty == 'labels' and all(not v.alias and self.is_fresh_list(n, env) for v, n in vals)
        alias = frozenset().union(*[v.alias for v, _ in vals])
        vc = self.vname(s, name)
        env2 = dict(env)
        env2[name] = Var(vc, ty, 'mutlocal' if fresh else 'local', () if fresh else alias)
        return '\n'.join([f'do {vc} <- {code};', kr.emit(env2)])

    def define_macro(self, s, env, kr):
        """if <test>: def f(p): ...   else: def f(q): ...     a procedure chosen once; f(e) is expanded in place"""
        ok = (len(s.body) == 1 and len(s.orelse) == 1 and isinstance(s.body[0], ast.FunctionDef)
              and isinstance(s.orelse[0], ast.FunctionDef) and s.body[0].name == s.orelse[0].name)
        if not ok:
            return None
        name = s.body[0].name
        if name in env:
            fail(s, 'local procedure shadows a name')
        for d in (s.body[0], s.orelse[0]):
            a = d.args
            if d.decorator_list or a.posonlyargs or a.kwonlyargs or a.vararg or a.kwarg or a.defaults or len(a.args) != 1 \
                    or a.args[0].arg in env:
                fail(d, 'local procedure signature')
            for i, b in enumerate(d.body):
                if isinstance(b, ast.Nonlocal):
                    if any(n not in env for n in b.names):
                        fail(b, 'nonlocal of an unknown name')
                elif isinstance(b, ast.Return):
                    if b.value is not None or i != len(d.body) - 1:
                        fail(b, 'return inside a local procedure')
                elif not isinstance(b, (ast.Assign, ast.Expr)):
                    fail(b, 'statement of a local procedure outside grammar')
                for n in ast.walk(b):
                    if isinstance(n, (ast.FunctionDef, ast.Lambda, ast.Yield)):
                        fail(n, 'local procedure body outside grammar')
        # the test is evaluated when the procedure is chosen: it may mention only immutable parameters
        for n in ast.walk(s.test):
            if isinstance(n, ast.Name) and n.id in env and not (env[n.id].kind == 'param'
                                                                and env[n.id].ty in ('bool', 'tmode', 'label')):
                fail(s.test, 'the test that selects a local procedure must be about immutable parameters')
        self.pure(s.test, env, 'test selecting a local procedure')
        var = Var('', 'unit', 'macro')
        var.macro = (s.test, s.body[0], s.orelse[0])
        env2 = dict(env)
        env2[name] = var
        return kr.emit(env2)

    def macro_call(self, call, env, kr):
        test, d1, d2 = env[call.func.id].macro
        if len(call.args) != 1 or call.keywords:
            fail(call, 'call of a local procedure')
        pre = []
        arg = self.expr(call.args[0], env, pre)
        if arg.ty != 'label':
            fail(call, 'argument of a local procedure must be a label')
        params = [d1.args.args[0].arg, d2.args.args[0].arg]
        inner = dict(env)
        for p_ in params:
            inner[p_] = Var(arg.code, 'label', 'local')

        def body(d):
            b = [x for x in d.body if not isinstance(x, (ast.Nonlocal, ast.Return))]
            return b or [ast.copy_location(ast.Pass(), d)]
        node = ast.copy_location(ast.If(test=test, body=body(d1), orelse=body(d2)), call)
        ast.fix_missing_locations(node)

        def after(e):
            e2 = dict(e)
            for p_ in params:
                e2.pop(p_, None)
            return kr.emit(e2)
        # `rest` must be non-empty for the join: the continuation is what follows the call
        code = self.if_(node, [node], inner, K(after, kr.cheap, False), K(after, False, False))
        return '\n'.join(self.emit_pre(pre) + [code])

    def hook_call(self, call, env, kr):
        name = call.func.id
        ev, with_gate = HOOKS[name]
        if '<log>' not in env or call.keywords or len(call.args) != (2 if with_gate else 1):
            fail(call, 'hook call outside grammar')
        st = call.args[-1]
        if not (isinstance(st, ast.Name) and st.id in env and env[st.id].ty == 'statedict'):
            fail(call, 'the last argument of a hook must be the dict of traversal states')
        sts = self.lookup(st, env)
        lc = env['<log>'].code
        pre = []
        if not with_gate:
            return '\n'.join([f'let {lc} := {lc} ++ [{ev}] in', kr.emit(env)])
        g = self.expr(call.args[0], env, pre)
        if g.ty != 'gate' or g.label is None:
            fail(call, 'the first argument of a hook must be a Gate whose label is known')
        lines = self.emit_pre(pre)
        if name == 'on_discover_hook':
            s_ = f'(state_of {sts.code} {g.label})'
            lines.append(f'do _ <- hook_discover {env["<abort>"].code} {g.label} {s_};')
            lines.append(f'let {lc} := {lc} ++ [{ev} {g.label} {s_}] in')
        else:
            lines.append(f'let {lc} := {lc} ++ [{ev} {g.label}] in')
        return '\n'.join(lines + [kr.emit(env)])

    def define_hook(self, s, env, kr):
        """def on_discover_hook(gate, gate_states): if gate_states[gate.label] == TraverseState.X: raise E(...)"""
        a = s.args
        ok = (s.name == 'on_discover_hook' and s.name not in env and not s.decorator_list and len(a.args) == 2
              and not (a.posonlyargs or a.kwonlyargs or a.vararg or a.kwarg or a.defaults))
        body = strip_docstring(s.body)
        ok = ok and len(body) == 1 and isinstance(body[0], ast.If) and not body[0].orelse \
            and len(body[0].body) == 1 and isinstance(body[0].body[0], ast.Raise)
        if not ok:
            fail(s, 'local hook definition outside grammar')
        g, sts = a.args[0].arg, a.args[1].arg
        t = body[0].test
        ok = (isinstance(t, ast.Compare) and len(t.ops) == 1 and isinstance(t.ops[0], ast.Eq)
              and ast.unparse(t.left) == f'{sts}[{g}.label]')
        if not ok:
            fail(s, 'the test of a local hook must be <states>[<gate>.label] == TraverseState.<X>')
        x = self.pure(t.comparators[0], env, 'state in a local hook')
        if x.ty != 'tstate':
            fail(s, 'state in a local hook')
        e = self.raise_(body[0].body[0])          # Err <Class>
        var = Var(f'(fun (_ : label) (s_ : tstate) => if tstate_beq s_ {x.code} then Some {e[4:]} else None)',
                  'abortfn', 'hookdef')
        env2 = dict(env)
        env2[s.name] = var
        return kr.emit(env2)

    def yield_(self, y, env, kr):
        if not self.is_gen or y.value is None:
            fail(y, 'yield outside grammar')
        pre = []
        v = self.expr(y.value, env, pre)
        if v.ty != 'gate' or v.label is None:
            fail(y, 'only a Gate whose label is known may be yielded')
        if '<log>' in env:
            lc = env['<log>'].code
            return '\n'.join(self.emit_pre(pre) + [f'let {lc} := {lc} ++ [EvYield {v.label}] in', kr.emit(env)])
        yc = env['<yield>'].code
        return '\n'.join(self.emit_pre(pre) + [f'let {yc} := {yc} ++ [({v.label}, {v.code})] in', kr.emit(env)])

    def augassign(self, s, env, kr):
        t = s.target
        ok = (isinstance(t, ast.Subscript) and isinstance(t.value, ast.Name) and t.value.id in env
              and env[t.value.id].kind == 'mutlocal' and env[t.value.id].ty == 'intdict'
              and isinstance(s.op, (ast.Sub, ast.Add)) and isinstance(s.value, ast.Constant)
              and type(s.value.value) is int and s.value.value >= 0)
        if not ok:
            fail(s, 'augmented assignment outside grammar (d[k] -= n on a local dict of ints)')
        d = self.lookup(t.value, env)
        pre = []
        k = self.typed(t.slice, env, pre, 'label')
        cur = self.fresh()
        pre.append((cur, f'dget_res {d.code} {k}'))
        op = '-' if isinstance(s.op, ast.Sub) else '+'
        line = f'let {d.code} := dset {d.code} {k} ({cur} {op} {s.value.value})%Z in'
        return '\n'.join(self.emit_pre(pre) + [line, kr.emit(env)])

    def while_(self, s, env, kr):
        if s.orelse:
            fail(s, 'while ... else')
        if not (isinstance(s.test, ast.Name) and s.test.id in env and env[s.test.id].kind == 'mutlocal'
                and env[s.test.id].ty == 'labels'):
            fail(s, 'the condition of a while loop must be a local list')
        for n in ast.walk(s):
            if isinstance(n, (ast.Break, ast.Continue, ast.Return, ast.While)) and n is not s:
                fail(n, 'break / continue / return / nested while inside a while loop')
        q = self.lookup(s.test, env)
        names = self.carried(self.modset(s.body, env), env)
        for n in names:
            if env[n].kind != 'mutlocal':
                fail(s, f'the while body modifies {n}, which is not a mutable local')
        # what the body reads: every name of the environment it mentions (the lambdas it calls included)
        used, todo = set(), [s]
        while todo:
            for n in ast.walk(todo.pop()):
                if isinstance(n, ast.Name) and n.id in env and n.id not in used:
                    used.add(n.id)
                    if env[n.id].kind == 'lam':
                        used.add(env[n.id].lam[0])
                        todo += [env[n.id].lam[2], env[n.id].lam[3]]
                    if env[n.id].kind == 'macro':
                        todo += [env[n.id].macro[0]] + list(env[n.id].macro[1].body) + list(env[n.id].macro[2].body)
                    if env[n.id].kind == 'hook':
                        used.add('<abort>')
                        used.add('<log>')
        if self.is_gen and '<yield>' in env and any(isinstance(n, ast.Yield) for n in ast.walk(s)):
            used.add('<yield>')
        if 'self._owner' in env and any(isinstance(n, ast.Attribute) and n.attr == '_owner' for n in ast.walk(s)):
            used.add('self._owner')
        if '<log>' in env and any(isinstance(n, ast.Yield) for n in ast.walk(s)):
            used.add('<log>')
        consts = [n for n in used if n in env and n not in names
                  and env[n].kind not in ('fn', 'lam', 'none', 'macro', 'hook', 'hookdef')]
        consts = sorted(consts, key=lambda n: (env[n].kind not in ('self', 'bself', 'circ'), n))
        for n in consts + names:
            v = env[n]
            if v.stale:
                fail(s, f'{n} is stale at the loop')
            if not is_ident(v.code) or v.ty not in COQ_TY:
                fail(s, f'{n} cannot be passed to the loop function')
            if v.label is not None and v.label not in [env[m].code for m in consts]:
                fail(s, f'the label of {n} is not available inside the loop')
        self.nloops += 1
        key = id(s)
        if key not in self.loop_names:
            self.loop_names[key] = f'{self.fn.coqname}_loop{len(self.loop_names) + 1}'
        loopname = self.loop_names[key]
        fuel = self.alloc_fuel(s)[0]
        const_codes = [env[n].code for n in consts]

        def kloop(e):
            for n in names:
                if e[n].ty != env[n].ty or e[n].kind != env[n].kind:
                    fail(s, f'{n} changes type inside the loop')
            return ' '.join([loopname, 'fuel'] + const_codes + [e[n].code for n in names])
        before = set(self.fn.effects)
        body = self.loop_body(s.body, dict(env), K(kloop, True, False))
        if set(self.fn.effects) != before:
            fail(s, 'the body of a while loop may not write the circuit')
        binders = ' '.join(f'({env[n].code} : {COQ_TY[env[n].ty]})' for n in consts + names)
        rty = ' * '.join(ty_paren(COQ_TY[env[n].ty]) for n in names) if names else 'unit'
        done = self.ok(tuple_of([env[n].code for n in names]))
        text = '\n'.join([
            f'Fixpoint {loopname} (fuel : nat) {binders} {{struct fuel}} : res ({rty}) :=',
            '  match fuel with',
            '  | O => Err OutOfFuel',
            '  | S fuel =>',
            f'    match {q.code} with',
            f'    | [] => {done}',
            '    | _ :: _ =>',
            ind(body, 6),
            '    end',
            '  end.', ''])
        lf = Fn(loopname, loopname)
        lf.text, lf.closures = text, []
        self.pre_defs = [d for d in self.pre_defs if d.coqname != loopname] + [lf]
        pat = pat_of([env[n].code for n in names])
        call = ' '.join([loopname, fuel] + const_codes + [env[n].code for n in names])
        return '\n'.join([f'do {pat} <- {call};', kr.emit(env)])

    # ---- loops
    @staticmethod
    def is_enum_update(s):
        return (len(s.body) == 1 and isinstance(s.body[0], ast.If) and not s.body[0].orelse
                and len(s.body[0].body) == 1 and isinstance(s.body[0].body[0], ast.Assign)
                and len(s.body[0].body[0].targets) == 1 and isinstance(s.body[0].body[0].targets[0], ast.Subscript))

    def iterable(self, node, env, pre):
        v = self.iter_val(node, env, pre)
        if v.ty in ('sts', 'stss', 'boolvecs', 'labelset') or v.ty in PAIR_ITER:
            fail(node, f'loop over {v.ty}')
        if v.ty not in ('labels', 'nats', 'gatepairs', 'blockpairs'):
            fail(node, f'loop over {v.ty}')
        return v

    def for_(self, s, env, kr):
        if not s.orelse and isinstance(s.target, ast.Tuple) and not (self.enumerate_arg(s.iter, env) is not None
                                                                     and self.is_enum_update(s)):
            self.check_loop_body(s)
            pre = []
            arg = self.enumerate_arg(s.iter, env)
            if arg is not None:
                xs = self.typed_val(arg, env, pre, 'labels')
                it = Val(f'(enumerate {self.atom(xs)})', 'enumpairs', xs.alias)
            else:
                it = self.iter_val(s.iter, env, pre)
            if it.ty not in PAIR_ITER:
                fail(s, 'loop with a tuple target must iterate enumerate(L) or d.items()')
            xc, _ = self.bind_target(s.target, it, env, s)
            return self.fold_loop(s, env, kr, pre, it, xc, lambda: self.bind_target(s.target, it, env, s)[1])
        if not s.orelse and isinstance(s.target, ast.Name):
            save = self.tmp
            probe = self.iter_val(s.iter, env, [])
            self.tmp = save
            if probe.ty in ('boolvecs', 'stss'):
                self.check_loop_body(s)
                pre = []
                it = self.iter_val(s.iter, env, pre)
                xc, _ = self.bind_target(s.target, it, env, s)
                return self.fold_loop(s, env, kr, pre, it, xc, lambda: self.bind_target(s.target, it, env, s)[1])
        return super().for_(s, env, kr)

    # ---- assignments
    def assign(self, s, env, kr):
        if isinstance(s, ast.Assign):
            if len(s.targets) != 1:
                fail(s, 'multiple assignment')
            tgt, val, ann = s.targets[0], s.value, None
        else:
            tgt, val, ann = s.target, s.value, s.annotation
            if val is None:
                fail(s, 'annotation without value')
        if isinstance(tgt, ast.Name):
            name = tgt.id
            # the new circuit of a builder
            if self.builder and name == self.builder:
                if not self.is_new_circuit(val):
                    fail(s, 'assignment to the state variable')
                return '\n'.join([f'let {env[name].code} := empty_circuit in', kr.emit(env)])
            if self.is_new_circuit(val):
                fail(s, 'Circuit() outside the builder form')
            # f = (lambda p: A) if c else (lambda p: B)
            if isinstance(val, ast.Lambda) or (isinstance(val, ast.IfExp) and any(
                    isinstance(n, ast.Lambda) for n in (val.body, val.orelse))):
                return self.define_lambda(s, name, val, env, kr)
            if name in env and env[name].kind in ('self', 'bself', 'circ', 'fn', 'lam'):
                fail(s, 'assignment to the state variable / a function')
            code = self.vname(tgt, name)
            # x = self.<mutator that returns a value>(...)
            if isinstance(val, ast.Call):
                c = self.callee_of(val, env)
                if c is not None and c[1].mutates and c[1].monadic and c[1].ret_ty == 'block' and c[0] == 'method' \
                        and env[c[2].id].kind == 'self' and name not in env:
                    callee = c[1]
                    pre = []
                    ccode, _ = self.call_code(c, val, env, pre)
                    self.effects_of_call(callee, env)
                    label = self._last_args[callee.ret_label_param] if callee.ret_label_param is not None else None
                    sc = env[self.self_py].code
                    env2 = dict(env)
                    env2[name] = Var(code, 'block', 'local', {'blocks.content'}, label)
                    return '\n'.join(self.emit_pre(pre) + [f'do ({sc}, {code}) <- {ccode};', kr.emit(env2)])
            # {} typed by its annotation
            if isinstance(val, ast.Dict) and not val.keys:
                ty = self.annotation_type(ann, s) if ann is not None else None
                if ty not in LOCAL_DICT:
                    fail(s, 'an empty dict needs a dict annotation')
                if name in env:
                    fail(s, f'rebinding of {name}')
                env2 = dict(env)
                env2[name] = Var(code, ty, 'mutlocal')
                return '\n'.join([f'let {code} := [] in', kr.emit(env2)])
            save = (self.tmp,)
            pre = []
            v = self.expr(val, env, pre)
            if v.ty in LOCAL_DICT or v.ty == 'labelset' or (v.ty == 'label' and name in env) \
                    or v.ty in ('st', 'sts', 'stss', 'bool', 'ddict?', 'gatedict', 'statedict', 'int', 'events'):
                if name in env:
                    old = env[name]
                    if not (old.kind == 'local' and old.ty == v.ty == 'label'):
                        fail(s, f'rebinding of {name}')
                    # a scalar may be rebound only when nothing else mentions its Coq name
                    for m, o in env.items():
                        if m != name and (re.search(rf'\b{re.escape(old.code)}\b', o.code or '')
                                          or (o.label and re.search(rf'\b{re.escape(old.code)}\b', o.label))):
                            fail(s, f'{name} is rebound while {m} depends on it')
                fresh = not v.alias and self.is_fresh_value(val, env)
                kind = 'mutlocal' if fresh and (v.ty in LOCAL_DICT or v.ty in ('labelset', 'ddict?', 'statedict')) \
                    else 'local'
                if v.ty == 'gatedict' and not (self.is_module_attr(getattr(val, 'func', None), 'copy', 'copy', env)):
                    fail(s, 'a local gate dict must be a copy.copy(...) snapshot')
                env2 = dict(env)
                env2[name] = Var(code, v.ty, kind, v.alias, v.label)
                return '\n'.join(self.emit_pre(pre) + [f'let {code} := {v.code} in', kr.emit(env2)])
            self.tmp = save[0]
            return super().assign(s, env, kr)
        # d[k] = v on a local dict
        if isinstance(tgt, ast.Subscript) and isinstance(tgt.value, ast.Name) and tgt.value.id in env \
                and env[tgt.value.id].ty == 'statedict':
            d = self.lookup(tgt.value, env)
            if d.kind != 'mutlocal':
                fail(s, f'{tgt.value.id} is not a mutable local dict')
            pre = []
            v = self.typed(val, env, pre, 'tstate')
            k = self.typed(tgt.slice, env, pre, 'label')
            return '\n'.join(self.emit_pre(pre) + [f'let {d.code} := dset {d.code} {k} {v} in', kr.emit(env)])
        if isinstance(tgt, ast.Subscript) and isinstance(tgt.value, ast.Name) and tgt.value.id in env \
                and env[tgt.value.id].ty in LOCAL_DICT:
            d = self.lookup(tgt.value, env)
            if d.kind != 'mutlocal':
                fail(s, f'{tgt.value.id} is not a mutable local dict')
            pre = []
            v = self.expr(val, env, pre)            # Python: value first, then the key
            k = self.typed(tgt.slice, env, pre, 'label')
            vty, vcode = self.dict_value(v, s)
            if vty != LOCAL_DICT[d.ty]:
                fail(s, f'value of type {v.ty} stored into a {d.ty}')
            return '\n'.join(self.emit_pre(pre) + [f'let {d.code} := dset {d.code} {k} {vcode} in', kr.emit(env)])
        return super().assign(s, env, kr)

    def is_fresh_list(self, node, env):
        if isinstance(node, ast.Name) and node.id in env and getattr(env[node.id], 'owned', False):
            return True
        return super().is_fresh_list(node, env)

    def is_fresh_value(self, node, env):
        """syntactically a new dict / set object"""
        if isinstance(node, (ast.DictComp, ast.SetComp)):
            return True
        if isinstance(node, ast.Dict) and not node.keys:
            return True
        if isinstance(node, ast.Call):
            f = node.func
            if isinstance(f, ast.Name) and f.id in ('dict', 'set') and f.id not in env:
                return True
            if self.is_module_attr(f, 'copy', 'copy', env) or self.is_module_attr(f, 'collections', 'defaultdict', env):
                return True
            c = self.callee_of(node, env)
            return c is not None and not c[1].ret_alias and c[1].ret_fresh
        return False

    def define_lambda(self, s, name, val, env, kr):
        ok = (isinstance(val, ast.IfExp) and isinstance(val.test, ast.Name) and val.test.id in env
              and env[val.test.id].kind == 'param' and env[val.test.id].ty == 'bool'
              and isinstance(val.body, ast.Lambda) and isinstance(val.orelse, ast.Lambda))
        if not ok or name in env:
            fail(s, 'lambda outside the form `f = (lambda p: A) if <bool parameter> else (lambda p: B)`')
        params = []
        for lam in (val.body, val.orelse):
            a = lam.args
            if a.posonlyargs or a.kwonlyargs or a.vararg or a.kwarg or a.defaults or len(a.args) != 1:
                fail(s, 'lambda signature')
            params.append(a.args[0].arg)
            for n in ast.walk(lam.body):
                if isinstance(n, ast.Name) and n.id != a.args[0].arg and n.id != 'len':
                    if n.id not in env or env[n.id].kind not in ('self', 'circ', 'param'):
                        fail(n, 'a lambda may mention only self, parameters and its own parameter')
                if isinstance(n, (ast.Lambda, ast.Yield, ast.NamedExpr)):
                    fail(n, 'lambda body outside grammar')
        if params[0] != params[1] or params[0] in env:
            fail(s, 'the two lambdas must use the same fresh parameter name')
        var = Var('', 'unit', 'lam')
        var.lam = (val.test.id, params[0], val.body.body, val.orelse.body)
        env2 = dict(env)
        env2[name] = var
        return kr.emit(env2)

    # ---- statements that are calls
    def call_stmt(self, call, env, kr):
        f = call.func
        # d[k].append(v) on a collections.defaultdict(list)
        if isinstance(f, ast.Attribute) and f.attr == 'append' and isinstance(f.value, ast.Subscript) \
                and isinstance(f.value.value, ast.Name) and f.value.value.id in env \
                and env[f.value.value.id].ty in ('ddict?', 'stsdict', 'labelsdict') and len(call.args) == 1 \
                and not call.keywords:
            d = self.lookup(f.value.value, env)
            if d.kind != 'mutlocal':
                fail(call, 'append through a dict that is not a local defaultdict')
            pre = []
            k = self.typed(f.value.slice, env, pre, 'label')
            v = self.expr(call.args[0], env, pre)
            if v.ty not in DDICT_OF:
                fail(call, f'defaultdict(list) of {v.ty}')
            if d.ty == 'ddict?':
                d.ty = DDICT_OF[v.ty]          # the element type is fixed by the first append
            if d.ty != DDICT_OF[v.ty]:
                fail(call, 'defaultdict(list) with elements of two types')
            return '\n'.join(self.emit_pre(pre) + [f'let {d.code} := ddict_append {d.code} {k} {self.atom(v)} in',
                                                   kr.emit(env)])
        # self._gate_to_users[k].extend(<list>)
        if isinstance(f, ast.Attribute) and f.attr == 'extend' and len(call.args) == 1 and not call.keywords \
                and self.users_item(f.value, env) is not None:
            pre = []
            k = self.typed(f.value.slice, env, pre, 'label')
            sc = env[self.self_py].code
            t = self.fresh()
            pre.append((t, f'dget_res (users {sc}) {k}'))
            e = self.typed(call.args[0], env, pre, 'labels')
            self.effect('users.content', env)
            return '\n'.join(self.emit_pre(pre)
                             + [self.set_field(env, '_gate_to_users', f'(dset (users {sc}) {k} ({t} ++ {e}))'),
                                kr.emit(env)])
        # convert_gate(g, self) of converters.py
        if self.is_convert_gate(call, env):
            if len(call.args) != 2 or call.keywords or '<fresh>' not in env:
                fail(call, 'convert_gate call outside grammar')
            pre = []
            g = self.expr(call.args[0], env, pre)
            st = call.args[1]
            if g.ty != 'gate' or g.label is None or not (isinstance(st, ast.Name) and st.id in env
                                                       and env[st.id].kind == 'self'):
                fail(call, 'convert_gate must be called as convert_gate(<gate of known label>, self)')
            for comp in ('inputs', 'outputs', 'gates', 'users', 'users.content', 'blocks', 'blocks.content'):
                self.effect(comp, env)
            sc, fc = env[self.self_py].code, env['<fresh>'].code
            return '\n'.join(self.emit_pre(pre)
                             + [f'do ({sc}, {fc}) <- convert_gate_fresh {sc} {fc} {g.label} {self.atom(g)};',
                                kr.emit(env)])
        if isinstance(f, ast.Attribute) and isinstance(f.value, ast.Name) and f.value.id in env \
                and env[f.value.id].kind == 'mutlocal' and not call.keywords:
            v = self.lookup(f.value, env)
            if v.ty == 'labelset' and f.attr == 'add' and len(call.args) == 1:
                pre = []
                e = self.typed(call.args[0], env, pre, 'label')
                return '\n'.join(self.emit_pre(pre) + [f'let {v.code} := set_add {v.code} {e} in', kr.emit(env)])
            if v.ty in LOCAL_DICT and f.attr == 'setdefault' and len(call.args) == 2:
                pre = []
                k = self.typed(call.args[0], env, pre, 'label')
                d = self.expr(call.args[1], env, pre)
                vty, vcode = self.dict_value(d, call)
                if vty != LOCAL_DICT[v.ty]:
                    fail(call, 'setdefault value type')
                return '\n'.join(self.emit_pre(pre) + [f'let {v.code} := dsetdefault {v.code} {k} {vcode} in',
                                                       kr.emit(env)])
            if v.ty == 'labels' and f.attr == 'pop':
                pre = []
                self.call(call, env, pre)
                pre[-1] = (pre[-1][0].replace(pre[-1][0].split(',')[0], '(_', 1), pre[-1][1])
                return '\n'.join(self.emit_pre(pre) + [kr.emit(env)])
        return super().call_stmt(call, env, kr)

    # ------------------------------------------------------------ whole function
    def translate(self):
        fn, f = self.fn, self.src
        env = {}
        self.signature(env)
        body = strip_docstring(f.body)
        if not body:
            fail(f, 'empty body')
        for n in ast.walk(f):
            if isinstance(n, self.FORBIDDEN):
                fail(n, 'construct outside grammar')
        self.is_gen = any(isinstance(n, ast.Yield) for n in ast.walk(f))
        if fn.hooks:
            env['<abort>'] = Var('abort', 'abortfn', 'param')
        if self.is_gen:
            if self.builder or self.is_property:
                fail(f, 'generator form')
            if fn.hooks:
                env['<log>'] = Var('log', 'events', 'mutlocal')
            else:
                env['<yield>'] = Var('yielded', 'gatepairs', 'mutlocal')
        if self.kwarg is not None:
            uses = [n for n in ast.walk(f) if isinstance(n, ast.Name) and n.id == self.kwarg]
            fwd = [k.value for n in ast.walk(f) if isinstance(n, ast.Call) for k in n.keywords if k.arg is None]
            if any(u not in fwd for u in uses):
                fail(f, '**kwargs may only be forwarded')
        fn.uses_fresh = any((isinstance(n, ast.Call) and self.is_convert_gate(n, env)) or self.is_uuid_hex(n, env)
                            for n in ast.walk(f))
        if fn.uses_fresh:
            if self.is_gen or self.builder or self.outer is not None:
                fail(f, 'convert_gate in this kind of function')
            env['<fresh>'] = Var('fresh', 'strings', 'mutlocal')
        ms = self.modset(body, env)
        fn.mutates = self.self_py in ms or bool(self.builder)
        if fn.mutates and not self.self_writable:
            fail(f, 'writes through a read-only circuit')
        if self.is_gen and fn.mutates:
            fail(f, 'a generator may not write the circuit')
        if len(body) == 1 and isinstance(body[0], ast.Return) and body[0].value is not None and not fn.mutates \
                and not self.is_gen:
            pre = []
            save = self.tmp
            try:
                v = self.expr(body[0].value, env, pre)
            except TranslatorError:
                pre = [None]
            if not pre and v.ty not in ('circuit', 'unit') and not fn.fuel_names:
                fn.monadic, fn.ret_ty, fn.ret_alias = False, v.ty, v.alias
                fn.ret_fresh = not v.alias and self.is_fresh_list(body[0].value, env)
                fn.text = f'Definition {fn.coqname} {self.binders()} : {fn.result_coq_ty()} :=\n  {v.code}.\n'
                return fn
            self.tmp = save
            self.fuel_sites, fn.fuel_names, fn.fuel_kinds = {}, [], {}
        if self.is_property:
            fail(f, 'a property must be a single `return <pure expression>`')
        code = self.stmts(body, env, K(lambda e: self.fallthrough(e), True, True))
        if self.is_gen:
            code = ('let log := [] in\n' if fn.hooks else 'let yielded := [] in\n') + code
        vals = [v for kind, v in self.returns if kind == 'value']
        kinds = {kind for kind, _ in self.returns}
        if self.is_gen:
            if vals or 'self' in kinds:
                fail(f, 'a generator may only use a bare return')
            fn.ret_ty, fn.returns_self, fn.ret_fresh = ('events' if fn.hooks else 'gatepairs'), False, True
        elif vals:
            tys = {v.ty for v in vals}
            if len(tys) != 1 or kinds - {'value'}:
                fail(f, f'inconsistent return statements: {sorted(tys)} {sorted(kinds)}')
            fn.ret_ty = tys.pop()
            if fn.ret_ty in ('circuit', 'unit'):
                fail(f, 'returned value outside grammar')
            fn.ret_alias = frozenset().union(*[v.alias for v in vals])
            labs = {v.label for v in vals}
            if fn.ret_ty in ('gate', 'block') and len(labs) == 1 and None not in labs:
                lab = labs.pop()
                for i, (p, _ty, _d, _nl) in enumerate(fn.params):
                    if lab == 'v_' + p:
                        fn.ret_label_param = i
            rets = [n for n in ast.walk(f) if isinstance(n, ast.Return) and n.value is not None]
            fn.ret_fresh = not fn.ret_alias and all(self.is_fresh_ret(r.value, body) for r in rets)
        else:
            if 'self' in kinds and 'none' in kinds:
                fail(f, 'mixes `return self` with falling off the end')
            fn.ret_ty = 'unit'
            fn.returns_self = 'self' in kinds
            fn.ret_fresh = False
        fn.text = f'Definition {fn.coqname} {self.binders()} : {fn.result_coq_ty()} :=\n{ind(code)}.\n'
        fn.closures = list(self.pre_defs)
        return fn

    def is_fresh_ret(self, node, body):
        if isinstance(node, ast.Name):
            assigns = [s for s in ast.walk(self.src) if isinstance(s, (ast.Assign, ast.AnnAssign))
                       and any(isinstance(t, ast.Name) and t.id == node.id
                               for t in (s.targets if isinstance(s, ast.Assign) else [s.target]))]
            if assigns and all(self.is_fresh_value(s.value, {}) for s in assigns) \
                    and node.id not in [p[0] for p in self.fn.params]:
                return True
        return super().is_fresh_ret(node, body)


def translate():
    u = AlgoUnit()
    for modkey, name in ALGOS:
        u.get(modkey, name)
    parts = [HEADER]
    emitted = set()

    def emit(fn):
        if fn.coqname in emitted or fn.coqname in u.core_names:
            return
        emitted.add(fn.coqname)
        for d in fn.closures:
            emit(d)
        parts.append(fn.text)

    for fn in u.order:
        emit(fn)
    text = '\n'.join(parts)
    return {'Generated/CircuitAlgos.v': write_if_changed('Generated/CircuitAlgos.v', text)}


if __name__ == '__main__':
    print(translate())
