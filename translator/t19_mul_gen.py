"""T19: the generator ALGORITHMS of property C08 -> Generated/ArithGen08.v

  cirbo/synthesis/generation/arithmetics/multiplication.py   add_mul, add_mul_alter, add_mul_pow2_m1,
                                                              last_step_sum_with_new_powers_sum, add_mul_karatsuba,
                                                              add_mul_karatsuba_with_efficient_sum, add_mul_dadda,
                                                              add_mul_wallace (grammar of translator/t22_wallace.py),
                                                              MulMode, _process_mul, generate_mul
  cirbo/synthesis/generation/arithmetics/square.py           add_square_pow2_m1, add_square, SquareMode,
                                                              _process_square, generate_square
  cirbo/synthesis/generation/arithmetics/_utils.py           reverse_if_big_endian

Built on T14 (translator/t14_arith_gen.py: MulFnTr(FnTr), MulWrapTr(WrapTr), MulMod(Mod), MulUnit(Unit)); read its
docstring first: the target is the builder monad `prog` of Model/Builder.v, every function `f` becomes `gen_f`, derived
statement by statement, Python ints are Z, in-place list updates rebind the variable under the ownership discipline,
sub-expressions are evaluated left to right into temporaries.  Proofs/ArithGen08*.v proves `gen_f` extensionally equal
to the hand model of Model/ArithMul.v / ArithSquare.v.  Anything outside the grammar raises TranslatorError.

What is NOT re-derived here (used exactly as the hand models use it):
  the primitives of T14 (add_gate_from_tt, generate_random_label: bodies checked by T4)
  add_sum2 / add_sum3                                 -> Generated/ArithCells.v (T4)
  add_sum_two_numbers, add_sum_two_numbers_with_shift, add_sum_n_bits, add_sum_n_weighted_bits, add_sum_pow2_m1
                                                      -> the hand models of property C07 (Model/ArithSum*.v) through the
                                                         adaptors of Model/PyPrims08.v; only the SIGNATURE is read: the
                                                         parameter list is compared literally with the text the adaptor
                                                         stands for (EXTERNAL)
  add_sub_two_numbers                                 -> the hand model of property C09 (Model/ArithSub.v), same way
  MulMode / SquareMode                                -> the constructors of mul_mode / square_mode (Model/ArithMul.v,
                                                         ArithSquare.v); the class bodies are compared member by member

Grammar added to T14's:
  <stmt> ::= <chain>[<int expr>] = <expr>              <chain> ::= <name> | <chain>[<int expr>]: the value (a label, or a
                                                       FRESH list) is evaluated first, then the containers are read from
                                                       the outside in (py_nth), the innermost is updated (py_set) and
                                                       written back: c[i][j] = v
           | <chain>.append(<expr>)                    the receiver is read first, then the argument is evaluated
           | <name> += <list expr>                     (owned list)
           | <n1>, <n2> = <n2>, <n1>                   swap of two variables
           | <name>: <list annotation> = <expr>
           | if <test that may raise>: ...             the test is evaluated into a temporary first
           | while <test>: ...                         any Boolean test, which may raise (py_while_m); the FUEL is the
                                                       value at loop entry of the expression given in WHILE_FUEL
                                                       (the hand model's fuel), else |a - b| for `a < b`, `a > b`, `a != b`
  <expr> ::= [] | collections.deque()                  an empty list whose element type is found at its first use
           | (<e1>, <e2>)  |  <pair>[0] <pair>[1]
           | <e1> if <pure test> else <e2>             branches may have effects
           | [<e> for <p> in <it>]                     e may raise: mapP;  [e for p in it if <pure test>]: py_filter;
             [<e> for <p1> in <it1> for <p2> in <it2>] concat of the nested mapP
           | a < b < c (pure operands), <int> in [<literals>], min(a, b), max(a, b)
           | <chain>.popleft()                         only as an element of a list display or as the argument of
                                                       append: py_popleft, the container is written back
  a function that calls itself is a Fixpoint on fuel (`gen_f_rec fuel ...`, every nested call gets the predecessor)
  and `gen_f` runs it with the fuel expression of REC_FUEL (the hand model's fuel).
  _process_mul / _process_square (dict literal from every enum member to a function) -> a `match` on the mode;
  generate_mul / generate_square: T14's wrapper grammar with `_process_x[type](circuit, ...)` as the one call.

Aliasing, beyond T14's discipline: the inner lists of a nested list are never shared - a list-valued element can only
be stored if it is fresh, `l * n` is refused for a list of lists, a non-fresh list obtained by indexing can be passed
on, iterated, measured or concatenated but not bound to a variable; a term computed before a popleft may not mention
the mutated variable.
"""
import ast

from .common import TranslatorError, fail, parse, strip_docstring, write_if_changed, guard_module
from . import t4_arith
from . import t14_arith_gen as t14
from .t14_arith_gen import (E, Var, Env, Sig, TList, TTup, LABEL, INT, BOOL, UNIT, STATE, STRC, LABELS,
                            is_list, is_tuple, is_opt, has_list, tuple_term, tuple_pat, paren, indent, root_name,
                            none_test, contains, assigned, terminates)

PKG = t14.PKG
t14.MODULES.update({
    'mul': ('cirbo.synthesis.generation.arithmetics.multiplication', PKG + 'arithmetics/multiplication.py'),
    'sq': ('cirbo.synthesis.generation.arithmetics.square', PKG + 'arithmetics/square.py'),
    'helpers': ('cirbo.synthesis.generation.helpers', PKG + 'helpers.py'),
})
MODULES = t14.MODULES

WEIGHT, BASIS, MULMODE, SQMODE = 'weight', 'basis', 'mul_mode', 'square_mode'
WITEMS = TList(TTup([WEIGHT, LABEL]))
ITER = 'tp.Iterable[gate.Label]'

# (module key, function): ALL must translate; emitted in this (dependency) order
FUNCS = [
    ('utils', 'reverse_if_big_endian'),
    ('mul', 'add_mul'), ('mul', 'add_mul_alter'), ('mul', 'add_mul_pow2_m1'),
    ('mul', 'last_step_sum_with_new_powers_sum'),
    ('mul', 'add_mul_karatsuba'), ('mul', 'add_mul_karatsuba_with_efficient_sum'),
    ('mul', 'add_mul_dadda'), ('mul', 'add_mul_wallace'),
    ('sq', 'add_square_pow2_m1'), ('sq', 'add_square'),
]
# functions with nested closures: translated by WalFnTr of translator/t22_wallace.py (a subclass of MulFnTr, imported
# lazily by MulUnit.run because that module imports this one)
CLOSURE_FUNCS = {('mul', 'add_mul_wallace')}
DISPATCH = [('mul', '_process_mul', 'MulMode'), ('sq', '_process_square', 'SquareMode')]
WRAPPERS = [('mul', 'generate_mul'), ('sq', 'generate_square')]

# enum classes: member -> constructor of the hand model's type
ENUMS = {
    ('mul', 'MulMode'): (MULMODE, {'DEFAULT': 'MDefault', 'KARATSUBA': 'MKaratsuba', 'ALTER': 'MAlter',
                                   'DADDA': 'MDadda', 'WALLACE': 'MWallace', 'POW2_M1': 'MPow2m1'}),
    ('sq', 'SquareMode'): (SQMODE, {'DEFAULT': 'SDefault', 'POW2_M1': 'SPow2m1'}),
    ('helpers', 'GenerationBasis'): (BASIS, {'XAIG': '(BEnum XAIG)', 'AIG': '(BEnum AIG)'}),
}


class PreTerm(ast.AST):
    """a default value given as a Coq term"""
    _fields = ()

    def __init__(self, term, ty):
        super().__init__()
        self.term, self.ty = term, ty


FALSE = ast.Constant(value=False)
XAIG = PreTerm('(BEnum XAIG)', BASIS)
BE = ('big_endian', BOOL, FALSE, True)
# functions used but not re-derived: (module key, name) -> (Coq name, parameter text, params, result type)
EXTERNAL = {
    ('sum', 'add_sum2'): ('add_sum2', f'circuit: Circuit, input_labels: {ITER}',
                          [('input_labels', LABELS, None, False)], LABELS),
    ('sum', 'add_sum3'): ('add_sum3', f'circuit: Circuit, input_labels: {ITER}',
                          [('input_labels', LABELS, None, False)], LABELS),
    ('sum', 'add_sum_two_numbers'): (
        'add_sum_two_numbers',
        f'circuit: Circuit, input_labels_a: {ITER}, input_labels_b: {ITER}, *, big_endian: bool=False',
        [('input_labels_a', LABELS, None, False), ('input_labels_b', LABELS, None, False), BE], LABELS),
    ('sum', 'add_sum_two_numbers_with_shift'): (
        'py_add_sum_two_numbers_with_shift',
        f'circuit: Circuit, shift, input_labels_a: {ITER}, input_labels_b: {ITER}, *, big_endian: bool=False',
        [('shift', INT, None, False), ('input_labels_a', LABELS, None, False), ('input_labels_b', LABELS, None, False),
         BE], LABELS),
    ('sum', 'add_sum_n_bits'): (
        'py_add_sum_n_bits',
        f'circuit: Circuit, input_labels: {ITER}, *, basis: tp.Union[str, GenerationBasis]=GenerationBasis.XAIG, '
        'big_endian: bool=False',
        [('input_labels', LABELS, None, False), ('basis', BASIS, XAIG, True), BE], LABELS),
    ('sum', 'add_sum_n_weighted_bits'): (
        'py_add_sum_n_weighted_bits',
        'circuit, input_labels_with_pow, *, basis: tp.Union[str, GenerationBasis]=GenerationBasis.XAIG',
        [('input_labels_with_pow', TList(TTup([INT, LABEL])), None, False), ('basis', BASIS, XAIG, True)], WITEMS),
    ('sum', 'add_sum_pow2_m1'): (
        'py_add_sum_pow2_m1',
        f'circuit: Circuit, input_labels: {ITER}, *, big_endian: bool=False, '
        'basis: tp.Union[str, GenerationBasis]=GenerationBasis.XAIG',
        [('input_labels', LABELS, None, False), BE, ('basis', BASIS, XAIG, True)], TList(LABELS)),
    ('sub', 'add_sub_two_numbers'): (
        'add_sub_two_numbers',
        f'circuit: Circuit, input_labels_a: {ITER}, input_labels_b: {ITER}, *, big_endian: bool=False',
        [('input_labels_a', LABELS, None, False), ('input_labels_b', LABELS, None, False), BE], LABELS),
}

# the fuel of the hand model for every `while` of a translated function, as a Python expression evaluated at loop
# entry: (function, index of the loop in source order) -> expression
WHILE_FUEL = {
    ('add_mul_dadda', 0): 'min(n, m)',          # dadda_start (Nat.min n m)
    ('add_mul_dadda', 1): 'di + 1',             # dadda_main (S di)
    ('add_mul_dadda', 2): 'len(c[i])',          # reduce_col (length cur)
}
# the fuel of the hand model for a function that calls itself, over its parameters
REC_FUEL = {
    'add_mul_karatsuba': 'max(len(input_labels_a), len(input_labels_b)) + 1',                      # kara_fuel
    'add_mul_karatsuba_with_efficient_sum': 'max(len(input_labels_a), len(input_labels_b)) + 1',   # kara_fuel
    'add_square': 'len(input_labels) + 1',                                                          # add_square
}

RESERVED = t14.RESERVED | {
    'concat', 'flat_map', 'mapP', 'filter', 'fuel', 'BEnum', 'XAIG', 'AIG', 'add_sum2', 'add_sum3',
    'add_sum_two_numbers', 'add_sub_two_numbers', 'add_mul_wallace', 'O', 'S', 'OutOfFuel', 'N', 'struct',
    'mul_mode', 'square_mode', 'basis_arg', 'witem',
} | {c for _t, tab in ENUMS.values() for c in tab.values() if c.isidentifier()}


class Retry(Exception):
    """the element type of an empty list display has been found: translate the function again"""

    def __init__(self, key, ty):
        super().__init__(key, ty)
        self.key, self.ty = key, ty


def is_unknown(t):
    return isinstance(t, tuple) and t[0] == 'unknown'


def has_unknown(t):
    if is_unknown(t):
        return True
    if is_list(t) or is_opt(t):
        return has_unknown(t[1])
    if is_tuple(t):
        return any(has_unknown(x) for x in t[1])
    return False


t14.EXTRA_TYPES.update({WEIGHT: 'N', BASIS: 'basis_arg', MULMODE: 'mul_mode', SQMODE: 'square_mode'})
coq_ty = t14.coq_ty


def bound_names(binds):
    """program variables (not temporaries) rebound by a sequence of monadic bindings: the lists they mutate"""
    out = set()
    for line in binds:
        s = line.strip()
        if not s.startswith('bdo ') or ' <- ' not in s:
            continue
        pat = s[4:s.index(' <- ')]
        for tok in pat.replace('(', ' ').replace(')', ' ').replace(',', ' ').split():
            if tok != '_' and not tok.startswith("tmp'"):
                out.add(tok)
    return out


def tokens(term):
    out, cur = set(), ''
    for ch in term + ' ':
        if ch.isalnum() or ch in "_'":
            cur += ch
        else:
            if cur:
                out.add(cur)
            cur = ''
    return out


# ------------------------------------------------------------------ modules
class MulMod(t14.Mod):
    """T14's module grammar plus: `class X(enum.Enum)` with members NAME = "NAME" (listed in ENUMS), and an annotated
    module-level dict display `_process_x: dict[...] = {...}`"""

    def __init__(self, key):
        self.enums, self.dicts = {}, {}
        super().__init__(key)

    def extra_top(self, node, bind):
        if isinstance(node, ast.ClassDef):
            if (self.key, node.name) not in ENUMS:
                return False
            if node.decorator_list or node.keywords or [ast.unparse(b) for b in node.bases] != ['enum.Enum'] \
                    or self.imports.get('enum') != ('enum', None):
                fail(node, f'`class {node.name}(enum.Enum)` with `import enum` expected')
            members = []
            for st in strip_docstring(node.body):
                if isinstance(st, ast.Expr) and isinstance(st.value, ast.Constant) and isinstance(st.value.value, str):
                    continue
                if not (isinstance(st, ast.Assign) and len(st.targets) == 1 and isinstance(st.targets[0], ast.Name)
                        and isinstance(st.value, ast.Constant) and st.value.value == st.targets[0].id):
                    fail(st, f'{node.name}: members of the form NAME = "NAME" expected')
                members.append(st.targets[0].id)
            want = ENUMS[(self.key, node.name)][1]
            if sorted(members) != sorted(want) or len(set(members)) != len(members):
                fail(node, f'{node.name}: the members must be exactly {sorted(want)}')
            bind(node.name, node)
            self.enums[node.name] = members
            return True
        if isinstance(node, ast.AnnAssign) and isinstance(node.target, ast.Name) and isinstance(node.value, ast.Dict) \
                and node.simple:
            bind(node.target.id, node)
            self.dicts[node.target.id] = node.value
            self.consts[node.target.id] = node.value
            return True
        return False


# ------------------------------------------------------------------ one function
class MulFnTr(t14.FnTr):
    def __init__(self, unit, mod, fdef, empties=None):
        super().__init__(unit, mod, fdef)
        self.empties = dict(empties or {})
        self.nwhile = 0
        self.pop_ok = 0
        for n in self.locals:
            if n.endswith('_py') and n[:-3] in RESERVED:
                fail(fdef, f'identifier {n!r} collides with the generated vocabulary')

    @staticmethod
    def cn(name):
        if name == '_':
            return '_'
        return name + '_py' if name in RESERVED else name

    # -- types
    def unify(self, have, want, node):
        """`have` must be `want`; an unknown element type inside `have` is resolved by translating again"""
        if have == want:
            return
        if is_unknown(have) and not has_unknown(want):
            raise Retry(have[1], want)
        if is_unknown(want) and not has_unknown(have):
            raise Retry(want[1], have)
        if is_list(have) and is_list(want):
            return self.unify(have[1], want[1], node)
        if is_tuple(have) and is_tuple(want) and len(have[1]) == len(want[1]):
            for a, b in zip(have[1], want[1]):
                self.unify(a, b, node)
            return
        fail(node, f'expected a value of type {want}, got {have}')

    def ann_type(self, ann, default):
        if ann is not None:
            src = ast.unparse(ann)
            for (key, cls), (ty, _tab) in ENUMS.items():
                if src == cls and ty != BASIS:
                    if self.enum_origin(cls) != (MODULES[key][0], cls):
                        fail(ann, f'{cls} must be the class of {MODULES[key][0]}')
                    return ty
        return super().ann_type(ann, default)

    def list_ann(self, ann):
        src = ast.unparse(ann)
        if src == 'list[gate.Label]':
            self.need_core('gate', ann)
            return LABELS
        if src == 'list[tp.Deque[str]]':
            self.need_typing(ann)
            return TList(LABELS)
        fail(ann, 'annotated assignment outside the grammar')

    # -- expressions
    def val(self, node, env, binds, want=None):
        e = self.ex(node, env)
        binds.extend(e.binds)
        e.binds = []
        if want is not None and e.ty != want:
            if want == LABEL and e.ty == STRC:
                return E([], f'"{e.term}"%string', LABEL)
            self.unify(e.ty, want, node)
            e.ty = want
        return e

    def guard_siblings(self, node, parts):
        """parts: (binds, term) in evaluation order; a term may not mention a list that a later part mutates"""
        for k, (_b, term) in enumerate(parts):
            later = set()
            for b, _t in parts[k + 1:]:
                later |= bound_names(b)
            if later & tokens(term):
                fail(node, 'a value computed before an in-place update of the same list is used after it')

    def enum_origin(self, cls):
        if cls in getattr(self.mod, 'enums', {}):
            return (self.mod.dotted, cls)
        return self.mod.imports.get(cls)

    def enum_member(self, node):
        """`Cls.MEMBER` for an enum class of ENUMS -> E, else None"""
        if not (isinstance(node, ast.Attribute) and isinstance(node.value, ast.Name)):
            return None
        cls = node.value.id
        if cls in self.locals_bound:
            return None
        origin = self.enum_origin(cls)
        for (key, c), (ty, tab) in ENUMS.items():
            if c == cls and origin == (MODULES[key][0], cls):
                self.unit.mod(key)          # parses the class and compares its members with the table
                if node.attr not in tab:
                    fail(node, f'{cls} has no member {node.attr}')
                return E([], tab[node.attr], ty)
        return None

    def ex(self, node, env):
        if isinstance(node, PreTerm):
            return E([], node.term, node.ty)
        if isinstance(node, ast.List):
            if not node.elts:
                key = (node.lineno, node.col_offset)
                return E([], '[]', TList(self.empties.get(key, ('unknown', key))), True)
            return self.ex_list(node, env)
        if isinstance(node, ast.Tuple):
            if len(node.elts) != 2:
                fail(node, 'only pairs are accepted as tuple displays')
            binds, parts, es = [], [], []
            for x in node.elts:
                b = []
                e = self.val(x, env, b)
                if e.ty == STRC:
                    fail(x, 'string constant in a tuple')
                if has_list(e.ty) and not e.fresh:
                    fail(x, 'a list that is not fresh inside a tuple')
                parts.append((b, e.term))
                es.append(e)
                binds += b
            self.guard_siblings(node, parts)
            return E(binds, '(' + ', '.join(e.term for e in es) + ')', TTup([e.ty for e in es]), True)
        if isinstance(node, ast.IfExp):
            cond = self.pure(node.test, env, BOOL).term
            a, b = self.ex(node.body, env.copy()), self.ex(node.orelse, env.copy())
            if bound_names(a.binds) | bound_names(b.binds):
                fail(node, 'in-place update inside a conditional expression')
            self.unify(a.ty, b.ty, node)
            fresh = a.fresh and b.fresh
            if not a.binds and not b.binds:
                return E([], f'(if {cond} then {a.term} else {b.term})', a.ty, fresh)
            t = self.tmp()
            lines = [f'bdo {t} <- (if {cond} then'] + indent(paren(a.binds + [f'Ret {a.term}'])) + ['else'] \
                + indent(paren(b.binds + [f'Ret {b.term}']))
            lines[-1] += ');'
            return E(lines, t, a.ty, fresh)
        if isinstance(node, ast.ListComp):
            return self.ex_listcomp(node, env)
        if isinstance(node, ast.Attribute):
            e = self.enum_member(node)
            if e is not None:
                return e
        e = super().ex(node, env)
        if isinstance(node, ast.BinOp) and isinstance(node.op, ast.Mult) and is_list(e.ty) and has_list(e.ty[1]):
            fail(node, 'repetition of a list of lists (the copies would share their inner lists)')
        return e

    def ex_list(self, node, env):
        binds, parts, terms, ty = [], [], [], None
        self.pop_ok += 1
        try:
            for x in node.elts:
                b = []
                e = self.val(x, env, b)
                if e.ty == STRC:
                    e = E([], f'"{e.term}"%string', LABEL)
                if has_list(e.ty) and not e.fresh:
                    fail(x, 'a list that is not fresh as an element of a list display')
                if ty is None:
                    ty = e.ty
                else:
                    self.unify(e.ty, ty, x)
                parts.append((b, e.term))
                terms.append(e.term)
                binds += b
        finally:
            self.pop_ok -= 1
        self.guard_siblings(node, parts)
        return E(binds, '[' + '; '.join(terms) + ']', TList(ty), True)

    def ex_listcomp(self, node, env):
        gens = node.generators
        if len(gens) not in (1, 2) or any(g.is_async for g in gens) or (len(gens) == 2 and any(g.ifs for g in gens)):
            fail(node, 'comprehension outside the grammar')
        binds, env2, its, pats = [], env.copy(), [], []
        for k, g in enumerate(gens):
            b, it, ety = self.iterable(g.iter, env2)
            if b and k > 0:
                fail(node, 'the inner iterable of a comprehension may not raise')
            binds += b
            pat = self.bind_pattern(g.target, ety, env2)
            for c in g.ifs:
                cond = self.pure(c, env2, BOOL).term
                it = f'(py_filter (fun {pat} => {cond}) {it})'
            its.append(it)
            pats.append(pat)
        saved, self.pop_ok = self.pop_ok, 0
        try:
            body = self.ex(node.elt, env2)
        finally:
            self.pop_ok = saved
        if body.ty == STRC:
            fail(node, 'string constant as the element of a comprehension')
        if bound_names(body.binds):
            fail(node, 'in-place update inside a comprehension')
        if has_list(body.ty) and not body.fresh:
            fail(node, 'a list that is not fresh as the element of a comprehension')
        if not body.binds:
            if len(gens) == 1:
                return E(binds, f'(map (fun {pats[0]} => {body.term}) {its[0]})', TList(body.ty), True)
            return E(binds, f'(flat_map (fun {pats[0]} => map (fun {pats[1]} => {body.term}) {its[1]}) {its[0]})',
                     TList(body.ty), True)
        t = self.tmp()
        inner = body.binds + [f'Ret {body.term}']
        if len(gens) == 1:
            lines = [f'bdo {t} <- mapP (fun {pats[0]} =>'] + indent(inner, 4)
            lines[-1] += f') {its[0]};'
            return E(binds + lines, t, TList(body.ty), True)
        lines = [f'bdo {t} <- mapP (fun {pats[0]} =>', f'    mapP (fun {pats[1]} =>'] + indent(inner, 6)
        lines[-1] += f') {its[1]}) {its[0]};'
        return E(binds + lines, f'(concat {t})', TList(body.ty), True)

    def ex_subscript(self, node, env):
        sl = node.slice
        if not isinstance(sl, ast.Slice) and isinstance(sl, ast.Constant) and type(sl.value) is int:
            saved = self.ntmp
            base = self.ex(node.value, env)
            if is_tuple(base.ty):
                if len(base.ty[1]) != 2 or sl.value not in (0, 1):
                    fail(node, 'component of a pair expected')
                return E(base.binds, f'({"fst" if sl.value == 0 else "snd"} {base.term})', base.ty[1][sl.value])
            self.ntmp = saved
        e = super().ex_subscript(node, env)
        if has_unknown(e.ty):
            fail(node, 'element of a list whose element type is not known yet')
        return e

    def ex_compare(self, node, env):
        ops, operands = node.ops, [node.left] + list(node.comparators)
        if len(ops) == 1 and isinstance(ops[0], ast.In):
            lst = operands[1]
            if not (isinstance(lst, ast.List) and lst.elts
                    and all(isinstance(x, ast.Constant) and type(x.value) is int for x in lst.elts)):
                fail(node, '`in` needs a display of int literals')
            binds = []
            a = self.val(operands[0], env, binds, INT)
            if tokens(a.term) - {a.term}:
                t = self.tmp()
                binds.append(f'let {t} := {a.term} in')
                a.term = t
            alts = [f'({a.term} =? {x.value})' if x.value >= 0 else f'({a.term} =? ({x.value}))' for x in lst.elts]
            t = alts[-1]
            for x in reversed(alts[:-1]):
                t = f'({x} || {t})'
            return E(binds, t, BOOL)
        table = {ast.Lt: '({} <? {})', ast.Gt: '({} >? {})', ast.LtE: '({} <=? {})', ast.GtE: '({} >=? {})',
                 ast.Eq: '({} =? {})', ast.NotEq: '(negb ({} =? {}))'}
        if len(ops) > 1:
            es = [self.pure(o, env, INT) for o in operands]
            if any(type(op) not in table for op in ops):
                fail(node, 'comparison outside the grammar')
            cs = [table[type(op)].format(a.term, b.term) for op, a, b in zip(ops, es, es[1:])]
            t = cs[-1]
            for x in reversed(cs[:-1]):
                t = f'({x} && {t})'
            return E([], t, BOOL)
        binds, parts = [], []
        es = []
        for o in operands:
            b = []
            es.append(self.val(o, env, b))
            parts.append((b, es[-1].term))
            binds += b
        a, b = es
        if a.ty == INT and b.ty == INT:
            if type(ops[0]) not in table:
                fail(node, 'comparison outside the grammar')
            self.guard_siblings(node, parts)
            return E(binds, table[type(ops[0])].format(a.term, b.term), BOOL)
        if binds:
            fail(node, 'comparison outside the grammar')
        return super().ex_compare(node, env)

    def chain(self, node, env, binds):
        """a container expression <name>[i]...[j] that is about to be updated in place:
        -> (root Var, [(container term, index term), ...] from the outside in, term of the container, its type)"""
        idxs = []
        t = node
        while isinstance(t, ast.Subscript):
            if isinstance(t.slice, ast.Slice):
                fail(node, 'slice in the target of an in-place update')
            idxs.append(t.slice)
            t = t.value
        if not isinstance(t, ast.Name):
            fail(node, 'in-place update of a value that is not a variable or an item of one')
        v = self.owned_list(t.id, node, env)
        path, cur, ty = [], v.coq, v.ty
        for ix in reversed(idxs):
            if not is_list(ty):
                fail(node, 'subscript of a value that is not a list')
            i = self.pure(ix, env, INT).term
            tmp = self.tmp()
            binds.append(f'bdo {tmp} <- py_nth {cur} {i};')
            path.append((cur, i))
            cur, ty = tmp, ty[1]
        return v, path, cur, ty

    def write_back(self, path, new, binds):
        for k in range(len(path) - 1, -1, -1):
            cont, i = path[k]
            if k == 0:
                binds.append(f'bdo {cont} <- py_set {cont} {i} {new};')
            else:
                tmp = self.tmp()
                binds.append(f'bdo {tmp} <- py_set {cont} {i} {new};')
                new = tmp

    def ex_call(self, node, env):
        f = node.func
        if isinstance(f, ast.Attribute) and f.attr == 'popleft' and not node.args and not node.keywords:
            if not self.pop_ok:
                fail(node, 'popleft() is only accepted as an element of a list display or as the argument of append')
            binds = []
            v, path, cur, ty = self.chain(f.value, env, binds)
            if not is_list(ty) or has_unknown(ty):
                fail(node, 'popleft() of a value that is not a list of known element type')
            x, rest = self.tmp(), self.tmp()
            if path:
                binds.append(f'bdo ({x}, {rest}) <- py_popleft {cur};')
                self.write_back(path, rest, binds)
            else:
                binds.append(f'bdo ({x}, {v.coq}) <- py_popleft {v.coq};')
            return E(binds, x, ty[1])
        if isinstance(f, ast.Attribute) and ast.unparse(f) == 'collections.deque' and not node.args and not node.keywords:
            if 'collections' in env.vars or 'collections' in self.locals_bound \
                    or self.mod.imports.get('collections') != ('collections', None):
                fail(node, '`import collections` expected')
            key = (node.lineno, node.col_offset)
            return E([], '[]', TList(self.empties.get(key, ('unknown', key))), True)
        if isinstance(f, ast.Name) and f.id in ('min', 'max') and f.id not in env.vars and f.id not in env.dead:
            self.builtin(f.id, node, env)
            if len(node.args) != 2 or node.keywords:
                fail(node, f'{f.id}(a, b) expected')
            binds, parts = [], []
            es = []
            for a in node.args:
                b = []
                es.append(self.val(a, env, b, INT))
                parts.append((b, es[-1].term))
                binds += b
            self.guard_siblings(node, parts)
            return E(binds, f'(Z.{f.id} {es[0].term} {es[1].term})', INT)
        e = super().ex_call(node, env)
        if e.binds and bound_names(e.binds[:-1]) & tokens(e.binds[-1].split(' <- ', 1)[-1]):
            fail(node, 'an argument mentions a list that another argument updates in place')
        return e

    def arg_term(self, p, a, env, binds, sig):
        if isinstance(a, PreTerm):
            return a.term
        pty = p[1]
        if is_opt(pty) and isinstance(a, ast.Constant) and a.value is None:
            return 'None'
        self.pop_ok += 1
        try:
            e = self.val(a, env, binds)
        finally:
            self.pop_ok -= 1
        if e.ty == STRC and (pty == LABEL or pty == t14.TOpt(LABEL)):
            e = E([], f'"{e.term}"%string', LABEL)
        if has_list(e.ty) and not sig.returns_fresh:
            if e.name is not None and e.name in env.vars:
                env.vars[e.name].owned = False          # the callee may hand this very list back
            elif not e.fresh:
                fail(a, 'an item of a list is passed to a function that may hand it back')
        if is_opt(pty) and not is_opt(e.ty):
            self.unify(e.ty, pty[1], a)
            return f'(Some {e.term})'
        self.unify(e.ty, pty, a)
        return e.term

    # -- statements
    def block(self, stmts, env, k):
        if stmts and isinstance(stmts[0], ast.AugAssign) and isinstance(stmts[0].target, ast.Name) \
                and isinstance(stmts[0].op, ast.Add):
            s = stmts[0]
            v = env.vars.get(s.target.id)
            if v is not None and is_list(v.ty):
                v = self.owned_list(s.target.id, s, env)
                binds = []
                e = self.val(s.value, env, binds)
                if not is_list(e.ty):
                    fail(s, '+= of a value that is not a list')
                self.unify(v.ty, e.ty, s)
                if has_list(e.ty[1]) and not e.fresh:
                    fail(s, '+= of a list of lists that is not fresh')
                if v.coq in bound_names(binds):
                    fail(s, 'the right-hand side updates the list it is added to')
                return binds + [f'let {v.coq} := {v.coq} ++ {e.term} in'] + self.block(stmts[1:], env, k)
        if stmts and isinstance(stmts[0], (ast.FunctionDef, ast.ClassDef, ast.Lambda)):
            fail(stmts[0], 'nested definition')
        return super().block(stmts, env, k)

    def st_assign(self, s, env):
        if isinstance(s, ast.AnnAssign):
            if s.value is None or not isinstance(s.target, ast.Name):
                fail(s, 'annotated assignment outside the grammar')
            ty = self.list_ann(s.annotation)
            binds = []
            e = self.val(s.value, env, binds)
            self.unify(e.ty, ty, s)
            e.ty = ty
            self.bind_var(s.target, e, env, binds)
            return binds
        if len(s.targets) != 1:
            fail(s, 'chained assignment')
        t = s.targets[0]
        if isinstance(t, ast.Tuple) and isinstance(s.value, ast.Tuple):
            names = [x.id for x in t.elts if isinstance(x, ast.Name)]
            vals = [x.id for x in s.value.elts if isinstance(x, ast.Name)]
            if len(t.elts) != 2 or len(names) != 2 or len(vals) != 2 or names != vals[::-1] or names[0] == names[1]:
                fail(s, 'the only parallel assignment accepted is the swap `a, b = b, a`')
            va, vb = (self.lookup(x, env) for x in s.value.elts)
            if va is None or vb is None or STATE in (va.ty, vb.ty):
                fail(s, 'swap of names that are not local variables')
            a, b = names
            ca, cb = self.cn(a), self.cn(b)
            env.vars[a], env.vars[b] = Var(va.ty, va.owned, ca), Var(vb.ty, vb.owned, cb)
            return [f"let '({ca}, {cb}) := ({cb}, {ca}) in"]
        if isinstance(t, ast.Subscript):
            binds = []
            e = self.val(s.value, env, binds)
            if e.ty == STRC:
                fail(s, 'string constant stored into a list')
            if has_list(e.ty) and not e.fresh:
                fail(s, 'a list that is not fresh is stored into a list')
            self.store_item(t, e, env, binds)
            return binds
        if isinstance(t, ast.Name):
            binds = []
            e = self.val(s.value, env, binds)
            if e.ty == STRC:
                fail(s, 'string constant assigned to a variable')
            if has_list(e.ty) and not e.fresh and e.name is None:
                fail(s, 'an item of a list (a list itself) is bound to a variable: it would alias its container')
            self.bind_var(t, e, env, binds)
            return binds
        return super().st_assign(s, env)

    def store(self, t, term, env, binds):
        self.store_item(t, E([], term, LABEL), env, binds)

    def store_item(self, t, e, env, binds):
        if isinstance(t.slice, ast.Slice):
            fail(t, 'item assignment outside the grammar')
        vb = []
        v, path, cur, ty = self.chain(t.value, env, vb)
        if not is_list(ty):
            fail(t, 'item assignment into a value that is not a list')
        self.unify(ty[1], e.ty, t)
        idx = self.pure(t.slice, env, INT).term
        if bound_names(binds) & ({v.coq} | tokens(idx)):
            fail(t, 'the stored value updates the list it is stored into')
        binds += vb
        if path:
            tmp = self.tmp()
            binds.append(f'bdo {tmp} <- py_set {cur} {idx} {e.term};')
            self.write_back(path, tmp, binds)
        else:
            binds.append(f'bdo {v.coq} <- py_set {v.coq} {idx} {e.term};')

    def st_expr(self, s, env):
        c = s.value
        if isinstance(c, ast.Call) and isinstance(c.func, ast.Attribute) and c.func.attr == 'append' \
                and len(c.args) == 1 and not c.keywords and not (
                    isinstance(c.func.value, ast.Name) and c.func.value.id in env.vars
                    and env.vars[c.func.value.id].ty == STATE):
            binds = []
            v, path, cur, ty = self.chain(c.func.value, env, binds)
            if not is_list(ty):
                fail(s, 'append to a value that is not a list')
            ab = []
            self.pop_ok += 1
            try:
                e = self.val(c.args[0], env, ab)
            finally:
                self.pop_ok -= 1
            if e.ty == STRC:
                e = E([], f'"{e.term}"%string', LABEL)
            self.unify(ty[1], e.ty, s)
            if has_list(e.ty) and not e.fresh:
                fail(s, 'a list that is not fresh is appended to a list')
            if v.coq in bound_names(ab):
                fail(s, 'the appended value updates the list it is appended to')
            binds += ab
            if path:
                self.write_back(path, f'({cur} ++ [{e.term}])', binds)
            else:
                binds.append(f'let {v.coq} := {v.coq} ++ [{e.term}] in')
            return binds
        return super().st_expr(s, env)

    def st_if(self, s, rest, env, k):
        if none_test(s.test) is None:
            saved = self.ntmp
            e = self.ex(s.test, env)
            if e.binds:
                if e.ty != BOOL:
                    fail(s, 'the test is not a Boolean')
                if bound_names(e.binds):
                    fail(s, 'in-place update inside a test')
                name = self.tmp()
                env.vars[name] = Var(BOOL, False, name)
                s2 = ast.copy_location(ast.If(test=ast.copy_location(ast.Name(id=name, ctx=ast.Load()), s.test),
                                              body=s.body, orelse=s.orelse), s)
                return e.binds + [f'let {name} := {e.term} in'] + super().st_if(s2, rest, env, k)
            self.ntmp = saved
        return super().st_if(s, rest, env, k)

    def st_while(self, s, env):
        if s.orelse or contains(s.body, (ast.Return, ast.Break, ast.Continue)):
            fail(s, 'while loop with else / break / continue / return')
        idx = self.nwhile
        self.nwhile += 1
        lines = []
        src = WHILE_FUEL.get((self.f.name, idx))
        t = s.test
        if src is not None:
            fe = self.ex(ast.parse(src, mode='eval').body, env)
            if fe.ty != INT or bound_names(fe.binds):
                fail(s, f'the fuel expression {src!r} is not an int here')
            lines += fe.binds
            fuel = f'(Z.to_nat {fe.term})'
        else:
            if not (isinstance(t, ast.Compare) and len(t.ops) == 1 and isinstance(t.ops[0], (ast.Lt, ast.Gt, ast.NotEq))):
                fail(s, 'a while loop without an entry in WHILE_FUEL must test `a < b`, `a > b` or `a != b` on ints')
            a = self.pure(t.left, env, INT).term
            b = self.pure(t.comparators[0], env, INT).term
            fuel = {ast.Lt: f'(Z.to_nat ({b} - {a}))', ast.Gt: f'(Z.to_nat ({a} - {b}))',
                    ast.NotEq: f'(Z.abs_nat ({a} - {b}))'}[type(t.ops[0])]
        C = self.carried(s.body, env, s)
        before = {n: Var(env.vars[n].ty, env.vars[n].owned, env.vars[n].coq) for n in C}
        env_b = env.copy()
        ce = self.ex(t, env_b)
        if ce.ty != BOOL or bound_names(ce.binds):
            fail(s, 'the loop condition is not a Boolean without in-place updates')
        body = self.loop_body(list(s.body), env_b, C, before, s)
        st_pat = tuple_pat([self.cn(n) for n in C])
        st_term = tuple_term([env.vars[n].coq for n in C])
        if not C:
            fail(s, 'a while loop that changes no variable')
        head = f'bdo {tuple_pat([self.cn(n) for n in C], False)} <- '
        if ce.binds:
            lines.append(head + f'py_while_m {fuel} (fun {st_pat} =>')
            lines += indent(ce.binds + [f'Ret {ce.term}) (fun {st_pat} =>'], 4)
        else:
            lines.append(head + f'py_while {fuel} (fun {st_pat} => {ce.term}) (fun {st_pat} =>')
        lines += indent(body, 4)
        lines[-1] += f') {st_term};'
        return lines

    # -- the function
    def is_recursive(self):
        return any(isinstance(n, ast.Call) and isinstance(n.func, ast.Name) and n.func.id == self.f.name
                   for n in ast.walk(self.f))

    def translate(self):
        while True:
            try:
                return self.translate_once()
            except Retry as r:
                if r.key in self.empties:
                    fail(self.f, f'the empty list at {r.key} is used with two element types')
                self.empties[r.key] = r.ty
                self.ntmp, self.nwhile, self.pop_ok, self.ret, self.ret_fresh = 0, 0, 0, None, True

    def translate_once(self):
        params, has_state = self.signature()
        name = self.f.name
        env = Env()
        if has_state:
            env.vars['circuit'] = Var(STATE, False, 'circuit')
        self.locals_bound = set(t14.assigned_deep(self.f.body)) | {p[0] for p in params}
        for pname, ty, _d, _k in params:
            if pname in t14.BUILTINS or pname in ('min', 'max'):
                fail(self.f, f'the built-in {pname!r} is a parameter')
            env.vars[pname] = Var(ty, False, self.cn(pname))
        body = list(strip_docstring(self.f.body))
        ps = ' '.join(f'({self.cn(n)} : {coq_ty(t)})' for n, t, _d, _k in params)
        rec = self.is_recursive()
        if rec:
            if name not in REC_FUEL or not has_state or 'fuel' in self.locals:
                fail(self.f, 'a function that calls itself needs an entry in REC_FUEL (and no local called `fuel`)')
            self.unit.sigs[(self.mod.key, name)] = Sig(f'gen_{name}_rec fuel', params, LABELS, True, True)
            fe = self.pure(ast.parse(REC_FUEL[name], mode='eval').body, env, INT)
        elif len(body) == 1 and isinstance(body[0], ast.Return) and body[0].value is not None and not has_state:
            e = self.ex(body[0].value, env)
            if not e.binds and e.ty != STRC:
                sig = Sig('gen_' + name, params, e.ty, False, e.fresh, pure=True)
                return sig, f'Definition gen_{name} {ps} : {coq_ty(e.ty)} :=\n  {e.term}.'
        lines = self.block(body, env, self.fall_off)
        if self.ret is None:
            fail(self.f, 'no return type')
        if has_unknown(self.ret):
            fail(self.f, 'the element type of the returned list is not known')
        sig = Sig('gen_' + name, params, self.ret, has_state, self.ret_fresh)
        if not rec:
            head = f'Definition gen_{name} {ps} : prog ({coq_ty(self.ret)}) :='
            return sig, '\n'.join([head] + indent(lines)) + '.'
        if self.ret != LABELS:
            fail(self.f, 'a function that calls itself must return a list of labels')
        head = f'Fixpoint gen_{name}_rec (fuel : nat) {ps} {{struct fuel}} : prog ({coq_ty(self.ret)}) :='
        text = '\n'.join([head, '  match fuel with', '  | O => Fail OutOfFuel', '  | S fuel =>'] + indent(lines, 4)
                         + ['  end.'])
        args = ' '.join(self.cn(n) for n, _t, _d, _k in params)
        text += f'\n\nDefinition gen_{name} {ps} : prog ({coq_ty(self.ret)}) :=\n' \
                f'  gen_{name}_rec (Z.to_nat {fe.term}) {args}.'
        return sig, text


# ------------------------------------------------------------------ the generate_* wrappers
class MulWrapTr(MulFnTr, t14.WrapTr):
    """T14's wrapper grammar; the one add_* call may be `_process_x[<mode>](circuit, ...)`, which is the call
    `gen__process_x <mode> ...` of the translated dispatch table"""

    def translate_wrapper(self):
        for st in ast.walk(self.f):
            if isinstance(st, ast.Call) and isinstance(st.func, ast.Subscript) and isinstance(st.func.value, ast.Name) \
                    and st.func.value.id in self.mod.dicts and not isinstance(st.func.slice, ast.Slice):
                # _process_x[mode](circuit, a, ...) -> _process_x(circuit, mode, a, ...): the mode becomes the first
                # parameter of the dispatch function (it is evaluated before the other arguments in Python too)
                if not st.args:
                    fail(st, 'the circuit argument is missing')
                st.args = [st.args[0], st.func.slice] + list(st.args[1:])
                st.func = ast.copy_location(ast.Name(id=st.func.value.id, ctx=ast.Load()), st.func)
        return super().translate_wrapper()

    def signature(self):
        params, has_state = super().signature()
        return params, has_state


# ------------------------------------------------------------------ the unit
class MulUnit(t14.Unit):
    def mod(self, key):
        if key not in self.mods:
            self.mods[key] = MulMod(key)
        return self.mods[key]

    def external(self, key, name, spec):
        coq, text, params, ret = spec
        f = self.mod(key).funcs.get(name)
        if f is None:
            raise TranslatorError(f'{MODULES[key][1]}: {name} not found')
        if ast.unparse(f.args) != text:
            fail(f, f'{name}: the parameter list differs from the one the adaptor of Model/PyPrims08.v stands for')
        self.sigs[(key, name)] = Sig(coq, params, ret, True, True)

    def dispatch(self, key, name, cls):
        m = self.mod(key)
        d = m.dicts.get(name)
        if d is None:
            raise TranslatorError(f'{m.path}: {name} not found')
        mode_ty, tab = ENUMS[(key, cls)]
        if cls not in m.enums:
            raise TranslatorError(f'{m.path}: class {cls} not found')
        arms, seen, common = [], set(), None
        for k, v in zip(d.keys, d.values):
            if not (isinstance(k, ast.Attribute) and isinstance(k.value, ast.Name) and k.value.id == cls
                    and k.attr in tab) or k.attr in seen:
                fail(d, f'{name}: keys must be distinct members of {cls}')
            seen.add(k.attr)
            if not isinstance(v, ast.Name) or v.id not in m.funcs:
                fail(d, f'{name}: values must be functions of this module')
            sig = self.sig_of((m.dotted, v.id), v)
            shape = [(p[0], p[1], ast.unparse(p[2]) if isinstance(p[2], ast.AST) and not isinstance(p[2], PreTerm)
                      else None, p[3]) for p in sig.params]
            if common is None:
                common = (shape, sig)
            elif shape != common[0] or sig.ret != common[1].ret or not sig.has_state:
                fail(d, f'{name}: the functions have different signatures')
            arms.append((tab[k.attr], sig.coq))
        if seen != set(tab):
            fail(d, f'{name}: every member of {cls} needs an entry')
        shape, sig0 = common
        tr = MulFnTr(self, m, m.funcs[d.values[0].id])
        ps = ' '.join(f'({tr.cn(p[0])} : {coq_ty(p[1])})' for p in sig0.params)
        args = ' '.join(tr.cn(p[0]) for p in sig0.params)
        if 'mode' in [p[0] for p in sig0.params]:
            fail(d, 'a parameter called `mode`')
        lines = [f'Definition gen_{name} (mode : {mode_ty}) {ps} : prog ({coq_ty(sig0.ret)}) :=', '  match mode with']
        lines += [f'  | {c} => {fn} {args}' for c, fn in arms]
        lines.append('  end.')
        params = [('mode', mode_ty, None, False)] + list(sig0.params)
        self.sigs[(key, name)] = Sig('gen_' + name, params, sig0.ret, True, sig0.returns_fresh)
        return '\n'.join(lines)

    def run(self):
        t4_arith.translate_utils()
        t4_arith.translate_cells()
        for (key, name), spec in EXTERNAL.items():
            self.external(key, name, spec)
        out = [HEADER]
        for key, name in FUNCS:
            m = self.mod(key)
            f = m.funcs.get(name)
            if f is None:
                raise TranslatorError(f'{m.path}: {name} not found')
            cls = MulFnTr
            if (key, name) in CLOSURE_FUNCS:
                from .t22_wallace import WalFnTr
                cls = WalFnTr
            sig, text = cls(self, m, f).translate()
            self.sigs[(key, name)] = sig
            out += [f'(* {m.path}: {name} *)', text, '']
        for key, name, cls in DISPATCH:
            out += [f'(* {self.mod(key).path}: {name} *)', self.dispatch(key, name, cls), '']
        for key, name in WRAPPERS:
            m = self.mod(key)
            f = m.funcs.get(name)
            if f is None:
                raise TranslatorError(f'{m.path}: {name} not found')
            out += [f'(* {m.path}: {name} *)', MulWrapTr(self, m, f).translate_wrapper(), '']
        return '\n'.join(out)


HEADER = '''(* GENERATED by translator/t19_mul_gen.py from cirbo/synthesis/generation/arithmetics/
   {multiplication,square,_utils}.py.  DO NOT EDIT.
   Proofs/ArithGen08*.v proves every gen_<name> extensionally equal to the hand model (Model/ArithMul.v, ArithSquare.v).

   Conventions (see the headers of translator/t14_arith_gen.py and t19_mul_gen.py): Python ints are Z; a list / item
   store / append / popleft rebinds the variable (an item of a nested list is read with py_nth, updated and written back
   with py_set); tmp'k are the temporaries of left-to-right evaluation; the Python built-ins are Model/PyPrims.v and
   Model/PyPrims08.v; add_gate_from_tt is gate_tt; add_sum2 / add_sum3 are the regenerated cells of T4; the py_add_sum_*
   adaptors, add_sum_two_numbers and add_sub_two_numbers are the hand models of properties C07 / C09; a function that
   calls itself is a Fixpoint on fuel; a nested closure (add_mul_wallace, translator/t22_wallace.py) is a local
   state-passing function: the lists it mutates are passed in and handed back, Model/PyPrimsWal.v is its prelude. *)
Require Import Cirbo.Model.Base Cirbo.Model.Gate Cirbo.Model.Circuit Cirbo.Model.Builder Cirbo.Model.PyPrims.
Require Import Cirbo.Model.ArithSub Cirbo.Model.ArithSum2 Cirbo.Model.ArithSumN Cirbo.Model.ArithSumW.
Require Import Cirbo.Model.PyPrims08 Cirbo.Model.PyPrimsWal Cirbo.Model.ArithMul Cirbo.Model.ArithSquare.
(* last, so that PLACEHOLDER_STR is the regenerated constant of T4 and not the one of Model/ArithMul.v *)
Require Import Cirbo.Generated.ArithTables Cirbo.Generated.ArithCells.
From Coq Require Import ZArith Ascii.
Open Scope Z_scope.
'''


def generate():
    return MulUnit().run()


def translate():
    return {'Generated/ArithGen08.v': write_if_changed('Generated/ArithGen08.v', generate())}


if __name__ == '__main__':
    print(translate())
