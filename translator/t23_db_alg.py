"""T23: the class CircuitsDatabase of cirbo/circuits_db/db.py  ->  Generated/DbAlgGen.v                      (C17)

Built on T16 (translator/t16_codec_alg.py) by subclassing: the same statement / expression machinery, value
representation, mutation and aliasing discipline (read its header first).  T16 regenerates what the database calls
(the codec, NormalizationInfo, _truth_table_to_label, Circuit.gates_number); this module regenerates the methods of the
class itself that work on an opened database,

    get_by_label, get_by_raw_truth_table, add_circuit, get_by_raw_truth_table_model, save

as `gen_CircuitsDatabase_<name>`; Proofs/DbAlgGen*.v prove each of them equal to the hand model Model/Db.v.
NOT covered: __init__, open, close, __enter__, __exit__ (lzma, pathlib, isinstance dispatch on a Union-typed source).

The object.  `self` is the record of the attributes __init__ assigns, minus the attributes listed in OPAQUE_FIELDS
(`_db_source`: Optional[Union[BinaryIO, Path, str]], only used by open); a translated method that reads or writes an
opaque attribute is refused.  So gen_CircuitsDatabase = { CircuitsDatabase__dict : option (dict bytes) }:
None = not opened, Some d = the opened dictionary (Model/Db.v's `db`).  A method that stores into self._dict returns
the new object.

Exceptions.  CircuitDatabaseNotOpenedError and CircuitsDatabaseError have no constructor in Base.err; they are
represented by TraverseMethodError and BadDefinitionError (ERR_ALIAS, as T16 does for the two exceptions of
normalization.py); Proofs/DbAlgGen.v maps them back into Model/Db.v's dberr (`to_db2`) and the equalities proved
there show that the representation never collides with an exception the callees really raise.

Additions to T16's grammar.
  <stmt> ::= continue                                   inside a `for` (not under an if whose branches are joined):
                                                        the rest of the loop body is skipped, the carried variables are
                                                        passed on as they are
           | <name>[<j>][<k>] = <expr>                  list of lists that the variable owns (rows are never shared:
                                                        T16's discipline): the value, then <name>[<j>] (IndexError),
                                                        then the store into that row (IndexError), row put back
           | self.<attr>[<k>] = <expr>                  dict attribute; an Optional[Dict] attribute must have been
                                                        narrowed by `if self.<attr> is None: raise ...`
           | return None                                in a function that returns Optional[T]
           | <name> = <expr of type T>                  where <name> has type Optional[T]: Some
           | if <name> is None: <several statements>    <name> Optional[T]: the body may update no other variable that
                                                        lives on, and must assign <name> at type T (it cannot read
                                                        it before); afterwards <name> has type T
  <test> ::= <name> is None or <test using name>        <name> Optional[T], T immutable: a match; the later operands see
                                                        <name> at type T
  <expr> ::= DontCare (cirbo.core.logic)                -> None : option bool; a TriValue is `option bool`, a bool used
                                                        where a TriValue is expected is Some b; == / != / in on
                                                        TriValues is tri_eqb (Python: _DontCare.__eq__ is isinstance,
                                                        bool == _DontCare is False)
           | itertools.product(<list>, repeat=<int>)    -> py_product: all vectors, the first position slowest
                                                        (ValueError for a negative count)
           | <circuit>.get_truth_table()                -> py_circuit_truth_table: Model/Eval.v's get_truth_table (tied
                                                        to the source by T10 / C12) with every entry read as a bool; a
                                                        table with an Undefined entry is outside the typed fragment
                                                        (rows of a truth table are sequences of bools, as in T16):
                                                        Err UnmodelledPythonException
  annotations: tp.MutableSequence[T] -> list; TriValue -> option bool; RawTruthTableModel.
"""
import ast

from . import t16_codec_alg as T
from .t16_codec_alg import (BOOL, CIRCUIT, DB, INT, STR, TL, Val, Var, eqb_of, ind, is_listy, is_mutable, known,
                            paren, same_ty, seq, walk_no_defs)
from .common import fail, strip_docstring, write_if_changed

OUT3 = 'Generated/DbAlgGen.v'
TRI = 'tri'
T.EXTRA_TYPES[TRI] = 'option bool'
T.EXTRA_EQB[TRI] = 'tri_eqb'

COVERED3 = [
    (DB, 'CircuitsDatabase.get_by_label'), (DB, 'CircuitsDatabase.get_by_raw_truth_table'),
    (DB, 'CircuitsDatabase.add_circuit'), (DB, 'CircuitsDatabase.get_by_raw_truth_table_model'),
    (DB, 'CircuitsDatabase.save'),
]

DONTCARE = 'cirbo.core.logic.DontCare'
TRIVALUE = 'cirbo.core.logic.TriValue'


class DbUnit(T.Unit):
    CLASS_MODULES = dict(T.CLASS_MODULES, **{DB: ('CircuitsDatabase',)})
    ERR_ALIAS = dict(T.ERR_ALIAS, CircuitDatabaseNotOpenedError='TraverseMethodError',
                     CircuitsDatabaseError='BadDefinitionError')
    TYPE_ALIASES = tuple(T.TYPE_ALIASES) + ('cirbo.core.boolean_function.RawTruthTableModel',)
    # attributes that are not part of the modelled state; a translated method may not touch them
    OPAQUE_FIELDS = {(DB, 'CircuitsDatabase'): frozenset({'_db_source'})}

    def declare_class(self, ci):
        opaque = self.OPAQUE_FIELDS.get((ci.mod.dotted, ci.name))
        if opaque is None:
            return super().declare_class(ci)
        init = ci.methods.get('__init__')
        if init is None:
            fail(ci.node, f'class {ci.name} without __init__')
        fields, seen = [], []
        for st in strip_docstring(init.body):
            if isinstance(st, ast.AnnAssign) and st.value is not None:
                t, annot = st.target, st.annotation
            elif isinstance(st, ast.Assign) and len(st.targets) == 1:
                t, annot = st.targets[0], None
            else:
                fail(st, '__init__ statement that is not an attribute assignment')
            if not (isinstance(t, ast.Attribute) and isinstance(t.value, ast.Name) and t.value.id == 'self'):
                fail(st, '__init__ statement that is not an attribute assignment')
            if t.attr in seen:
                fail(st, f'attribute {t.attr!r} assigned twice in __init__')
            seen.append(t.attr)
            if t.attr in opaque:
                continue
            if annot is None:
                fail(st, f'attribute {t.attr!r} of a class with opaque attributes needs an annotation')
            ty = self.ann(annot, ci.mod)
            if not known(ty) or ty in (T.NONE, T.UNIT):
                fail(st, f'cannot infer the type of attribute {t.attr!r}')
            fields.append((t.attr, ty))
        missing = sorted(opaque - set(seen))
        if missing:
            fail(init, f'opaque attributes {missing} are not assigned in __init__')
        if not fields:
            fail(init, f'class {ci.name} has no modelled attribute')
        ci.fields = fields
        self.emit_record(ci)

    def ann(self, node, mod):
        if isinstance(node, ast.Subscript) and isinstance(node.value, (ast.Attribute, ast.Name)) \
                and not isinstance(node.slice, ast.Tuple):
            if self.dotted_of(node.value, mod) == 'typing.MutableSequence':
                return TL(self.ann(node.slice, mod))
        return super().ann(node, mod)

    def ext_type(self, dotted, node):
        if dotted == TRIVALUE:
            return TRI
        return super().ext_type(dotted, node)


class DbFnTr(T.FnTrFull):
    def __init__(self, unit, mod, node, cls, fn):
        super().__init__(unit, mod, node, cls, fn)
        self.loop_bodies = []       # the body lists of the enclosing `for` loops
        self.kstack = []            # their continuations (what `continue` jumps to)

    # ---- continue ----
    def leaves(self, stmts):
        if not stmts:
            return False
        last = stmts[-1]
        if isinstance(last, ast.Continue):
            return True
        if isinstance(last, ast.If):
            return bool(last.orelse) and self.leaves(last.body) and self.leaves(last.orelse)
        return T.leaves(stmts)

    def has_jump(self, stmts):
        return any(isinstance(n, (ast.Return, ast.Continue)) for n in walk_no_defs(stmts))

    def check_loop_body(self, s):
        for n in walk_no_defs(s.body):
            if isinstance(n, (ast.Break, ast.Return)):
                fail(n, 'break / return inside a loop')
            if isinstance(n, ast.Continue) and not isinstance(s, ast.For):
                fail(n, 'continue inside a while loop')
        if s.orelse:
            fail(s, 'loop with else')

    def st_for(self, s, env, cont):
        self.loop_bodies.append(s.body)
        try:
            return super().st_for(s, env, cont)
        finally:
            self.loop_bodies.pop()

    def block(self, stmts, env, k):
        if self.loop_bodies and stmts is self.loop_bodies[-1]:
            # the whole body of the innermost loop: k is where `continue` goes
            self.kstack.append(k)
            saved, self.loop_bodies = self.loop_bodies, []
            try:
                return self.block_inner(stmts, env, k)
            finally:
                self.loop_bodies = saved
                self.kstack.pop()
        return self.block_inner(stmts, env, k)

    def block_inner(self, stmts, env, k):
        if stmts and isinstance(stmts[0], ast.Continue):
            if stmts[1:]:
                fail(stmts[1], 'statement after continue')
            if not self.kstack:
                fail(stmts[0], 'continue outside a for loop')
            return self.kstack[-1](env)
        return super().block(stmts, env, k)

    # ---- statements ----
    def st_return(self, s, env):
        rt = self.fn.ret_ty
        if (not self.is_init and isinstance(s.value, ast.Constant) and s.value.value is None
                and isinstance(rt, tuple) and rt[0] == 'opt'):
            return self.ret(Val('None', rt), env, s)
        return super().st_return(s, env)

    def bind(self, name, v, env, pre, node):
        old = env.get(name)
        if old is not None and isinstance(old.ty, tuple) and old.ty[0] == 'opt' \
                and not (isinstance(v.ty, tuple) and v.ty[0] == 'opt'):
            v = self.coerce(v, old.ty, node)
        return super().bind(name, v, env, pre, node)

    def coerce(self, v, want, node):
        if v.ty == BOOL and want == TRI:
            return Val(f'Some {paren(v.code)}', TRI)
        return super().coerce(v, want, node)

    def st_assign(self, s, env, cont):
        if isinstance(s, ast.Assign) and len(s.targets) == 1 and isinstance(s.targets[0], ast.Subscript):
            t = s.targets[0]
            if isinstance(t.value, ast.Subscript) and isinstance(t.value.value, ast.Name):
                return self.st_store_nested(s, t, env, cont)
            if (isinstance(t.value, ast.Attribute) and isinstance(t.value.value, ast.Name)
                    and t.value.value.id == 'self' and self.cls and self.cls[0] == 'obj' and not self.is_init):
                return self.st_store_attr(s, t, env, cont)
        return super().st_assign(s, env, cont)

    def st_store_nested(self, s, t, env, cont):
        """<name>[<j>][<k>] = <expr>"""
        name = t.value.value.id
        self.use(name)
        var = env.get(name)
        if var is None:
            fail(s, f'unknown variable {name!r}')
        if not (known(var.ty) and is_listy(var.ty) and var.ty[0] == 'list'
                and is_listy(var.ty[1]) and var.ty[1][0] == 'list'):
            fail(s, 'nested item store into something that is not a list of lists')
        if isinstance(t.slice, ast.Slice) or isinstance(t.value.slice, ast.Slice):
            fail(s, 'slice store')
        pre = []
        # Python: the value, then <name>[<j>], then <k>, then the store
        v = self.coerce(self.expr(s.value, env, pre), var.ty[1][1], s)
        if is_mutable(v.ty):
            fail(s, 'nested item store of a mutable value')
        jv = self.coerce(self.expr(t.value.slice, env, pre), INT, s)
        row = self.temp()
        pre.append(('do', row, f'py_index {var.code} {paren(jv.code)}'))
        kv = self.coerce(self.expr(t.slice, env, pre), INT, s)
        row2 = self.temp()
        pre.append(('do', row2, f'py_list_set {row} {paren(kv.code)} {paren(v.code)}'))
        self.mutate(name, env, s)
        pre.append(('do', var.code, f'py_list_set {var.code} {paren(jv.code)} {row2}'))
        return seq(pre, cont(env))

    def st_store_attr(self, s, t, env, cont):
        """self.<attr>[<k>] = <expr>"""
        attr = t.value.attr
        cname = self.cls[1].name
        fty = self.field_ty(env['self'].ty, attr, t)
        self.fn.field_reads.add(attr)
        self.use('self')
        if isinstance(fty, tuple) and fty[0] == 'opt':
            nv = env.get('self.' + attr)
            if nv is None:
                fail(s, f'store into the Optional attribute {attr!r} without an `is None` test before it')
            dty, dcode, wrap = nv.ty, nv.code, 'Some '
        else:
            dty, dcode, wrap = fty, f'{cname}_{attr} self', ''
        if not (isinstance(dty, tuple) and dty[0] == 'dict' and known(dty)):
            fail(s, 'item store into an attribute that is not a dict')
        pre = []
        v = self.coerce(self.expr(s.value, env, pre), dty[2], s)
        kv = self.coerce(self.expr(t.slice, env, pre), dty[1], s)
        self.store_value(v, env, s)
        setter = 'dset' if dty[1] == STR else f'kset {eqb_of(dty[1])}'
        self.mutate('self', env, s)
        new = f'{setter} {dcode} {paren(kv.code)} {paren(v.code)}'
        pre.append(('let', 'self', f'set_{cname}_{attr} self ({wrap}({new}))' if wrap else
                    f'set_{cname}_{attr} self ({new})'))
        return seq(pre, cont(env))

    def st_if(self, s, rest, env, k):
        name = self.is_none_test(s.test, env)
        if name is not None and not s.orelse and len(s.body) > 1 and not self.leaves(s.body):
            return self.st_if_default(s, name, rest, env, k)
        return super().st_if(s, rest, env, k)

    def st_if_default(self, s, name, rest, env, k):
        """if <name> is None: <several statements, the last effect on <name> being an assignment at type T>"""
        var = env[name]
        inner = var.ty[1]
        self.use(name)
        if is_mutable(inner):
            fail(s, 'default of an Optional of mutable type')
        if self.has_jump(s.body):
            fail(s, 'return / continue in the body of `if <name> is None`')
        e0 = {n: w for n, w in env.items() if n != name}
        m, _ = self.dry(lambda: self.block(s.body, dict(e0), lambda e: 'Ok tt'))
        others = [n for n in env if n in m and n != name]
        if others:
            fail(s, f'the body of `if {name} is None` also updates {others}')

        def join(e):
            w = e.get(name)
            if w is None or not known(w.ty) or not same_ty(w.ty, inner):
                fail(s, f'the body of `if {name} is None` does not assign {name!r} at type {inner!r}')
            return f'Ok {paren(w.code)}'
        body = self.block(s.body, dict(e0), join)
        if var.param:
            self.rebound_params.add(name)
            if name in self.mutated_set:
                fail(s, f'parameter {name!r} is both re-assigned and updated in place')
        self.touch(name)
        env2 = dict(env)
        env2[name] = Var(var.code, inner, own=True, param=False)
        code = (f'do {var.code} <-\n  match {var.code} with\n  | Some x => Ok x\n  | None =>\n{ind(body, 4)}\n  end;\n')
        return code + self.block(rest, env2, k)

    # ---- expressions ----
    def boolop(self, node, env, pre, operand):
        if isinstance(node.op, ast.Or) and len(node.values) >= 2:
            r = self.none_operand(node.values[0], env)
            if r and r[0] == 'name':
                var = env[r[1]]
                inner = var.ty[1]
                if is_mutable(inner):
                    fail(node, '`x is None or ...` on an Optional of mutable type')
                self.use(r[1])
                env2 = dict(env)
                env2[r[1]] = Var(var.code, inner, var.own, var.views, var.param)
                p = []
                if len(node.values) == 2:
                    c = operand(node.values[1], env2, p)
                else:
                    c = self.boolop(ast.copy_location(ast.BoolOp(op=node.op, values=node.values[1:]), node),
                                    env2, p, operand)
                if p:
                    tmp = self.temp()
                    inner_code = seq(p, f'Ok {paren(c)}')
                    pre.append(('do', tmp, f'match {var.code} with\n| None => Ok true\n| Some {var.code} =>\n'
                                           f'{ind(inner_code)}\nend'))
                    return tmp
                return f'match {var.code} with None => true | Some {var.code} => {c} end'
        return super().boolop(node, env, pre, operand)

    def expr(self, node, env, pre, want_name=None):
        if isinstance(node, ast.Name) and node.id not in self.locals and node.id != 'self':
            r = self.u.resolve(self.mod, node.id, node)
            if r and r[0] == 'ext' and r[1] == DONTCARE:
                return Val('None', TRI)
        if isinstance(node, ast.List) and node.elts:
            p2 = []
            saved = self.tn
            vs = [self.expr(e, env, p2) for e in node.elts]
            if any(v.ty == TRI for v in vs):
                vs = [self.coerce(v, TRI, node) for v in vs]
                pre.extend(p2)
                return Val('[' + '; '.join(v.code for v in vs) + ']', TL(TRI))
            self.tn = saved
        return super().expr(node, env, pre, want_name=want_name)

    def call(self, node, env, pre, want_name=None):
        f = node.func
        if isinstance(f, ast.Attribute):
            base_local = isinstance(f.value, ast.Name) and (f.value.id in self.locals or f.value.id == 'self')
            if not base_local and self.u.dotted_of(f, self.mod) == 'itertools.product':
                return self.product(node, env, pre)
            if (f.attr == 'get_truth_table' and isinstance(f.value, ast.Name) and f.value.id in env
                    and env[f.value.id].ty == CIRCUIT):
                if node.args or node.keywords:
                    fail(node, 'get_truth_table with arguments')
                recv = self.expr(f.value, env, pre)
                tmp = want_name if want_name and want_name != '_' else self.temp()
                pre.append(('do', tmp, f'py_circuit_truth_table {paren(recv.code)}'))
                return Val(tmp, ('seq', ('seq', BOOL)))     # RawTruthTable
        return super().call(node, env, pre, want_name)

    def product(self, node, env, pre):
        """itertools.product(<list>, repeat=<int>)"""
        if len(node.args) != 1 or len(node.keywords) != 1 or node.keywords[0].arg != 'repeat' \
                or isinstance(node.args[0], ast.Starred):
            fail(node, 'itertools.product other than product(<sequence>, repeat=<int>)')
        a = node.args[0]
        if isinstance(a, ast.Tuple):
            a = ast.copy_location(ast.List(elts=a.elts, ctx=ast.Load()), a)
        l = self.iterable(a, env, pre)
        if is_mutable(l.ty[1]):
            fail(node, 'product over mutable values')
        n = self.coerce(self.expr(node.keywords[0].value, env, pre), INT, node)
        tmp = self.temp()
        pre.append(('do', tmp, f'py_product {paren(l.code)} {paren(n.code)}'))
        return Val(tmp, TL(('seq', l.ty[1])))


DbUnit.FNTR = DbFnTr


HEADER3 = '''(* GENERATED by translator/t23_db_alg.py from cirbo/circuits_db/db.py (class CircuitsDatabase: get_by_label,
   get_by_raw_truth_table, add_circuit, get_by_raw_truth_table_model, save).  DO NOT EDIT.
   Proofs/DbAlgGen*.v prove every gen_<name> equal to the hand model Model/Db.v.
   The object is the record of its modelled attribute: _dict = None (not opened) | Some dictionary.
   CircuitDatabaseNotOpenedError is Err TraverseMethodError and CircuitsDatabaseError is Err BadDefinitionError here
   (Base.err has no constructor for them; Model/Db.v has its own dberr; Proofs/DbAlgGen.v: to_db2). *)
Require Import Cirbo.Model.Base Cirbo.Model.Gate Cirbo.Model.Circuit Cirbo.Model.Eval Cirbo.Model.BitIO Cirbo.Model.DictIO.
Require Import Cirbo.Generated.CircuitCore Cirbo.Generated.CircuitAlgos Cirbo.Generated.CodecAlgGen Cirbo.Generated.NormAlgGen.
Local Open Scope Z_scope.

(* ---- fixed prelude (not derived from the source): further Python built-ins ---- *)
(* == on TriValues (bool | DontCare): _DontCare.__eq__ is isinstance(rhs, _DontCare); a bool never equals DontCare *)
Definition tri_eqb (a b : option bool) : bool :=
  match a, b with
  | None, None => true
  | Some x, Some y => Bool.eqb x y
  | _, _ => false
  end.
(* itertools.product(l, repeat=n): the first position varies slowest *)
Fixpoint py_product_nat {A} (l : list A) (n : nat) : list (list A) :=
  match n with
  | O => [[]]
  | S n' => flat_map (fun x => map (cons x) (py_product_nat l n')) l
  end.
Definition py_product {A} (l : list A) (n : Z) : res (list (list A)) :=
  if n <? 0 then Err PyValueError else Ok (py_product_nat l (Z.to_nat n)).
(* circuit.get_truth_table() read as a table of bools (see the header of the translator) *)
Definition py_state_bool (s : st) : res bool :=
  match s with T => Ok true | F => Ok false | U => Err UnmodelledPythonException end.
Definition py_circuit_truth_table (c : circuit) : res (list (list bool)) :=
  do rows <- get_truth_table c; mapM (mapM py_state_bool) rows.
'''


def generate_all():
    unit = DbUnit()
    for dotted, qual in T.COVERED + T.COVERED2:
        unit.function(dotted, qual)
    n = len(unit.order)
    for dotted, qual in COVERED3:
        unit.function(dotted, qual)
    mark = '\n(* ---- derived from the source ---- *)\n'
    return {OUT3: HEADER3 + mark + '\n\n'.join(unit.order[n:]) + '\n'}


def generate():
    return generate_all()[OUT3]


def translate():
    return {f: write_if_changed(f, text) for f, text in generate_all().items()}


if __name__ == '__main__':
    print(generate())
