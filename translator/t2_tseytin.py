"""T2: cirbo/sat/cnf/tseytin.py -> Generated/Tseytin.v

Every module-level `_process_*` function (a clause template) becomes a Gallina function
   tpl_process_x (top_lit : Z) (lits : list Z) : res (list (list Z))
returning the clauses the Python function appends to `cnf`, in order, or `Err PyIndexError`
where a `lits[k]` would raise.  The `_operations` dict inside `tseytin_transformation`
becomes `template_of : gtype -> ...`; `template_by_name` is emitted for the cross-check of
the generated templates against the live Python functions.

Grammar accepted (anything else raises TranslatorError - fail closed):

  def _process_x(<cnf>, <top>, <lits>):        exactly three positional parameters
  stmt ::= pass
         | <cnf>.append(<ilist>)                 a clause is appended
         | <v>.append(<int>)                     v a local list of literals
         | <v> = <int> | <v> = <ilist>
         | <v1>, ..., <vk> = <int>, ..., <int>   (parallel assignment)
         | for <v> in <ilist-name>: <pure stmts> element type int
         | for <v> in itertools.product(<ilist>, repeat=len(<ilist>)): <pure stmts>
                                                 element type list of int
  int  ::= <name> | <int literal> | -<int> | <int> * <int> | <int> % <nonzero int literal>
         | <ilist-name>[<k>]   (k a literal >= 0; not inside a loop or comprehension)
         | <ilist>.count(<int>) | <int> if <int> else <int>
  ilist::= <name> | [<int>, ...] | (<int>, ...)
         | [<int> for <v> in <ilist>] | [<int> for <v>, <w> in zip(<ilist>, <ilist>)]

A loop threads exactly the variables that its body assigns and that existed before the
loop (among them `cnf`); names first assigned inside a loop are local to one iteration.
"""
import ast

from .common import TranslatorError, fail, parse, strip_docstring, top_level_functions, write_if_changed

GTYPES = ['INPUT', 'ALWAYS_TRUE', 'ALWAYS_FALSE', 'AND', 'GEQ', 'GT', 'IFF', 'LEQ', 'LIFF', 'LNOT',
          'LT', 'NAND', 'NOR', 'NOT', 'NXOR', 'OR', 'RIFF', 'RNOT', 'XOR']

COQ_TYPES = {'int': 'Z', 'ilist': 'list Z', 'cnf': 'list (list Z)'}
RESERVED = {'cnf', 'top_lit', 'lits', 'st', 'fun', 'let', 'in', 'if', 'then', 'else', 'match', 'with', 'end',
            'do', 'check', 'forall', 'exists', 'fix', 'as', 'at', 'return', 'Type', 'Prop', 'Set', 'Ok', 'Err',
            'map', 'combine', 'fold_left', 'length', 'nil', 'cons', 'Z', 'nat', 'list', 'res'}


def znum(n: int) -> str:
    return f'{n}' if n >= 0 else f'({n})'


class Template:
    def __init__(self, fn: ast.FunctionDef):
        self.fn = fn
        self.tmp = 0
        self.stored = set()     # python names of lists whose object the cnf holds
        a = fn.args
        if (a.posonlyargs or a.kwonlyargs or a.kwarg or a.vararg or a.defaults or a.kw_defaults
                or len(a.args) != 3 or fn.decorator_list):
            fail(fn, 'template signature must be (cnf, top_lit, lits)')
        p_cnf, p_top, p_lits = (x.arg for x in a.args)
        if len({p_cnf, p_top, p_lits}) != 3:
            fail(fn, 'template parameters must be distinct')
        # python name -> (coq name, type)
        self.env = {p_cnf: ('cnf', 'cnf'), p_top: ('top_lit', 'int'), p_lits: ('lits', 'ilist')}

    # ------------------------------------------------------------ expressions
    def fresh(self):
        self.tmp += 1
        return f't{self.tmp}'

    def bind_name(self, node, name):
        if not name.isidentifier() or name in RESERVED or name.startswith('t') and name[1:].isdigit() \
                or name.startswith('tpl_') or name.startswith('py_'):
            fail(node, f'local name {name!r} not usable in the generated file')
        return name

    def expr(self, node, env, hoist):
        """-> (coq term, type).  hoist: list collecting (tmp, term) effectful pre-bindings in
        evaluation order, or None where a possibly raising sub-expression is not accepted"""
        if isinstance(node, ast.Name):
            if node.id not in env:
                fail(node, 'unknown name')
            return env[node.id]
        if isinstance(node, ast.Constant) and type(node.value) is int:
            return znum(node.value), 'int'
        if isinstance(node, ast.UnaryOp) and isinstance(node.op, ast.USub):
            if isinstance(node.operand, ast.Constant) and type(node.operand.value) is int:
                return znum(-node.operand.value), 'int'
            e = self.int_expr(node.operand, env, hoist)
            return f'(- {e})', 'int'
        if isinstance(node, ast.BinOp) and isinstance(node.op, ast.Mult):
            l = self.int_expr(node.left, env, hoist)
            r = self.int_expr(node.right, env, hoist)
            return f'({l} * {r})', 'int'
        if isinstance(node, ast.BinOp) and isinstance(node.op, ast.Mod):
            l = self.int_expr(node.left, env, hoist)
            k = node.right
            if not (isinstance(k, ast.Constant) and type(k.value) is int and k.value != 0):
                fail(node, 'modulus must be a non-zero integer literal')
            return f'({l} mod {znum(k.value)})', 'int'       # Z.modulo = Python floor modulo
        if isinstance(node, ast.Subscript):
            if hoist is None:
                fail(node, 'subscript (may raise IndexError) inside a loop or comprehension')
            v, t = self.expr(node.value, env, None) if isinstance(node.value, ast.Name) else fail(node, 'subscript base')
            k = node.slice
            if t != 'ilist' or not (isinstance(k, ast.Constant) and type(k.value) is int and k.value >= 0):
                fail(node, 'subscript must be <list of literals>[<literal index >= 0>]')
            tmp = self.fresh()
            hoist.append((tmp, f'py_index {v} {k.value}%nat'))
            return tmp, 'int'
        if isinstance(node, (ast.List, ast.Tuple)):
            if any(isinstance(e, ast.Starred) for e in node.elts):
                fail(node, 'starred element')
            items = [self.int_expr(e, env, hoist) for e in node.elts]
            return '[' + '; '.join(items) + ']', 'ilist'
        if isinstance(node, ast.IfExp):
            # Python evaluates the test first, then one branch; all three are pure here
            c = self.int_expr(node.test, env, None)
            a = self.int_expr(node.body, env, None)
            b = self.int_expr(node.orelse, env, None)
            return f'(if py_truthy {c} then {a} else {b})', 'int'
        if isinstance(node, ast.Call) and isinstance(node.func, ast.Attribute) and node.func.attr == 'count':
            if len(node.args) != 1 or node.keywords:
                fail(node, 'count arity')
            l = self.typed(node.func.value, env, hoist, 'ilist')
            x = self.int_expr(node.args[0], env, hoist)
            return f'(py_count {l} {x})', 'int'
        if isinstance(node, ast.ListComp):
            if len(node.generators) != 1:
                fail(node, 'comprehension with several generators')
            g = node.generators[0]
            if g.ifs or g.is_async:
                fail(node, 'comprehension filter')
            inner = dict(env)
            it = g.iter
            if isinstance(it, ast.Call) and isinstance(it.func, ast.Name) and it.func.id == 'zip' \
                    and 'zip' not in env:
                if len(it.args) != 2 or it.keywords:
                    fail(it, 'zip arity')
                a = self.typed(it.args[0], env, hoist, 'ilist')
                b = self.typed(it.args[1], env, hoist, 'ilist')
                tg = g.target
                if not (isinstance(tg, ast.Tuple) and len(tg.elts) == 2 and all(isinstance(e, ast.Name) for e in tg.elts)
                        and tg.elts[0].id != tg.elts[1].id):
                    fail(tg, 'zip comprehension target must be a pair of names')
                x, y = (self.bind_name(e, e.id) for e in tg.elts)
                inner[x] = (x, 'int')
                inner[y] = (y, 'int')
                body = self.int_expr(node.elt, inner, None)
                return f"(map (fun '(({x}, {y}) : Z * Z) => {body}) (combine {a} {b}))", 'ilist'
            a = self.typed(it, env, hoist, 'ilist')
            if not isinstance(g.target, ast.Name):
                fail(g.target, 'comprehension target')
            x = self.bind_name(g.target, g.target.id)
            inner[x] = (x, 'int')
            body = self.int_expr(node.elt, inner, None)
            return f'(map (fun {x} : Z => {body}) {a})', 'ilist'
        fail(node, 'expression outside grammar')

    def typed(self, node, env, hoist, want):
        e, t = self.expr(node, env, hoist)
        if t != want:
            fail(node, f'expected {want}, found {t}')
        return e

    def int_expr(self, node, env, hoist):
        return self.typed(node, env, hoist, 'int')

    # ------------------------------------------------------------ statements
    @staticmethod
    def with_hoist(hoist, line):
        return [f'do {t} <- {e};' for t, e in hoist] + [line]

    def assigned(self, stmts):
        """python names (in order of first occurrence) that a statement list assigns or appends to"""
        out = []

        def add(n):
            if n not in out:
                out.append(n)
        for s in stmts:
            if isinstance(s, ast.Assign):
                for t in s.targets:
                    for e in (t.elts if isinstance(t, ast.Tuple) else [t]):
                        if isinstance(e, ast.Name):
                            add(e.id)
            elif isinstance(s, ast.Expr) and isinstance(s.value, ast.Call) and isinstance(s.value.func, ast.Attribute) \
                    and isinstance(s.value.func.value, ast.Name):
                add(s.value.func.value.id)
            elif isinstance(s, ast.For):
                for n in self.assigned(s.body):
                    add(n)
        return out

    @staticmethod
    def first_touch(stmts, name):
        """'assign' / 'append' / 'nested' / None: how the first top-level statement that touches `name` does it"""
        for st in stmts:
            if isinstance(st, ast.Assign):
                tgs = st.targets[0].elts if isinstance(st.targets[0], ast.Tuple) else st.targets
                if any(isinstance(t, ast.Name) and t.id == name for t in tgs):
                    return 'assign'
            elif isinstance(st, ast.Expr) and isinstance(st.value, ast.Call) and \
                    isinstance(st.value.func, ast.Attribute) and isinstance(st.value.func.value, ast.Name) and \
                    st.value.func.value.id == name:
                return 'append'
            elif any(isinstance(x, ast.Name) and x.id == name for x in ast.walk(st)) and isinstance(st, ast.For):
                return 'nested'
        return None

    def block(self, stmts, env, pure, indent):
        """-> list of lines; env is updated in place"""
        lines = []
        pad = ' ' * indent
        for s in stmts:
            hoist = None if pure else []
            if isinstance(s, ast.Pass):
                continue
            if isinstance(s, ast.Expr) and isinstance(s.value, ast.Call):
                c = s.value
                f = c.func
                if not (isinstance(f, ast.Attribute) and f.attr == 'append' and isinstance(f.value, ast.Name)
                        and len(c.args) == 1 and not c.keywords):
                    fail(s, 'call statement must be <name>.append(<expr>)')
                if f.value.id not in env:
                    fail(s, 'append to unknown name')
                v, t = env[f.value.id]
                if t == 'cnf':
                    e = self.typed(c.args[0], env, hoist, 'ilist')
                    if isinstance(c.args[0], ast.Name):
                        # the cnf now holds THIS list object: a later change of it would change the stored
                        # clause too, which the value translation below would not show
                        self.stored.add(c.args[0].id)
                elif t == 'ilist' and v != 'lits':
                    if f.value.id in self.stored:
                        fail(s, f'{f.value.id} was stored in the cnf and is changed afterwards (the stored clause '
                                f'would change with it)')
                    e = self.int_expr(c.args[0], env, hoist)
                else:
                    fail(s, 'append target must be the cnf or a local list')
                lines += [pad + x for x in self.with_hoist(hoist or [], f'let {v} := {v} ++ [{e}] in')]
                continue
            if isinstance(s, ast.Assign) and len(s.targets) == 1:
                tg = s.targets[0]
                if isinstance(tg, ast.Name):
                    e, t = self.expr(s.value, env, hoist)
                    if t not in ('int', 'ilist'):
                        fail(s, 'assigned value must be a literal or a list of literals')
                    if t == 'ilist' and isinstance(s.value, ast.Name):
                        fail(s, 'a second name for the same list object (aliasing) is outside the grammar')
                    self.stored.discard(tg.id)
                    if tg.id in env and env[tg.id][0] in ('cnf', 'top_lit', 'lits'):
                        fail(s, 'assignment to a parameter')
                    x = self.bind_name(tg, tg.id)
                    lines += [pad + y for y in self.with_hoist(hoist or [], f'let {x} : {COQ_TYPES[t]} := {e} in')]
                    env[tg.id] = (x, t)
                    continue
                if isinstance(tg, ast.Tuple) and isinstance(s.value, ast.Tuple) and len(tg.elts) == len(s.value.elts) \
                        and all(isinstance(e, ast.Name) for e in tg.elts) \
                        and len({e.id for e in tg.elts}) == len(tg.elts) and len(tg.elts) >= 2:
                    vals = [self.int_expr(e, env, hoist) for e in s.value.elts]
                    names = []
                    for e in tg.elts:
                        if e.id in env and env[e.id][0] in ('cnf', 'top_lit', 'lits'):
                            fail(s, 'assignment to a parameter')
                        names.append(self.bind_name(e, e.id))
                    lines += [pad + y for y in self.with_hoist(
                        hoist or [], f"let '({', '.join(names)}) := ({', '.join(vals)}) in")]
                    for e, x in zip(tg.elts, names):
                        env[e.id] = (x, 'int')
                    continue
                fail(s, 'assignment outside grammar')
            if isinstance(s, ast.For):
                if s.orelse or not isinstance(s.target, ast.Name) or s.target.id in env:
                    fail(s, 'for loop shape (else clause, non-name target or target shadows a variable)')
                it = s.iter
                if isinstance(it, ast.Name):
                    seq = self.typed(it, env, None, 'ilist')
                    et = 'ilist_elem'
                    elem_t = 'int'
                elif (isinstance(it, ast.Call) and isinstance(it.func, ast.Attribute) and it.func.attr == 'product'
                      and isinstance(it.func.value, ast.Name) and it.func.value.id == 'itertools'
                      and 'itertools' not in env and len(it.args) == 1 and len(it.keywords) == 1
                      and it.keywords[0].arg == 'repeat'):
                    vals = self.typed(it.args[0], env, None, 'ilist')
                    rep = it.keywords[0].value
                    if not (isinstance(rep, ast.Call) and isinstance(rep.func, ast.Name) and rep.func.id == 'len'
                            and 'len' not in env and len(rep.args) == 1 and not rep.keywords):
                        fail(rep, 'repeat= must be len(<list>)')
                    n = self.typed(rep.args[0], env, None, 'ilist')
                    seq = f'(py_product_repeat {vals} (length {n}))'
                    elem_t = 'ilist'
                else:
                    fail(it, 'loop iterable outside grammar')
                x = self.bind_name(s.target, s.target.id)
                state = [n for n in self.assigned(s.body) if n in env]
                if not state:
                    fail(s, 'loop body has no effect on outer variables')
                inner = dict(env)
                inner[s.target.id] = (x, elem_t)
                stored_before = set(self.stored)
                body = self.block(s.body, inner, True, indent + 4)
                for n in sorted(self.stored - stored_before):
                    # stored during one iteration: the next iteration must start from a fresh list
                    if self.first_touch(s.body, n) != 'assign':
                        fail(s, f'{n} is stored in the cnf inside the loop and changed again in the next iteration')
                for n in state:
                    if inner[n][1] != env[n][1]:
                        fail(s, f'loop changes the type of {n}')
                snames = [env[n][0] for n in state]
                stypes = [COQ_TYPES[env[n][1]] for n in state]
                if len(state) == 1:
                    lines.append(pad + f'let {snames[0]} := fold_left (fun ({snames[0]} : {stypes[0]}) '
                                       f'({x} : {COQ_TYPES[elem_t]}) =>')
                    lines += body
                    lines.append(pad + f'    {snames[0]}) {seq} {snames[0]} in')
                else:
                    tup = '(' + ', '.join(snames) + ')'
                    lines.append(pad + f"let '{tup} := fold_left (fun (st : {' * '.join(stypes)}) "
                                       f"({x} : {COQ_TYPES[elem_t]}) => let '{tup} := st in")
                    lines += body
                    lines.append(pad + f'    {tup}) {seq} {tup} in')
                continue
            fail(s, 'statement outside grammar')
        return lines

    def emit(self):
        body = strip_docstring(self.fn.body)
        lines = [f'Definition tpl{self.fn.name} (top_lit : Z) (lits : list Z) : res (list (list Z)) :=',
                 '  let cnf : list (list Z) := [] in']
        lines += self.block(body, self.env, False, 2)
        lines.append('  Ok cnf.')
        return '\n'.join(lines) + '\n'


def find_operations(mod):
    fn = top_level_functions(mod).get('tseytin_transformation')
    if fn is None:
        raise TranslatorError('tseytin_transformation not found')
    found = []
    for n in ast.walk(fn):
        tgt = val = None
        if isinstance(n, ast.AnnAssign) and isinstance(n.target, ast.Name):
            tgt, val = n.target.id, n.value
        elif isinstance(n, ast.Assign) and len(n.targets) == 1 and isinstance(n.targets[0], ast.Name):
            tgt, val = n.targets[0].id, n.value
        if tgt == '_operations':
            found.append(val)
    if len(found) != 1 or not isinstance(found[0], ast.Dict):
        raise TranslatorError('_operations must be assigned exactly once, a dict display')
    d = found[0]
    table = {}
    for k, v in zip(d.keys, d.values):
        if not (isinstance(k, ast.Name) and k.id in GTYPES and isinstance(v, ast.Name)):
            fail(d, '_operations entry must be <GateType name>: <_process_ function name>')
        if k.id in table:
            fail(d, f'duplicate key {k.id}')
        table[k.id] = v.id
    if sorted(table) != sorted(GTYPES):
        raise TranslatorError(f'_operations keys differ from the 19 gate types: {sorted(table)}')
    # the dispatch site must pass (cnf, top_lit, lits) in the order the templates declare them
    calls = [n for n in ast.walk(fn) if isinstance(n, ast.Call) and isinstance(n.func, ast.Subscript)
             and isinstance(n.func.value, ast.Name) and n.func.value.id == '_operations']
    if len(calls) != 1 or [getattr(a, 'id', None) for a in calls[0].args] != ['cnf', 'top_lit', 'lits'] \
            or calls[0].keywords:
        raise TranslatorError('_operations[...] must be called exactly once as (cnf, top_lit, lits)')
    return table


def translate():
    mod = parse('cirbo/sat/cnf/tseytin.py')
    funcs = top_level_functions(mod)
    names = [n for n in funcs if n.startswith('_process_')]
    table = find_operations(mod)
    for t, f in table.items():
        if f not in names:
            raise TranslatorError(f'_operations[{t}] = {f} is not a module-level _process_* function')
    out = ['(* GENERATED by translator/t2_tseytin.py from cirbo/sat/cnf/tseytin.py. DO NOT EDIT. *)',
           'Require Import Cirbo.Model.Base Cirbo.Model.Gate Cirbo.Model.Cnf.',
           'Local Open Scope Z_scope.', '']
    for n in names:
        out.append(Template(funcs[n]).emit())
    out += ['(* the _operations dispatch dict *)',
            'Definition template_of (g : gtype) : Z -> list Z -> res (list (list Z)) :=', '  match g with']
    for t in GTYPES:
        out.append(f'  | {t} => tpl{table[t]}')
    out += ['  end.', '', '(* templates by Python function name (cross-check against the live functions) *)',
            'Definition template_by_name (n : string) : option (Z -> list Z -> res (list (list Z))) :=']
    for n in names:
        out.append(f'  if String.eqb n "{n}" then Some tpl{n} else')
    out += ['  None.', '']
    return {'Generated/Tseytin.v': write_if_changed('Generated/Tseytin.v', '\n'.join(out))}


if __name__ == '__main__':
    print(translate())
