"""T8: cirbo/circuits_db/circuits_encoding.py + binary_dict_io.py -> Generated/CodecTables.v

Grammar accepted (anything else raises TranslatorError):
  circuits_encoding.py
    GATE_TYPE_BIT_SIZE = <int literal>
    _gate_type_to_int[: T] = { gate.NAME: <int literal>, ... }      NAME a known gate type, no repeated key
    _int_to_gate_type[: T] = {val: key for key, val in _gate_type_to_int.items()}
    def _get_arity(gate_type): [docstring]
        if <cond>: return <int>  [elif <cond>: return <int>]*  else: return <int>
        (or the last `return <int>` after the if instead of an else branch)
        <cond> ::= gate_type == gate.NAME | <cond> or <cond>
  binary_dict_io.py
    DICT_SIZE_BYTE_SIZE / DICT_KEY_BYTE_SIZE / DICT_VALUE_BYTE_SIZE = <int literal>
The inverse table is computed with Python dict semantics (a later item overwrites an earlier one with the
same code), so a collision in the source shows up as a failing injectivity theorem, not as a translator error.
"""
import ast

from .common import TranslatorError, fail, parse, strip_docstring, top_level_assigns, top_level_functions, write_if_changed

GTYPES = ['INPUT', 'ALWAYS_TRUE', 'ALWAYS_FALSE', 'AND', 'GEQ', 'GT', 'IFF', 'LEQ', 'LIFF', 'LNOT',
          'LT', 'NAND', 'NOR', 'NOT', 'NXOR', 'OR', 'RIFF', 'RNOT', 'XOR']


def _int(node, what, lo=0, hi=None):
    if not (isinstance(node, ast.Constant) and type(node.value) is int):
        fail(node, f'{what} must be an integer literal')
    if node.value < lo or (hi is not None and node.value > hi):
        fail(node, f'{what} out of the range the model supports')
    return node.value


def _gate_attr(node):
    if (isinstance(node, ast.Attribute) and isinstance(node.value, ast.Name) and node.value.id == 'gate'
            and node.attr in GTYPES):
        return node.attr
    fail(node, 'expected gate.<GATE TYPE NAME>')


def _type_table(node):
    if not isinstance(node, ast.Dict):
        fail(node, '_gate_type_to_int must be a dict literal')
    table = []
    for k, v in zip(node.keys, node.values):
        if k is None:
            fail(node, 'dict unpacking in _gate_type_to_int')
        name = _gate_attr(k)
        if any(name == n for n, _ in table):
            fail(k, 'repeated key in _gate_type_to_int')
        table.append((name, _int(v, 'gate type code')))
    return table


def _check_inverse(node):
    ok = (isinstance(node, ast.DictComp)
          and isinstance(node.key, ast.Name) and isinstance(node.value, ast.Name)
          and len(node.generators) == 1)
    if ok:
        g = node.generators[0]
        ok = (not g.ifs and not g.is_async and isinstance(g.target, ast.Tuple) and len(g.target.elts) == 2
              and all(isinstance(e, ast.Name) for e in g.target.elts)
              and isinstance(g.iter, ast.Call) and not g.iter.args and not g.iter.keywords
              and isinstance(g.iter.func, ast.Attribute) and g.iter.func.attr == 'items'
              and isinstance(g.iter.func.value, ast.Name) and g.iter.func.value.id == '_gate_type_to_int')
    if ok:
        kname, vname = (e.id for e in node.generators[0].target.elts)
        ok = kname != vname and node.key.id == vname and node.value.id == kname
    if not ok:
        fail(node, '_int_to_gate_type must be {val: key for key, val in _gate_type_to_int.items()}')


def _cond(node, param):
    """-> list of gate type names for which the condition is true"""
    if isinstance(node, ast.BoolOp) and isinstance(node.op, ast.Or):
        out = []
        for v in node.values:
            out += _cond(v, param)
        return out
    if (isinstance(node, ast.Compare) and len(node.ops) == 1 and isinstance(node.ops[0], ast.Eq)
            and isinstance(node.left, ast.Name) and node.left.id == param and len(node.comparators) == 1):
        return [_gate_attr(node.comparators[0])]
    fail(node, 'condition of _get_arity outside the grammar')


def _ret(stmts):
    if len(stmts) == 1 and isinstance(stmts[0], ast.Return) and stmts[0].value is not None:
        return _int(stmts[0].value, 'arity', 0, 8)
    fail(stmts[0] if stmts else None, 'branch of _get_arity must be a single `return <int>`')


def _arity(fn):
    if fn is None:
        raise TranslatorError('_get_arity not found')
    a = fn.args
    if len(a.args) != 1 or a.vararg or a.kwarg or a.kwonlyargs or a.defaults or a.posonlyargs:
        fail(fn, '_get_arity must take exactly one positional parameter')
    param = a.args[0].arg
    body = strip_docstring(fn.body)
    branches = []          # [(names, arity)]
    default = None
    while True:
        if not body:
            fail(fn, '_get_arity falls off the end')
        st = body[0]
        if isinstance(st, ast.Return):
            if len(body) != 1:
                fail(body[1], 'statement after the final return of _get_arity')
            default = _ret([st])
            break
        if not isinstance(st, ast.If):
            fail(st, 'statement of _get_arity outside the grammar')
        branches.append((_cond(st.test, param), _ret(st.body)))
        if st.orelse:
            if len(body) != 1:
                fail(body[1], 'statement after if/else in _get_arity')
            body = st.orelse
        else:
            body = body[1:]
    table = {}
    for t in GTYPES:
        table[t] = default
        for names, ar in branches:
            if t in names:
                table[t] = ar
                break
    return table, default


def translate():
    enc = parse('cirbo/circuits_db/circuits_encoding.py')
    dio = parse('cirbo/circuits_db/binary_dict_io.py')
    ea, da = top_level_assigns(enc), top_level_assigns(dio)
    for name in ('GATE_TYPE_BIT_SIZE', '_gate_type_to_int', '_int_to_gate_type'):
        if name not in ea:
            raise TranslatorError(f'{name} not found in circuits_encoding.py')
    bit_size = _int(ea['GATE_TYPE_BIT_SIZE'], 'GATE_TYPE_BIT_SIZE', 0, 64)
    table = _type_table(ea['_gate_type_to_int'])
    _check_inverse(ea['_int_to_gate_type'])
    inverse = {}
    for name, code in table:          # dict comprehension: later items overwrite
        inverse[code] = name
    arity, default = _arity(top_level_functions(enc).get('_get_arity'))
    consts = {}
    for name in ('DICT_SIZE_BYTE_SIZE', 'DICT_KEY_BYTE_SIZE', 'DICT_VALUE_BYTE_SIZE'):
        if name not in da:
            raise TranslatorError(f'{name} not found in binary_dict_io.py')
        consts[name] = _int(da[name], name, 0, 64)

    codes = dict(table)
    out = ['(* GENERATED by translator/t8_codec.py from cirbo/circuits_db/circuits_encoding.py and '
           'binary_dict_io.py. DO NOT EDIT. *)',
           'Require Import Cirbo.Model.Base Cirbo.Model.Gate.', '',
           f'Definition GATE_TYPE_BIT_SIZE : nat := {bit_size}.']
    for name, v in consts.items():
        out.append(f'Definition {name} : nat := {v}.')
    out += ['', '(* _gate_type_to_int.get(gate_type) *)',
            'Definition gate_type_to_int (g : gtype) : option N :=', '  match g with']
    for t in GTYPES:
        out.append(f'  | {t} => ' + (f'Some {codes[t]}%N' if t in codes else 'None'))
    out += ['  end.', '', '(* _int_to_gate_type.get(gate_type_id) *)',
            'Definition int_to_gate_type (n : N) : option gtype :=', '  match n with']
    for code in sorted(inverse):
        out.append(f'  | {code}%N => Some {inverse[code]}')
    out += ['  | _ => None', '  end.', '', '(* _get_arity(gate_type) *)',
            'Definition get_arity (g : gtype) : nat :=', '  match g with']
    for t in GTYPES:
        out.append(f'  | {t} => {arity[t]}')
    out += ['  end.', '']
    return {'Generated/CodecTables.v': write_if_changed('Generated/CodecTables.v', '\n'.join(out))}


if __name__ == '__main__':
    print(translate())
