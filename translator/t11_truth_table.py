"""T11: cirbo/core/utils.py, cirbo/core/circuit/utils.py (input_iterator_with_fixed_sum), cirbo/core/truth_table.py,
    cirbo/core/python_function.py  ->  Generated/TruthTableCore.v

A statement-level imperative-to-functional translation of the helpers of core/utils.py, of the classes
TruthTable and TruthTableModel, and of the constructor and protocol methods of PyFunction and PyFunctionModel
(not their static factories and PyFunctionModel.define, which build and return closures: translator/t26_py_factories.py, built on this one, regenerates those).  Every function / method of COVERED becomes `gen_<name>` (methods:
`gen_<Class>_<name>`); Proofs/TruthTableGen*.v prove each of them equal to the hand model Model/FuncProto.v
(the object of the C12 theorems), so an edit of a covered body changes a generated definition and breaks an
equality lemma.  Anything outside the grammar raises TranslatorError (the check then fails closed).  COVERED is
the fixed list of definitions that must translate.  The generated Gallina is built from the statements of the
source; the translator knows no function of the library by name (only COVERED, which selects what is emitted).

Values.  int -> Z; bool -> bool; str -> string; list / tuple[T, ...] / Sequence / Iterable -> list; tuple[A, B] ->
pair; Optional[T] -> option; Mapping[K, V] -> list (K * V) (only `.items()`); TriValue (= Union[bool, _DontCare])
-> FuncProto.tri; Callable[[A], R] -> a function A -> res R (called as f(x) / self._f(x)); the float returned by
math.log2 -> the record log2val of the prelude; tp.Any -> a type parameter.  A Union loses its `str` and `Literal[...]` members (the hand model has no string / 0 / 1 cells), so
`isinstance(x, str)` is False on such a value and the branch it guards is not translated.  An object of a
translated class is the record of the attributes that its __init__ assigns (`self._a = e` in order); methods
read the attributes and never write them; `@property` methods are ordinary functions of self.  A function whose
parameter is declared over bool cells and that is called on tri cells (tp.cast is the identity) is translated a
second time at that type (`<name>_at_tri`).

Every generated function returns `res T`; a Python exception is `Err <kind>` (kinds = constructors of Base.err;
BadBooleanValue, which has none, is BadDefinitionError as in the correspondence harness).

Grammar.
  <stmt> ::= <name>[: T] = <expr>  |  return [<expr>]  |  raise <Exc>[(<constants>)]
           | if <expr>: <stmts> [elif ...] [else: <stmts>]
           | for <target> in <iterable>: <stmts>      target: name or (nested) tuple of names; `break`, `continue`
                                                      and `return` allowed in the body; no for-else
           | <name>[i] = <expr>  |  <name>[i][j] = <expr>  |  <name>.insert(i, e)     in-place updates of a local list
           | yield <expr>                             (generator: the function returns the list of yielded values)
           | def <closure>(<annotated params>): [nonlocal ...] <stmts>   captures never re-assigned variables
           | self.<attr>[: T] = <expr>                in __init__ only (not in loops; every path must assign the same
                                                      attributes in the same order); there `self.<property>` is read
                                                      only for a trivial getter of an attribute already assigned
  <iterable> ::= <list expr> | range(a[, b]) | enumerate(l) | zip(a, b) | itertools.product((False, True), repeat=n)
           | itertools.combinations(l, k) | <mapping>.items() | <str expr> | <iterator variable>
           | <call of a generator>
  <expr> ::= names, True / False / None, int and str literals, DontCare, self.<attr>, self.<property>,
           a + b, a - b, a * b (ints; list * int; str * int), a & b, a << b, a >> b (ValueError on a negative count),
           a ^ b (bools), not / and / or (short circuit kept when the right operand can raise), == != < <= > >=
           (typed: bools, ints, strings, tri, lists; bool or tri against an int literal; < > also on bools),
           `x is [not] None`,
           a if c else b, l[i] (Python indexing incl. negative; IndexError), l[i:], s[i:], len, list(x), [a, ...],
           (a, b), [e for t in it [if c]], all / any / ''.join / list over a generator expression or a list,
           list(map(f, l)), zip(*l), iter(l) / next(it) (StopIteration) on a local iterator variable (iter(...),
           itertools.product(...) or itertools.combinations(...) bound to a name),
           int(b), int(s), int(s, 2), str(i), bool(i), bin(i), math.log2(i) with .is_integer() / int(.),
           isinstance(x, str), copy.deepcopy(x), tp.cast(T, x) = x, calls of translated functions, methods, closures
           and constructors (positional / keyword arguments, constant defaults).

Order of evaluation: sub-expressions that can raise are bound (`do t <- ...`) in Python's left-to-right order.

Aliasing discipline (what makes the functional reading sound): parameters and attributes are never updated in
place; a local that is updated in place must have been created fresh (list(...), a literal, a comprehension,
l * k, copy.deepcopy; for `x[i][j] = e` only copy.deepcopy) and may be read, indexed, iterated, copied, compared
and passed to calls that return scalars (or to the constructor of a returned object), but never bound to another
name, yielded, stored or captured; a loop may not iterate over a list its body updates.  A generator is run to
completion before its consumer starts (this differs from Python only in which exception is seen if both raise).
"""
import ast
import re

from .common import TranslatorError, fail, guard_module, repo_root, strip_docstring, verif_root, write_if_changed

OUT = 'Generated/TruthTableCore.v'
UTILS = 'cirbo.core.utils'
CUTILS = 'cirbo.core.circuit.utils'
TT = 'cirbo.core.truth_table'
PF = 'cirbo.core.python_function'
CLASS_MODULES = (TT, PF)

# (module, qualified name): ALL of them must translate, in this emission priority (callees are emitted first)
COVERED = [
    (UTILS, 'input_to_canonical_index'), (UTILS, 'canonical_index_to_input'), (UTILS, 'get_bit_value'),
    (CUTILS, 'input_iterator_with_fixed_sum'),
    (TT, 'resolve_input_size'), (TT, '_parse_bool'), (TT, '_parse_trival'),
    (TT, 'TruthTable.__init__'), (TT, 'TruthTable.input_size'), (TT, 'TruthTable.output_size'),
    (TT, 'TruthTable.evaluate'), (TT, 'TruthTable.evaluate_at'),
    (TT, 'TruthTable.is_constant_at'), (TT, 'TruthTable.is_constant'),
    (TT, 'TruthTable.is_monotone_at'), (TT, 'TruthTable.is_monotone'),
    (TT, 'TruthTable.is_symmetric'), (TT, 'TruthTable.is_symmetric_at'),
    (TT, 'TruthTable.is_dependent_on_input_at'),
    (TT, 'TruthTable.is_output_equal_to_input'), (TT, 'TruthTable.is_output_equal_to_input_negation'),
    (TT, 'TruthTable.get_significant_inputs_of'), (TT, 'TruthTable.find_negations_to_make_symmetric'),
    (TT, 'TruthTable.get_truth_table'),
    (TT, 'TruthTableModel.__init__'), (TT, 'TruthTableModel.input_size'), (TT, 'TruthTableModel.output_size'),
    (TT, 'TruthTableModel.check'), (TT, 'TruthTableModel.check_at'),
    (TT, 'TruthTableModel.get_model_truth_table'), (TT, 'TruthTableModel.define'),
    (PF, 'PyFunction.__init__'), (PF, 'PyFunction.input_size'), (PF, 'PyFunction.output_size'),
    (PF, 'PyFunction.evaluate'), (PF, 'PyFunction.evaluate_at'),
    (PF, 'PyFunction.is_constant'), (PF, 'PyFunction.is_constant_at'),
    (PF, 'PyFunction.is_monotone'), (PF, 'PyFunction.is_monotone_at'),
    (PF, 'PyFunction.is_symmetric'), (PF, 'PyFunction.is_symmetric_at'),
    (PF, 'PyFunction.is_dependent_on_input_at'),
    (PF, 'PyFunction.is_output_equal_to_input'), (PF, 'PyFunction.is_output_equal_to_input_negation'),
    (PF, 'PyFunction.get_significant_inputs_of'), (PF, 'PyFunction.find_negations_to_make_symmetric'),
    (PF, 'PyFunction.get_truth_table'),
    (PF, 'PyFunctionModel.__init__'), (PF, 'PyFunctionModel.input_size'), (PF, 'PyFunctionModel.output_size'),
    (PF, 'PyFunctionModel.check'), (PF, 'PyFunctionModel.check_at'), (PF, 'PyFunctionModel.get_model_truth_table'),
]

ERR_ALIAS = {'BadBooleanValue': 'BadDefinitionError'}
EXC_MODULES = ('cirbo.core.exceptions', 'cirbo.core.circuit.exceptions')
BUILTINS = {'len', 'range', 'enumerate', 'zip', 'list', 'all', 'any', 'iter', 'next', 'int', 'bool', 'str', 'bin',
            'isinstance', 'map', 'tuple'}

BOOL, INT, STR, TRI, UNIT, LOG2, DC = 'bool', 'int', 'str', 'tri', 'unit', 'log2', 'dontcare'


def TL(t):
    return ('list', t)


# hook for translators built on this one (T25): scalar type tag -> (Coq type, Coq Boolean equality)
EXTRA_TY = {}


def coq_ty(t):
    if isinstance(t, str) and t in EXTRA_TY:
        return EXTRA_TY[t][0]
    if t == BOOL:
        return 'bool'
    if t == INT:
        return 'Z'
    if t == STR:
        return 'string'
    if t == TRI:
        return 'tri'
    if t == UNIT:
        return 'unit'
    if t == LOG2:
        return 'log2val'
    if isinstance(t, tuple):
        if t[0] in ('list', 'iter'):
            return f'list {paren_ty(t[1])}'
        if t[0] == 'opt':
            return f'option {paren_ty(t[1])}'
        if t[0] == 'tuple':
            return ' * '.join(paren_ty(x) for x in t[1])
        if t[0] == 'map':
            return f'list ({paren_ty(t[1])} * {paren_ty(t[2])})'
        if t[0] == 'obj':
            return 'gen_' + t[1]
        if t[0] == 'fun':
            return ' -> '.join([paren_ty(a) for a in t[1]] + [f'res {paren_ty(t[2])}'])
        if t[0] == 'var':
            return t[1]
    raise TranslatorError(f'no Coq type for {t!r}')


def paren_ty(t):
    c = coq_ty(t)
    return f'({c})' if ' ' in c else c


def eqb_of(t, node=None):
    """the Boolean equality that `==` denotes on values of type t"""
    if isinstance(t, str) and t in EXTRA_TY:
        return EXTRA_TY[t][1]
    if t == BOOL:
        return 'Bool.eqb'
    if t == INT:
        return 'Z.eqb'
    if t == STR:
        return 'String.eqb'
    if t == TRI:
        return 'tri_eqb'
    if isinstance(t, tuple) and t[0] == 'list':
        return f'(all_eqb {eqb_of(t[1], node)})'
    fail(node, f'== is not translated on values of type {t!r}')


def subst_cells(t, a, b):
    """t with the cell type a replaced by b"""
    if t == a:
        return b
    if isinstance(t, tuple) and t[0] in ('list', 'opt'):
        return (t[0], subst_cells(t[1], a, b))
    return t


def ind(text, n=2):
    pad = ' ' * n
    return '\n'.join(pad + ln if ln else ln for ln in text.split('\n'))


def paren(text):
    text = text.strip()
    if re.fullmatch(r"[\w.']+|\[\]|\(.*\)|\".*\"", text, re.S) and not _unbalanced(text):
        return text
    if '\n' not in text:
        return f'({text})'
    return '(' + ind(text, 1)[1:] + ')'


def _unbalanced(text):
    """True if `text` starts with ( but that parenthesis closes before the end: (a) b (c)"""
    if not text.startswith('('):
        return False
    depth = 0
    for i, ch in enumerate(text):
        if ch == '(':
            depth += 1
        elif ch == ')':
            depth -= 1
            if depth == 0 and i != len(text) - 1:
                return True
    return False


def seq(pre, tail):
    return '\n'.join(list(pre) + [tail])


def mbody(pre, v):
    """the computation `pre; Ok v` (without the final re-binding when v is the last bound temporary)"""
    if pre and pre[-1].startswith(f'do {v.code} <- ') and pre[-1].endswith(';') and re.fullmatch(r't\d+', v.code):
        return seq(pre[:-1], pre[-1][len(f'do {v.code} <- '):-1])
    return seq(pre, f'Ok {paren(v.code)}')


def tuple_of(names):
    if not names:
        return 'tt'
    if len(names) == 1:
        return names[0]
    return '(' + ', '.join(names) + ')'


def binder_of(names):
    if not names:
        return '(_ : unit)'
    if len(names) == 1:
        return names[0]
    return "'(" + ', '.join(names) + ')'


def dopat_of(names):
    if not names:
        return '_'
    return tuple_of(names)


def err_constructors():
    text = (verif_root() / 'coq' / 'Model' / 'Base.v').read_text()
    m = re.search(r'Inductive err : Type :=(.*?)\.\n', text, re.S)
    if not m:
        raise TranslatorError('cannot find Inductive err in Model/Base.v')
    return set(re.findall(r'\|\s*(\w+)', m.group(1)))


# ---------------------------------------------------------------------------------------------- modules
class Mod:
    """one source module: its ast and what every module-level name is bound to"""

    def __init__(self, dotted):
        self.dotted = dotted
        rel = dotted.replace('.', '/') + '.py'
        p = repo_root() / rel
        try:
            self.ast = ast.parse(p.read_text(), filename=str(p))
        except (OSError, SyntaxError) as e:
            raise TranslatorError(f'cannot parse {p}: {e}')
        guard_module(self.ast)
        self.bind = {}
        self.tainted = set()
        count = {}

        def add(name, what):
            count[name] = count.get(name, 0) + 1
            self.bind[name] = what

        for n in self.ast.body:
            if isinstance(n, ast.ImportFrom):
                if n.level:
                    fail(n, 'relative import')
                for a in n.names:
                    add(a.asname or a.name, ('from', n.module, a.name))
            elif isinstance(n, ast.Import):
                for a in n.names:
                    if a.asname is None and '.' in a.name:
                        fail(n, 'import of a dotted module without `as`')
                    add(a.asname or a.name, ('module', a.name))
            elif isinstance(n, ast.FunctionDef):
                add(n.name, ('func', n))
            elif isinstance(n, ast.ClassDef):
                add(n.name, ('class', n))
            elif isinstance(n, ast.AsyncFunctionDef):
                add(n.name, ('other', n))
            elif isinstance(n, ast.Assign):
                self.taint_call_arguments(n.value)
                for t in n.targets:
                    for s in ast.walk(t):
                        if isinstance(s, ast.Name):
                            add(s.id, ('assign', n.value) if t is s and len(n.targets) == 1 else ('other', n))
            elif isinstance(n, ast.AnnAssign) and isinstance(n.target, ast.Name):
                if n.value is not None:
                    self.taint_call_arguments(n.value)
                add(n.target.id, ('assign', n.value) if n.value is not None else ('other', n))
            elif isinstance(n, ast.Expr) and isinstance(n.value, ast.Constant):
                pass
            else:
                # a module-level statement that is not a plain binding may do anything to the objects it mentions
                # (setattr(TruthTable, ...), functools.update_wrapper(f, g), ...): they become unusable
                for s in ast.walk(n):
                    if isinstance(s, ast.Name) and isinstance(s.ctx, ast.Load):
                        self.tainted.add(s.id)
                # anything else at module level (if / for / try / with / del / calls ...) makes every name it
                # mentions in a binding position ambiguous
                for s in ast.walk(n):
                    if isinstance(s, ast.Name) and isinstance(s.ctx, (ast.Store, ast.Del)):
                        add(s.id, ('other', n))
                        count[s.id] += 1
                    elif isinstance(s, (ast.Import, ast.ImportFrom)):
                        for a in s.names:
                            add((a.asname or a.name).split('.')[0], ('other', n))
                            count[(a.asname or a.name).split('.')[0]] += 1
                    elif isinstance(s, (ast.FunctionDef, ast.ClassDef)):
                        add(s.name, ('other', n))
                        count[s.name] += 1
        for name, k in count.items():
            if k > 1:
                self.bind[name] = ('ambiguous', None)
        for name in self.tainted:
            if name in self.bind and self.bind[name][0] in ('func', 'class', 'from', 'assign'):
                self.bind[name] = ('ambiguous', None)

    def taint_call_arguments(self, value):
        """x = f(TruthTable, ...) at module level: f may change what its arguments are"""
        for c in ast.walk(value):
            if isinstance(c, ast.Call):
                for a in list(c.args) + [k.value for k in c.keywords]:
                    for s in ast.walk(a):
                        if isinstance(s, ast.Name):
                            self.tainted.add(s.id)


class Fn:
    def __init__(self, coqname):
        self.coqname = coqname
        self.params = []        # (python name, type, default ast or None)
        self.tyvars = []
        self.ret_ty = None
        self.text = None
        self.is_gen = False


class Var:
    def __init__(self, code, ty, kind='local', fresh=0):
        self.code, self.ty, self.kind, self.fresh = code, ty, kind, fresh


class Val:
    def __init__(self, code, ty, m=False, fresh=0):
        self.code, self.ty, self.m, self.fresh = code, ty, m, fresh


class Ctx:
    """where a statement stands: how to return / break / continue, and the loop-carried variables"""

    def __init__(self, ret, brk=None, cont=None):
        self.ret, self.brk, self.cont = ret, brk, cont


# ---------------------------------------------------------------------------------------------- the unit
class ClassInfo:
    def __init__(self, mod, node):
        self.mod, self.node, self.name = mod, node, node.name
        self.methods = {}
        self.fields = None          # [(attribute, type)] once __init__ is translated
        for n in node.body:
            if isinstance(n, ast.FunctionDef):
                if n.name.startswith('__') and n.name != '__init__':
                    fail(n, f'class {node.name}: special method {n.name} (it may change what attribute access, '
                            f'indexing or comparison of the object mean)')
                self.methods[n.name] = None if n.name in self.methods else n
            elif isinstance(n, ast.Expr) and isinstance(n.value, ast.Constant):
                pass
            else:
                fail(n, f'class {node.name}: statement outside grammar in the class body')
        if node.decorator_list or node.keywords:
            fail(node, f'class {node.name}: decorators / metaclass')

    def method(self, name, node=None):
        if name not in self.methods:
            fail(node, f'{self.name}.{name} is not defined in the class body (inherited methods are not translated)')
        if self.methods[name] is None:
            fail(node, f'{self.name}.{name} is defined more than once')
        return self.methods[name]

    def is_property(self, name):
        m = self.methods.get(name)
        return m is not None and [ast.dump(d) for d in m.decorator_list] == [ast.dump(ast.Name('property', ast.Load()))]


class Unit:
    def __init__(self):
        self.mods = {}
        self.errs = err_constructors()
        self.done = {}          # key -> Fn
        self.items = []         # emission order: ('record', text) | ('fn', Fn)
        self.in_progress = set()
        self.classes = {}
        self.tyvar_n = 0

    def mod(self, dotted):
        if dotted not in self.mods:
            self.mods[dotted] = Mod(dotted)
        return self.mods[dotted]

    def resolve(self, mod, name, node=None):
        b = mod.bind.get(name)
        if b is None:
            return None
        if b[0] in ('ambiguous', 'other'):
            fail(node, f'module-level name {name!r} of {mod.dotted} is not a single plain binding')
        if b[0] == 'from':
            if b[1].startswith('cirbo.'):
                r = self.resolve(self.mod(b[1]), b[2], node)
                if r is None:
                    fail(node, f'{b[1]}.{b[2]} not found')
                return r
            return ('ext', b[1], b[2])
        if b[0] == 'module':
            return ('module', b[1])
        return (b[0], mod, b[1])

    def classinfo(self, mod, node):
        key = (mod.dotted, node.name)
        if key not in self.classes:
            self.classes[key] = ClassInfo(mod, node)
        return self.classes[key]

    def is_dontcare_class(self, mod, node):
        """logic._DontCare with __eq__(self, rhs) = isinstance(rhs, _DontCare)"""
        if mod.dotted != 'cirbo.core.logic' or node.name != '_DontCare':
            return False
        eqs = [n for n in node.body if isinstance(n, ast.FunctionDef) and n.name == '__eq__']
        if len(eqs) != 1 or eqs[0].decorator_list or len(eqs[0].args.args) != 2:
            fail(node, '_DontCare.__eq__ must be a single plain method')
        body = strip_docstring(eqs[0].body)
        want = f"Return(value=Call(func=Name(id='isinstance', ctx=Load()), args=[Name(id='{eqs[0].args.args[1].arg}', " \
               f"ctx=Load()), Name(id='_DontCare', ctx=Load())], keywords=[]))"
        if len(body) != 1 or ast.dump(body[0]) != want or 'isinstance' in mod.bind:
            fail(eqs[0], '_DontCare.__eq__ must be `return isinstance(rhs, _DontCare)`')
        if any(isinstance(n, ast.FunctionDef) and n.name in ('__ne__', '__getattribute__') for n in node.body) \
                or node.bases or node.decorator_list or node.keywords:
            fail(node, '_DontCare: unexpected members / bases')
        return True

    def is_dontcare_value(self, r):
        """r = resolve(...) of a name: the module-level `DontCare = _DontCare()`"""
        if r is None or r[0] != 'assign':
            return False
        v = r[2]
        if isinstance(v, ast.Call) and isinstance(v.func, ast.Name) and not v.args and not v.keywords:
            c = self.resolve(r[1], v.func.id, v)
            return c is not None and c[0] == 'class' and self.is_dontcare_class(c[1], c[2])
        return False

    def exception_kind(self, mod, node):
        """raise X / raise X(...): the err constructor"""
        target = node.func if isinstance(node, ast.Call) else node
        if isinstance(node, ast.Call):
            for a in list(node.args) + [k.value for k in node.keywords]:
                if not (isinstance(a, ast.Constant) and isinstance(a.value, str)):
                    fail(node, 'exception arguments must be string constants')
        if not isinstance(target, ast.Name):
            fail(node, 'raise of something that is not a named exception class')
        r = self.resolve(mod, target.id, node)
        if r is None or r[0] != 'class' or r[1].dotted not in EXC_MODULES:
            fail(node, f'{target.id} is not an exception class of cirbo.core.exceptions')
        name = ERR_ALIAS.get(r[2].name, r[2].name)
        if name not in self.errs:
            fail(node, f'exception {name} has no constructor in Base.err')
        return name

    # ---- annotations
    def typing_head(self, node, mod):
        """Sequence / Optional / ... for tp.X, list / tuple for the builtins"""
        if isinstance(node, ast.Attribute) and isinstance(node.value, ast.Name):
            r = self.resolve(mod, node.value.id, node)
            if r == ('module', 'typing'):
                return node.attr
        if isinstance(node, ast.Name) and node.id in ('list', 'tuple') and node.id not in mod.bind:
            return node.id
        return None

    def ann(self, node, mod, tyvars):
        if node is None:
            raise TranslatorError('missing annotation')
        if isinstance(node, ast.Constant) and node.value is None:
            return UNIT
        if isinstance(node, ast.Constant) and isinstance(node.value, str):
            try:
                inner = ast.parse(node.value, mode='eval').body
            except SyntaxError:
                fail(node, 'string annotation')
            return self.ann(inner, mod, tyvars)
        if isinstance(node, ast.Name):
            if node.id in ('bool', 'int', 'str') and node.id not in mod.bind:
                return {'bool': BOOL, 'int': INT, 'str': STR}[node.id]
            r = self.resolve(mod, node.id, node)
            if r is None:
                fail(node, f'unknown type name {node.id}')
            if r[0] == 'class':
                if self.is_dontcare_class(r[1], r[2]):
                    return DC
                if r[1].dotted in CLASS_MODULES:
                    return ('obj', r[2].name)
                fail(node, f'class {node.id} is not a translated type')
            if r[0] == 'assign':
                return self.ann(r[2], r[1], tyvars)
            fail(node, f'{node.id} is not a type')
        head = self.typing_head(node, mod)
        if head == 'Any':
            self.tyvar_n += 1
            v = 'A' if self.tyvar_n == 1 else f'A{self.tyvar_n}'
            tyvars.append(v)
            return ('var', v)
        if isinstance(node, ast.Subscript):
            head = self.typing_head(node.value, mod)
            sl = node.slice
            if head in ('Sequence', 'Iterable', 'List', 'MutableSequence', 'list'):
                return TL(self.ann(sl, mod, tyvars))
            if head == 'Optional':
                return ('opt', self.ann(sl, mod, tyvars))
            if head == 'Literal':
                return 'literal'
            if head == 'Union':
                if not isinstance(sl, ast.Tuple):
                    fail(node, 'Union of one type')
                members = {self.ann(e, mod, tyvars) for e in sl.elts} - {STR, 'literal'}
                if members == {BOOL}:
                    return BOOL
                if members <= {BOOL, DC, TRI} and members & {DC, TRI}:
                    return TRI
                fail(node, 'Union outside grammar')
            if head == 'Callable':
                if not (isinstance(sl, ast.Tuple) and len(sl.elts) == 2 and isinstance(sl.elts[0], ast.List)
                        and sl.elts[0].elts):
                    fail(node, 'Callable[[args], result] expected')
                return ('fun', tuple(self.ann(e, mod, tyvars) for e in sl.elts[0].elts),
                        self.ann(sl.elts[1], mod, tyvars))
            if head == 'Mapping':
                if not (isinstance(sl, ast.Tuple) and len(sl.elts) == 2):
                    fail(node, 'Mapping')
                return ('map', self.ann(sl.elts[0], mod, tyvars), self.ann(sl.elts[1], mod, tyvars))
            if head == 'tuple':
                if isinstance(sl, ast.Tuple) and len(sl.elts) == 2 and isinstance(sl.elts[1], ast.Constant) \
                        and sl.elts[1].value is Ellipsis:
                    return TL(self.ann(sl.elts[0], mod, tyvars))
                if isinstance(sl, ast.Tuple) and len(sl.elts) >= 2:
                    return ('tuple', tuple(self.ann(e, mod, tyvars) for e in sl.elts))
        fail(node, 'annotation outside grammar')

    def make_tr(self, mod, node, cls, coqname, inst, outer=None):
        """hook: the translator object of one definition / closure"""
        return FnTr(self, mod, node, cls, coqname, inst, outer=outer)

    # ---- translation of one definition (memoised)
    def function(self, mod, node, cls=None, inst=None):
        suffix = ''
        if inst:
            suffix = '_at_' + '_'.join(str(i) + coq_ty(t).replace(' ', '_').replace('(', '').replace(')', '')
                                      for i, t in sorted(inst.items()))
            suffix = '_at_tri' if all('tri' in coq_ty(t) for t in inst.values()) else suffix
        key = (mod.dotted, (cls.name + '.' if cls else '') + node.name, suffix)
        if key in self.done:
            return self.done[key]
        if key in self.in_progress:
            fail(node, f'recursive definition {key[1]}')
        self.in_progress.add(key)
        if cls is not None and node.name != '__init__' and cls.fields is None:
            self.function(cls.mod, cls.method('__init__', node), cls)
        coqname = 'gen_' + (cls.name + '_' if cls else '') + node.name + suffix
        tr = self.make_tr(mod, node, cls, coqname, inst or {})
        fn = tr.translate()
        self.in_progress.discard(key)
        self.done[key] = fn
        self.items.append(('fn', fn))
        return fn


# ---------------------------------------------------------------------------------------------- one function
def walk_no_defs(nodes):
    """all nodes of the statements, not entering nested function definitions / lambdas"""
    stack = list(nodes)
    while stack:
        n = stack.pop()
        yield n
        if isinstance(n, (ast.FunctionDef, ast.Lambda, ast.AsyncFunctionDef, ast.ClassDef)):
            continue        # the definition itself is seen, its body is not
        stack.extend(ast.iter_child_nodes(n))


def has_return(stmts):
    return any(isinstance(n, ast.Return) for n in walk_no_defs(stmts))


def has_break_here(stmts):
    """a `break` that leaves the loop whose body is `stmts`"""
    for s in stmts:
        if isinstance(s, ast.Break):
            return True
        if isinstance(s, ast.If) and (has_break_here(s.body) or has_break_here(s.orelse)):
            return True
        if isinstance(s, (ast.With, ast.Try, ast.While)):
            return True     # outside the grammar anyway
    return False


def has_exit(stmts):
    """return / break / continue somewhere inside (not counting those of nested loops for break / continue:
    over-approximated, which only costs a duplication of the continuation)"""
    return any(isinstance(n, (ast.Return, ast.Break, ast.Continue)) for n in walk_no_defs(stmts))


def falls_through(stmts):
    if not stmts:
        return True
    last = stmts[-1]
    if isinstance(last, (ast.Return, ast.Raise, ast.Break, ast.Continue)):
        return False
    if isinstance(last, ast.If) and last.orelse:
        return falls_through(last.body) or falls_through(last.orelse)
    return True


def base_name(t):
    """x for the store targets x[i] and x[i][j]"""
    depth = 0
    while isinstance(t, ast.Subscript):
        t = t.value
        depth += 1
    return (t.id, depth) if isinstance(t, ast.Name) else (None, depth)


def assigned_names(stmts):
    """every local name the statements may rebind (plain stores, in-place updates, next(it), yield)"""
    out = set()
    for n in walk_no_defs(stmts):
        if isinstance(n, ast.Name) and isinstance(n.ctx, (ast.Store, ast.Del)):
            out.add(n.id)
        elif isinstance(n, ast.Subscript) and isinstance(n.ctx, (ast.Store, ast.Del)):
            out.add(base_name(n)[0])
        elif isinstance(n, ast.Call) and isinstance(n.func, ast.Attribute) and isinstance(n.func.value, ast.Name) \
                and n.func.attr in MUTATORS:
            out.add(n.func.value.id)
        elif isinstance(n, ast.Call) and isinstance(n.func, ast.Name) and n.func.id == 'next' and n.args \
                and isinstance(n.args[0], ast.Name):
            out.add(n.args[0].id)
        elif isinstance(n, (ast.Yield, ast.YieldFrom)):
            out.add('_yield')
        elif isinstance(n, ast.FunctionDef):
            out.add(n.name)
    out.discard(None)
    return out


MUTATORS = {'insert', 'append', 'extend', 'remove', 'pop', 'clear', 'sort', 'reverse', 'update', 'add', 'discard',
            'setdefault', 'popitem', '__setitem__', '__delitem__'}


class FnTr:
    # hook for translators built on this one (T26 admits `assert`)
    FORBIDDEN_NODES = (ast.Global, ast.Nonlocal, ast.While, ast.With, ast.Try, ast.Delete, ast.AugAssign,
                       ast.Lambda, ast.ClassDef, ast.AsyncFunctionDef, ast.Await, ast.NamedExpr,
                       ast.Import, ast.ImportFrom, ast.Assert, ast.Starred, ast.DictComp, ast.SetComp,
                       ast.Dict, ast.Set)

    def __init__(self, unit, mod, node, cls, coqname, inst, outer=None):
        self.u, self.mod, self.node, self.cls, self.coqname, self.inst = unit, mod, node, cls, coqname, inst
        self.outer = outer          # the enclosing FnTr of a closure
        self.tn = 0
        self.depth = 0              # > 0 inside a hoisted sub-computation (a rebinding would not escape)
        self.ret_pos = False
        self.depth_of_loops = 0
        self.ret_ty = None
        self.yield_ty = None
        self.fn = Fn(coqname)
        body = strip_docstring(node.body)
        self.body = body
        self.is_gen = any(isinstance(n, (ast.Yield, ast.YieldFrom)) for n in walk_no_defs(body))
        if any(isinstance(n, ast.YieldFrom) for n in walk_no_defs(body)):
            fail(node, 'yield from')
        # names updated in place -> depth of the update
        self.mutated = {}
        for n in walk_no_defs(body):
            if isinstance(n, ast.Subscript) and isinstance(n.ctx, (ast.Store, ast.Del)):
                nm, d = base_name(n)
                if nm is None:
                    fail(n, 'store into something that is not a local list')
                self.mutated[nm] = max(self.mutated.get(nm, 0), d)
            elif isinstance(n, ast.Call) and isinstance(n.func, ast.Attribute) and n.func.attr in MUTATORS \
                    and isinstance(n.func.value, ast.Name):
                self.mutated[n.func.value.id] = max(self.mutated.get(n.func.value.id, 0), 1)
        # captured by closures / assigned more than ... : closures may only capture names never re-assigned
        self.store_count = {}
        for n in walk_no_defs(body):
            if isinstance(n, ast.Name) and isinstance(n.ctx, ast.Store):
                self.store_count[n.id] = self.store_count.get(n.id, 0) + 1
        for n in walk_no_defs(body):
            if isinstance(n, self.FORBIDDEN_NODES):
                if isinstance(n, ast.Nonlocal) and self.outer is not None:
                    continue
                if isinstance(n, ast.Starred):
                    continue        # checked where it is used (zip(*x))
                fail(n, f'{type(n).__name__} is outside the grammar')

    def temp(self):
        self.tn += 1
        return f't{self.tn}'

    # ---- signature
    def signature(self):
        a = self.node.args
        if a.posonlyargs or a.vararg or a.kwarg:
            fail(self.node, 'positional-only / *args / **kwargs parameters')
        params = list(a.args)
        defaults = [None] * (len(params) - len(a.defaults)) + list(a.defaults)
        params += a.kwonlyargs
        defaults += list(a.kw_defaults)
        env = {}
        fn = self.fn
        if self.cls is not None:
            decos = self.node.decorator_list
            if decos and not self.cls.is_property(self.node.name):
                fail(self.node, 'decorated method (only @property is translated)')
            if not params:
                fail(self.node, 'method without self')
            self.selfname = params[0].arg
            params, defaults = params[1:], defaults[1:]
            if self.node.name != '__init__':
                env[self.selfname] = Var('self', ('obj', self.cls.name), 'self')
                fn.params.append((self.selfname, ('obj', self.cls.name), None))
            elif self.cls.is_property('__init__'):
                fail(self.node, '__init__ as a property')
        elif self.node.decorator_list:
            fail(self.node, 'decorated function')
        seen = set()
        for i, (p, d) in enumerate(zip(params, defaults)):
            if p.arg in seen or p.arg in env:
                fail(p, 'duplicate parameter')
            seen.add(p.arg)
            ty = self.inst.get(i)
            if ty is None:
                if p.annotation is None:
                    fail(p, f'parameter {p.arg} has no annotation')
                ty = self.u.ann(p.annotation, self.mod, fn.tyvars)
            if d is not None and not (isinstance(d, ast.Constant) and (d.value is None or isinstance(d.value, bool))):
                fail(d, 'default value outside grammar (None / True / False)')
            if p.arg in self.mutated:
                fail(p, f'parameter {p.arg} is updated in place')
            env[p.arg] = Var('v_' + p.arg, ty, 'param')
            fn.params.append((p.arg, ty, d))
        return env

    def translate(self):
        fn = self.fn
        node = self.node
        fn.is_gen = self.is_gen
        env0 = self.signature()
        is_init = self.cls is not None and node.name == '__init__'
        if self.is_gen:
            if is_init:
                fail(node, 'generator __init__')
        elif is_init:
            self.ret_ty = ('obj', self.cls.name)
        elif node.returns is not None:
            self.ret_ty = self.u.ann(node.returns, self.mod, fn.tyvars)
        for attempt in (1, 2):
            self.tn = 0
            self.init_fields = []
            self.placeholder_used = False
            env = dict(env0)
            if self.is_gen:
                env['_yield'] = Var('yielded', ('list', 'yielded'), 'local', 1)
            ctx = Ctx(ret=lambda code: f'Ok {paren(code)}')
            ctx.top = True
            body = self.block(self.body, env, ctx, self.end_of_function)
            if not self.placeholder_used:
                break
        if self.placeholder_used:
            raise TranslatorError(f'{self.coqname}: cannot infer the return type')
        if self.is_gen and self.yield_ty is None:
            raise TranslatorError(f'{self.coqname}: generator without a yield that is reached')
        if self.is_gen:
            body = 'let yielded := [] in\n' + body
            self.ret_ty = TL(self.yield_ty)
        fn.ret_ty = self.ret_ty
        if is_init:
            self.emit_record()
        tv = ''.join(f' {{{v} : Type}}' for v in fn.tyvars)
        ps = ''.join(f' ({"self" if k == 0 and self.cls is not None and not is_init else "v_" + n} : {coq_ty(t)})'
                     for k, (n, t, _) in enumerate(fn.params))
        fn.text = f'Definition {self.coqname}{tv}{ps} : res {paren_ty(self.ret_ty)} :=\n{ind(body)}.'
        return fn

    def emit_record(self):
        cls = self.cls
        fields = list(self.init_fields)
        name = 'gen_' + cls.name
        if cls.fields is None:
            cls.fields = fields
            decl = '; '.join(f'{cls.name}{a} : {coq_ty(t)}' for a, t in fields)
            self.u.items.append(('record', f'Record {name} : Type := mk_{name} {{ {decl} }}.'))
        elif cls.fields != fields:
            fail(self.node, f'{cls.name}.__init__: the attributes differ between the instances of the constructor')

    def end_of_function(self, env):
        """falling off the end of the body"""
        if self.cls is not None and self.node.name == '__init__':
            fields = [(n[5:], v.ty) for n, v in env.items() if n.startswith('self.')]
            if self.init_fields and self.init_fields != fields:
                fail(self.node, '__init__ assigns different attributes (or in a different order) on different paths')
            self.init_fields = fields
            return 'Ok ' + paren(' '.join(['mk_gen_' + self.cls.name] + [env['self.' + a].code for a, _ in fields]))
        if self.is_gen:
            return 'Ok yielded'
        if self.ret_ty is None:
            self.ret_ty = UNIT
        if self.ret_ty == UNIT:
            return 'Ok tt'
        if isinstance(self.ret_ty, tuple) and self.ret_ty[0] == 'opt':
            return 'Ok None'
        fail(self.node, 'the end of the body is reachable in a function that must return a value')

    def ret_coq(self):
        """the type R of `return` values inside loops"""
        if self.is_gen:
            t = None if self.yield_ty is None else TL(self.yield_ty)
        else:
            t = self.ret_ty
        if t is None:
            self.placeholder_used = True
            return '_'
        return paren_ty(t)


def same_ty(a, b):
    """type equality where None is a wildcard (the element type of [] / the type of None)"""
    if a is None or b is None:
        return True
    if isinstance(a, tuple) and isinstance(b, tuple) and a[0] == b[0] and a[0] in ('list', 'opt', 'iter'):
        return same_ty(a[1], b[1])
    if isinstance(a, tuple) and isinstance(b, tuple) and a[0] == b[0] == 'tuple':
        return len(a[1]) == len(b[1]) and all(same_ty(x, y) for x, y in zip(a[1], b[1]))
    return a == b


def merge_ty(a, b):
    if a is None:
        return b
    if b is None:
        return a
    if isinstance(a, tuple) and isinstance(b, tuple) and a[0] == b[0] and a[0] in ('list', 'opt', 'iter'):
        return (a[0], merge_ty(a[1], b[1]))
    return a


class Stmts:
    """statement part of FnTr (mixed in below)"""

    def block(self, stmts, env, ctx, k):
        if not stmts:
            return k(env)
        s, rest = stmts[0], stmts[1:]

        def cont(e):
            return self.block(rest, e, ctx, k)

        if isinstance(s, ast.Pass) or (isinstance(s, ast.Expr) and isinstance(s.value, ast.Constant)):
            return cont(env)
        if isinstance(s, ast.Nonlocal):
            if self.outer is None:
                fail(s, 'nonlocal outside a closure')
            if set(s.names) & assigned_names(self.body):
                fail(s, 'a closure assigns a nonlocal name')
            return cont(env)
        if isinstance(s, (ast.Assign, ast.AnnAssign)):
            return self.st_assign(s, env, cont)
        if isinstance(s, ast.Return):
            return self.st_return(s, env, ctx)
        if isinstance(s, ast.Raise):
            if s.exc is None or s.cause is not None:
                fail(s, 'bare raise / raise from')
            return 'Err ' + self.u.exception_kind(self.mod, s.exc)
        if isinstance(s, ast.If):
            return self.st_if(s, env, ctx, cont, bool(rest))
        if isinstance(s, ast.For):
            return self.st_for(s, env, ctx, cont)
        if isinstance(s, ast.Break):
            if ctx.brk is None:
                fail(s, 'break outside a loop')
            return ctx.brk(env)
        if isinstance(s, ast.Continue):
            if ctx.cont is None:
                fail(s, 'continue outside a loop')
            return ctx.cont(env)
        if isinstance(s, ast.FunctionDef):
            return self.st_def(s, env, cont)
        if isinstance(s, ast.Expr):
            return self.st_expr(s, env, cont)
        return self.st_other(s, env, ctx, cont)

    def st_other(self, s, env, ctx, cont):
        """hook: a statement kind this translator does not know"""
        fail(s, 'statement outside grammar')

    # ---- return
    def coerce(self, v, want, node):
        """the code of value v at type `want`"""
        if v.ty == ('none',):
            if isinstance(want, tuple) and want[0] == 'opt':
                return 'None'
            if want == UNIT:
                return 'tt'
            fail(node, 'None where a value is needed')
        if isinstance(want, tuple) and want[0] == 'opt' and not (isinstance(v.ty, tuple) and v.ty[0] == 'opt'):
            if not same_ty(want[1], v.ty):
                fail(node, f'type mismatch: {v.ty} for {want}')
            return f'Some {paren(v.code)}'
        if want == TRI and v.ty == BOOL:
            return f'Def {paren(v.code)}'
        if not same_ty(want, v.ty):
            fail(node, f'type mismatch: {v.ty} for {want}')
        return v.code

    def st_return(self, s, env, ctx):
        if self.cls is not None and self.node.name == '__init__':
            fail(s, 'return in __init__')
        if self.is_gen:
            if s.value is not None:
                fail(s, 'return with a value in a generator')
            return ctx.ret('yielded')
        if s.value is None:
            if self.ret_ty is None:
                self.ret_ty = UNIT
            return ctx.ret(self.coerce(Val('None', ('none',)), self.ret_ty, s))
        pre = []
        self.ret_pos = isinstance(s.value, ast.Call)
        v = self.expr(s.value, env, pre, alias_ok=True)
        self.ret_pos = False
        if self.ret_ty is None:
            if v.ty == ('none',) or v.ty is None:
                fail(s, 'cannot infer the return type')
            self.ret_ty = v.ty
        if v.m and getattr(ctx, 'top', False) and v.ty == self.ret_ty:
            return seq(pre, v.code)                # tail call
        v = self.pure(v, pre)
        return seq(pre, ctx.ret(self.coerce(v, self.ret_ty, s)))

    # ---- assignment
    def st_assign(self, s, env, cont):
        if isinstance(s, ast.Assign):
            if len(s.targets) != 1:
                fail(s, 'chained assignment')
            target = s.targets[0]
        else:
            target = s.target
            if s.value is None:
                fail(s, 'annotation without a value')
        pre = []
        if isinstance(target, ast.Name):
            name = target.id
            old = env.get(name)
            if old is not None and old.kind in ('self', 'closure'):
                fail(s, f'assignment to {name}')
            v = self.expr(s.value, env, pre, want_name=name)
            if v.ty == ('none',) or v.ty is None:
                fail(s, 'assignment of None / of a value of unknown type')
            need = self.mutated.get(name, 0)
            if need and v.fresh < need:
                fail(s, f'{name} is updated in place but is not created fresh (aliasing)')
            code = 'v_' + name
            if v.m:
                pre.append(f'do {code} <- {v.code};')
            else:
                pre.append(f'let {code} := {v.code} in')
            env2 = dict(env)
            env2[name] = Var(code, v.ty, 'iter' if isinstance(v.ty, tuple) and v.ty[0] == 'iter' else 'local', v.fresh)
            return seq(pre, cont(env2))
        if isinstance(target, ast.Attribute):
            if not (self.cls is not None and self.node.name == '__init__' and isinstance(target.value, ast.Name)
                    and target.value.id == self.selfname):
                fail(s, 'attribute store outside __init__')
            if self.depth_of_loops:
                fail(s, 'attribute store inside a loop')
            attr = target.attr
            if 'self.' + attr in env:
                fail(s, f'self.{attr} is assigned twice')
            v = self.expr(s.value, env, pre)
            if v.ty == ('none',) or v.ty is None:
                fail(s, 'attribute of unknown type')
            code = 'f' + attr
            pre.append(f'do {code} <- {v.code};' if v.m else f'let {code} := {v.code} in')
            env2 = dict(env)
            env2['self.' + attr] = Var(code, v.ty, 'field')
            return seq(pre, cont(env2))
        if isinstance(target, ast.Subscript):
            name, depth = base_name(target)
            var = env.get(name)
            if var is None or var.kind != 'local' or depth > 2:
                fail(s, 'item store into something that is not a local list')
            if var.fresh < depth:
                fail(s, f'{name} is updated in place but is not created fresh (aliasing)')
            v = self.pexpr(s.value, env, pre)
            if depth == 1:
                if isinstance(target.slice, ast.Slice):
                    fail(s, 'slice store')
                i = self.pexpr(target.slice, env, pre)
                if i.ty != INT or not (isinstance(var.ty, tuple) and var.ty[0] == 'list'):
                    fail(s, 'item store: list / int expected')
                pre.append(f'do {var.code} <- py_setitem {var.code} {paren(i.code)} '
                           f'{paren(self.coerce(v, var.ty[1], s))};')
            else:
                inner = target.value
                if isinstance(target.slice, ast.Slice) or isinstance(inner.slice, ast.Slice):
                    fail(s, 'slice store')
                i = self.pexpr(inner.slice, env, pre)
                row = self.temp()
                if i.ty != INT or not (isinstance(var.ty, tuple) and var.ty[0] == 'list'
                                       and isinstance(var.ty[1], tuple) and var.ty[1][0] == 'list'):
                    fail(s, 'nested item store: list of lists / int expected')
                pre.append(f'do {row} <- py_index {var.code} {paren(i.code)};')
                j = self.pexpr(target.slice, env, pre)
                if j.ty != INT:
                    fail(s, 'index must be an int')
                pre.append(f'do {row} <- py_setitem {row} {paren(j.code)} {paren(self.coerce(v, var.ty[1][1], s))};')
                pre.append(f'do {var.code} <- py_setitem {var.code} {paren(i.code)} {row};')
            return seq(pre, cont(env))
        fail(s, 'assignment target outside grammar')

    # ---- expression statements: x.insert(i, e), yield e
    def st_expr(self, s, env, cont):
        e = s.value
        pre = []
        if isinstance(e, ast.Yield):
            if e.value is None:
                fail(s, 'bare yield')
            v = self.pexpr(e.value, env, pre)
            if v.ty is None or v.ty == ('none',):
                fail(s, 'yield of a value of unknown type')
            if self.yield_ty is None:
                self.yield_ty = v.ty
            elif not same_ty(self.yield_ty, v.ty):
                fail(s, 'yields of different types')
            pre.append(f'let yielded := yielded ++ [{v.code}] in')
            return seq(pre, cont(env))
        if isinstance(e, ast.Call) and isinstance(e.func, ast.Attribute) and e.func.attr == 'insert' \
                and isinstance(e.func.value, ast.Name) and len(e.args) == 2 and not e.keywords:
            name = e.func.value.id
            var = env.get(name)
            if var is None or var.kind != 'local' or var.fresh < 1 or not (isinstance(var.ty, tuple) and var.ty[0] == 'list'):
                fail(s, f'{name}.insert: not a fresh local list')
            i = self.pexpr(e.args[0], env, pre)
            v = self.pexpr(e.args[1], env, pre)
            if i.ty != INT:
                fail(s, 'insert position must be an int')
            pre.append(f'let {var.code} := py_insert {var.code} {paren(i.code)} {paren(self.coerce(v, var.ty[1], s))} in')
            return seq(pre, cont(env))
        fail(s, 'expression statement outside grammar')

    # ---- conditionals
    def test(self, node, env, pre):
        """-> (render(a, b), env_true, env_false, constant or None)"""
        neg = False
        inner = node
        while isinstance(inner, ast.UnaryOp) and isinstance(inner.op, ast.Not):
            neg, inner = not neg, inner.operand
        if isinstance(inner, ast.Compare) and len(inner.ops) == 1 and isinstance(inner.ops[0], (ast.Is, ast.IsNot)) \
                and isinstance(inner.comparators[0], ast.Constant) and inner.comparators[0].value is None:
            if not isinstance(inner.left, ast.Name) or inner.left.id not in env:
                fail(node, '`is None` on something that is not a local name')
            var = env[inner.left.id]
            if not (isinstance(var.ty, tuple) and var.ty[0] == 'opt'):
                fail(node, '`is None` on a value that is not Optional')
            is_none = isinstance(inner.ops[0], ast.Is) != neg
            env_some = dict(env)
            env_some[inner.left.id] = Var(var.code, var.ty[1], var.kind, var.fresh)
            env_none = dict(env)

            def render(a, b, var=var, is_none=is_none):
                none_branch, some_branch = (a, b) if is_none else (b, a)
                return (f'match {var.code} with\n| None =>\n{ind(none_branch, 4)}\n'
                        f'| Some {var.code} =>\n{ind(some_branch, 4)}\nend')
            return (render, env_none, env_some, None) if is_none else (render, env_some, env_none, None)
        c = self.pexpr(node, env, pre)
        if c.ty != BOOL:
            fail(node, f'condition of type {c.ty} (only bool conditions are translated)')
        const = getattr(c, 'const', None)

        def render2(a, b, c=c):
            return f'if {c.code} then\n{ind(a)}\nelse\n{ind(b)}'
        return render2, env, env, const

    def st_if(self, s, env, ctx, cont, has_rest):
        pre = []
        render, env_t, env_f, const = self.test(s.test, env, pre)
        if const is True:
            return seq(pre, self.block(s.body, env_t, ctx, cont))
        if const is False:
            return seq(pre, self.block(s.orelse, env_f, ctx, cont))
        fa, fb = falls_through(s.body), falls_through(s.orelse)
        if not (fa and fb) or not has_rest or has_exit(s.body) or has_exit(s.orelse):
            # at most one branch continues / nothing follows / exits inside: the continuation goes into the branches
            a = self.block(s.body, env_t, ctx, cont)
            b = self.block(s.orelse, env_f, ctx, cont)
            return seq(pre, render(a, b))
        # both branches continue and neither leaves: join on the variables they assign
        assigned = assigned_names(s.body) | assigned_names(s.orelse)
        both = assigned_names(s.body) & assigned_names(s.orelse)
        names = [n for n in env if n in assigned and not n.startswith('self.')]
        names += sorted(n for n in both if n not in env)
        types = {}

        def k_join(e):
            out = []
            for n in names:
                if n not in e:
                    fail(s, f'{n} is not bound on every path')
                if n in types and not same_ty(types[n].ty, e[n].ty):
                    fail(s, f'{n} has different types in the branches')
                types.setdefault(n, e[n])
                out.append(e[n].code)
            return f'Ok {paren(tuple_of(out))}'
        for n in names:
            if n in env:
                types[n] = env[n]
        a = self.block(s.body, env_t, ctx, k_join)
        b = self.block(s.orelse, env_f, ctx, k_join)
        env2 = dict(env)
        codes = []
        for n in names:
            v = types[n]
            code = v.code
            env2[n] = Var(code, v.ty, v.kind, min(v.fresh, env[n].fresh) if n in env else 0)
            codes.append(code)
        pre.append(f'do {dopat_of(codes)} <-\n{ind(paren(render(a, b)))};')
        return seq(pre, cont(env2))

    # ---- loops
    def target(self, t, ty, env):
        """binder pattern for a loop target of element type ty -> (pattern, {name: Var})"""
        if isinstance(t, ast.Name):
            if t.id in env and env[t.id].kind in ('self', 'closure'):
                fail(t, f'loop variable {t.id} shadows self / a closure')
            if t.id in self.mutated:
                fail(t, f'loop variable {t.id} is updated in place')
            return 'v_' + t.id, {t.id: Var('v_' + t.id, ty, 'local', 0)}
        if isinstance(t, ast.Tuple):
            if not (isinstance(ty, tuple) and ty[0] == 'tuple' and len(ty[1]) == len(t.elts)):
                fail(t, f'tuple target for elements of type {ty}')
            pats, new = [], {}
            for e, et in zip(t.elts, ty[1]):
                p, n = self.target(e, et, env)
                if set(n) & set(new):
                    fail(t, 'name bound twice in a target')
                pats.append(p)
                new.update(n)
            return '(' + ', '.join(pats) + ')', new
        fail(t, 'loop target outside grammar')

    def state_binder(self, carried, env):
        """hook: the binder of the loop-carried variables in the body of foldM / loopM"""
        return binder_of([env[n].code for n in carried])

    def st_for(self, s, env, ctx, cont):
        if s.orelse:
            fail(s, 'for-else')
        pre = []
        it = self.iterable(s.iter, env, pre)
        elem = it.ty[1]
        pat, new = self.target(s.target, elem, env)
        binder = pat if not pat.startswith('(') else "'" + pat
        assigned = assigned_names(s.body)
        if assigned & set(new):
            fail(s, 'the loop body assigns the loop variable')
        # a loop may not iterate over a list its body updates in place
        for n in ast.walk(s.iter):
            if isinstance(n, ast.Name) and n.id in assigned and n.id in self.mutated:
                fail(s, f'the loop iterates over {n.id}, which its body updates')
        carried = [n for n in env if n in assigned and not n.startswith('self.')]
        for n in carried:
            if env[n].kind in ('self', 'closure', 'param') and n not in self.store_count:
                fail(s, f'{n} cannot be carried by a loop')
        codes = [env[n].code for n in carried]
        state = tuple_of(codes)
        body_env = dict(env)
        body_env.update(new)
        consumed = isinstance(s.iter, ast.Name) and s.iter.id in env and env[s.iter.id].kind == 'iter'
        if consumed and s.iter.id in assigned:
            fail(s, 'the loop body advances the iterator it iterates over')

        def check(e):
            for n in carried:
                if n not in e or not same_ty(e[n].ty, env[n].ty) or e[n].code != env[n].code:
                    fail(s, f'{n} changes its type inside the loop')

        self.depth_of_loops += 1
        with_exit = has_return(s.body) or has_break_here(s.body)
        if not with_exit:
            def k_body(e):
                check(e)
                return f'Ok {paren(state)}'
            body = self.block(s.body, body_env, Ctx(ret=None, brk=None, cont=k_body), k_body)
            self.depth_of_loops -= 1
            pre.append(f'do {dopat_of(codes)} <-\n  foldM (fun {self.state_binder(carried, env)} {binder} =>\n{ind(body, 6)})\n'
                       f'    {paren(it.code)} {state};')
            after = dict(env)
            for n in carried:
                after[n] = Var(env[n].code, env[n].ty, env[n].kind, env[n].fresh)
            if consumed:
                del after[s.iter.id]
            return seq(pre, cont(after))
        rty = self.ret_coq() if has_return(s.body) else 'Empty_set'

        def k_cont(e):
            check(e)
            return f'Ok (LContinue {paren(state)})'

        def k_brk(e):
            check(e)
            return f'Ok (LBreak {paren(state)})'
        body = self.block(s.body, body_env, Ctx(ret=lambda code: f'Ok (LReturn {paren(code)})', brk=k_brk, cont=k_cont),
                          k_cont)
        self.depth_of_loops -= 1
        t = self.temp()
        pre.append(f'do {t} <-\n  loopM (R := {rty}) (fun {self.state_binder(carried, env)} {binder} =>\n{ind(body, 6)})\n'
                   f'    {paren(it.code)} {state};')
        after = dict(env)
        if consumed:
            del after[s.iter.id]
        rest = cont(after)
        r = self.temp()
        if has_return(s.body):
            if ctx.ret is None:
                raise TranslatorError('internal: return inside a fold')
            out = ctx.ret(r)
        else:
            out = f'match {r} with end'
        pat_state = tuple_of(codes) if codes else '_'
        pre.append(f'match {t} with\n| inl {pat_state} =>\n{ind(rest, 4)}\n| inr {r} =>\n{ind(out, 4)}\nend')
        return '\n'.join(pre)

    # ---- closures
    def st_def(self, s, env, cont):
        if s.name in env and env[s.name].kind != 'closure':
            fail(s, f'closure {s.name} shadows a variable')
        if self.depth_of_loops:
            fail(s, 'closure defined inside a loop')
        if self.store_count.get(s.name):
            fail(s, f'{s.name} is also assigned')
        child = self.u.make_tr(self.mod, s, None, 'f_' + s.name, {}, outer=self)
        used = {n.id for n in ast.walk(s) if isinstance(n, ast.Name)}
        params = {a.arg for a in s.args.args}
        local = assigned_names(child.body)
        for n in used - params - local:
            if n in env:
                v = env[n]
                if self.store_count.get(n, 0) > (0 if v.kind == 'param' else 1) or n in self.mutated or v.kind == 'iter':
                    fail(s, f'closure captures {n}, which is re-assigned / updated / an iterator')
        for n in local:
            if n in env:
                fail(s, f'closure assigns {n}, a name of the enclosing function')
        text = child.translate_closure(env)
        ps = ' '.join(f'(v_{n} : {coq_ty(t)})' for n, t, _ in child.fn.params)
        env2 = dict(env)
        env2[s.name] = Var('f_' + s.name, ('closure', child.fn), 'closure')
        return f'let f_{s.name} := (fun {ps} =>\n{ind(text, 4)}) in\n' + cont(env2)

    def translate_closure(self, outer_env):
        if self.is_gen:
            fail(self.node, 'generator closure')
        if any(d is not None for _, _, d in self.signature_only()):
            fail(self.node, 'closure with default values')
        env = dict(outer_env)
        env.update(self.sig_env)
        if self.node.returns is not None:
            self.ret_ty = self.u.ann(self.node.returns, self.mod, [])
        self.tn = self.outer.tn + 100     # temporaries of the closure do not clash with the enclosing function's
        base = self.tn
        for _ in (1, 2):
            self.tn = base
            self.placeholder_used = False
            ctx = Ctx(ret=lambda code: f'Ok {paren(code)}')
            ctx.top = True
            body = self.block(self.body, env, ctx, self.end_of_function)
            if not self.placeholder_used:
                break
        if self.placeholder_used:
            raise TranslatorError(f'{self.coqname}: cannot infer the return type')
        self.fn.ret_ty = self.ret_ty
        return body

    def signature_only(self):
        self.sig_env = self.signature()
        if self.fn.tyvars:
            fail(self.node, 'tp.Any in a closure')
        return self.fn.params


def coq_string(s, node=None):
    if not all(32 <= ord(ch) < 127 for ch in s):
        fail(node, 'string literal with characters outside printable ASCII')
    return '"' + s.replace('"', '""') + '"'


def coq_int(n):
    return f'{n}%Z' if n >= 0 else f'({n})%Z'


SCALARS = (BOOL, INT, STR, TRI, UNIT, LOG2)


class Exprs:
    def pure(self, v, pre):
        if not v.m:
            return v
        t = self.temp()
        pre.append(f'do {t} <- {v.code};')
        return Val(t, v.ty, False, v.fresh)

    def pexpr(self, node, env, pre, alias_ok=False):
        return self.pure(self.expr(node, env, pre, alias_ok), pre)

    def sub(self, node, env):
        """a sub-computation that is only run conditionally / per element: own binds -> (binds, Val)"""
        pre = []
        self.depth += 1
        v = self.pexpr(node, env, pre)
        self.depth -= 1
        return pre, v

    def is_builtin(self, name, env):
        return name in BUILTINS and name not in env and name not in self.mod.bind

    def ext_module(self, node, env):
        """itertools / math / copy / typing for a Name bound by a plain `import`"""
        if isinstance(node, ast.Name) and node.id not in env:
            r = self.u.resolve(self.mod, node.id, node)
            if r is not None and r[0] == 'module':
                return r[1]
        return None

    def expr(self, node, env, pre, alias_ok=False, want_name=None):
        if isinstance(node, ast.Constant):
            v = node.value
            if v is True or v is False:
                return Val('true' if v else 'false', BOOL)
            if v is None:
                return Val('None', ('none',))
            if isinstance(v, int):
                return Val(coq_int(v), INT)
            if isinstance(v, str):
                return Val(coq_string(v, node), STR)
            fail(node, 'constant outside grammar')
        if isinstance(node, ast.Name):
            if node.id in env:
                var = env[node.id]
                if var.kind == 'closure':
                    fail(node, 'a closure used as a value')
                if node.id in self.mutated and not alias_ok:
                    fail(node, f'{node.id} is updated in place and may not be aliased here')
                return Val(var.code, var.ty, False, 0)
            r = self.u.resolve(self.mod, node.id, node)
            if self.u.is_dontcare_value(r):
                return Val('DontCare', TRI)
            fail(node, f'unknown name {node.id}')
        if isinstance(node, ast.Attribute):
            return self.attribute(node, env, pre)
        if isinstance(node, ast.UnaryOp):
            if isinstance(node.op, ast.Not):
                a = self.pexpr(node.operand, env, pre)
                if a.ty != BOOL:
                    fail(node, '`not` on a value that is not a bool')
                return Val(f'negb {paren(a.code)}', BOOL)
            if isinstance(node.op, ast.USub) and isinstance(node.operand, ast.Constant) \
                    and type(node.operand.value) is int:
                return Val(coq_int(-node.operand.value), INT)
            fail(node, 'unary operator outside grammar')
        if isinstance(node, ast.BinOp):
            return self.binop(node, env, pre)
        if isinstance(node, ast.BoolOp):
            return self.boolop(node, env, pre)
        if isinstance(node, ast.Compare):
            return self.compare(node, env, pre)
        if isinstance(node, ast.IfExp):
            return self.ifexp(node, env, pre)
        if isinstance(node, ast.Subscript):
            return self.subscript(node, env, pre)
        if isinstance(node, ast.List):
            vals = [self.pexpr(e, env, pre) for e in node.elts]
            ty = None
            for v in vals:
                if not same_ty(ty, v.ty):
                    fail(node, 'list literal with elements of different types')
                ty = merge_ty(ty, v.ty)
            return Val('[' + '; '.join(v.code for v in vals) + ']', TL(ty), False, 1)
        if isinstance(node, ast.Tuple):
            if len(node.elts) < 2:
                fail(node, 'tuple of fewer than two elements')
            vals = [self.pexpr(e, env, pre) for e in node.elts]
            if all(v.ty == BOOL for v in vals):
                # a tuple of bools is a sequence of bools (as the tuples of itertools.product are)
                return Val('[' + '; '.join(v.code for v in vals) + ']', TL(BOOL), False, 1)
            return Val('(' + ', '.join(v.code for v in vals) + ')', ('tuple', tuple(v.ty for v in vals)))
        if isinstance(node, (ast.ListComp, ast.GeneratorExp)):
            if isinstance(node, ast.GeneratorExp):
                fail(node, 'generator expression outside all / any / join / list / tuple')
            return self.comprehension(node, env, pre)
        if isinstance(node, ast.Call):
            return self.call(node, env, pre, want_name)
        fail(node, 'expression outside grammar')

    def attribute(self, node, env, pre):
        if isinstance(node.value, ast.Name) and node.value.id in env and env[node.value.id].kind == 'self':
            cls = self.cls
            if cls.fields is not None and any(a == node.attr for a, _ in cls.fields):
                ty = dict(cls.fields)[node.attr]
                return Val(f'{cls.name}{node.attr} self', ty)
            if cls.is_property(node.attr):
                fn = self.u.function(cls.mod, cls.method(node.attr, node), cls)
                return Val(f'{fn.coqname} self', fn.ret_ty, True)
            fail(node, f'self.{node.attr}: neither an attribute assigned by __init__ nor a property of the class')
        if self.cls is not None and self.node.name == '__init__' and isinstance(node.value, ast.Name) \
                and node.value.id == self.selfname:
            key = 'self.' + node.attr
            if key in env:
                return Val(env[key].code, env[key].ty)
            if self.cls.is_property(node.attr):
                # a property of the half-built object: only the trivial getter `return self.<attr>` of an
                # attribute that is already assigned
                m = self.cls.method(node.attr, node)
                body = strip_docstring(m.body)
                if len(m.args.args) == 1 and len(body) == 1 and isinstance(body[0], ast.Return) \
                        and isinstance(body[0].value, ast.Attribute) and isinstance(body[0].value.value, ast.Name) \
                        and body[0].value.value.id == m.args.args[0].arg and 'self.' + body[0].value.attr in env:
                    v = env['self.' + body[0].value.attr]
                    return Val(v.code, v.ty)
            fail(node, f'self.{node.attr} is read in __init__ before it is assigned (properties of a half-built '
                       f'object are not translated)')
        fail(node, 'attribute access outside grammar')

    def binop(self, node, env, pre):
        a = self.pexpr(node.left, env, pre)
        b = self.pexpr(node.right, env, pre)
        op = type(node.op).__name__
        A, B = paren(a.code), paren(b.code)
        if a.ty == INT and b.ty == INT:
            if op in ('Add', 'Sub', 'Mult'):
                return Val(f'({A} {dict(Add="+", Sub="-", Mult="*")[op]} {B})%Z', INT)
            if op == 'BitAnd':
                return Val(f'Z.land {A} {B}', INT)
            if op == 'LShift':
                return Val(f'py_lshift {A} {B}', INT, True)
            if op == 'RShift':
                return Val(f'py_rshift {A} {B}', INT, True)
        if a.ty == BOOL and b.ty == BOOL and op == 'BitXor':
            return Val(f'xorb {A} {B}', BOOL)
        if a.ty == STR and b.ty == STR and op == 'Add':
            return Val(f'({A} ++ {B})%string', STR)
        if a.ty == STR and b.ty == INT and op == 'Mult':
            return Val(f'py_str_mul {A} {B}', STR)
        if isinstance(a.ty, tuple) and a.ty[0] == 'list' and b.ty == INT and op == 'Mult':
            return Val(f'py_list_mul {A} {B}', a.ty, False, 1)
        if isinstance(a.ty, tuple) and a.ty[0] == 'list' and isinstance(b.ty, tuple) and b.ty[0] == 'list' \
                and op == 'Add' and same_ty(a.ty, b.ty):
            return Val(f'({A} ++ {B})', merge_ty(a.ty, b.ty), False, 1)
        fail(node, f'binary operator {op} on {a.ty} and {b.ty}')

    def boolop(self, node, env, pre):
        is_and = isinstance(node.op, ast.And)
        first = self.pexpr(node.values[0], env, pre)
        if first.ty != BOOL:
            fail(node, 'and / or on values that are not bools')
        code = first.code
        for nxt in node.values[1:]:
            p, v = self.sub(nxt, env)
            if v.ty != BOOL:
                fail(node, 'and / or on values that are not bools')
            if not p:
                code = f'{paren(code)} {"&&" if is_and else "||"} {paren(v.code)}'
            else:
                t = self.temp()
                run = paren(mbody(p, v))
                if is_and:
                    pre.append(f'do {t} <- (if {code} then {run} else Ok false);')
                else:
                    pre.append(f'do {t} <- (if {code} then Ok true else {run});')
                code = t
        return Val(code, BOOL)

    def compare(self, node, env, pre):
        if len(node.ops) != 1:
            fail(node, 'chained comparison')
        op = node.ops[0]
        if isinstance(op, (ast.Is, ast.IsNot)):
            fail(node, '`is` outside a condition on an Optional name')
        a = self.pexpr(node.left, env, pre, alias_ok=True)
        b = self.pexpr(node.comparators[0], env, pre, alias_ok=True)
        A, B = paren(a.code), paren(b.code)
        if isinstance(op, (ast.Eq, ast.NotEq)):
            if a.ty in (BOOL, TRI) and b.ty == INT:
                eq = f'(Z.b2z {A} =? {B})%Z' if a.ty == BOOL else f'tri_eq_int {A} {B}'
            elif a.ty == INT and b.ty in (BOOL, TRI):
                eq = f'(Z.b2z {B} =? {A})%Z' if b.ty == BOOL else f'tri_eq_int {B} {A}'
            elif {a.ty, b.ty} == {BOOL, TRI}:
                eq = f'tri_eqb {paren(self.coerce(a, TRI, node))} {paren(self.coerce(b, TRI, node))}'
            elif same_ty(a.ty, b.ty) and a.ty is not None:
                eq = f'{eqb_of(merge_ty(a.ty, b.ty), node)} {A} {B}'
            else:
                eq = self.mixed_eq(a, b, node)
            return Val(eq if isinstance(op, ast.Eq) else f'negb ({eq})', BOOL)
        if a.ty == INT and b.ty == INT:
            sym = {ast.Lt: '<?', ast.LtE: '<=?', ast.Gt: '>?', ast.GtE: '>=?'}.get(type(op))
            if sym:
                return Val(f'({A} {sym} {B})%Z', BOOL)
        if a.ty == BOOL and b.ty == BOOL and isinstance(op, (ast.Lt, ast.Gt)):      # False < True
            return Val(f'negb {A} && {B}' if isinstance(op, ast.Lt) else f'{A} && negb {B}', BOOL)
        fail(node, f'comparison {type(op).__name__} on {a.ty} and {b.ty}')

    def mixed_eq(self, a, b, node):
        """hook: the code of a == b for operands of two different types"""
        fail(node, f'== between {a.ty} and {b.ty}')

    def ifexp(self, node, env, pre):
        render, env_t, env_f, const = self.test(node.test, env, pre)
        pa, a = self.sub(node.body, env_t)
        pb, b = self.sub(node.orelse, env_f)
        if not same_ty(a.ty, b.ty):
            fail(node, 'conditional expression with branches of different types')
        ty = merge_ty(a.ty, b.ty)
        if const is not None:
            fail(node, 'conditional expression on a constant')
        if not pa and not pb:
            return Val(paren(render(a.code, b.code)), ty, False, min(a.fresh, b.fresh))
        return Val(paren(render(mbody(pa, a), mbody(pb, b))), ty, True,
                   min(a.fresh, b.fresh))

    def subscript(self, node, env, pre):
        a = self.pexpr(node.value, env, pre, alias_ok=True)
        sl = node.slice
        if isinstance(sl, ast.Slice):
            if sl.lower is None or sl.upper is not None or sl.step is not None:
                fail(node, 'slice other than x[i:]')
            i = self.pexpr(sl.lower, env, pre)
            if i.ty != INT:
                fail(node, 'slice bound must be an int')
            if a.ty == STR:
                return Val(f'py_str_slice_from {paren(a.code)} {paren(i.code)}', STR)
            if isinstance(a.ty, tuple) and a.ty[0] == 'list':
                return Val(f'py_slice_from {paren(a.code)} {paren(i.code)}', a.ty, False, 1)
            fail(node, f'slice of a value of type {a.ty}')
        i = self.pexpr(sl, env, pre)
        if i.ty != INT:
            fail(node, f'index of type {i.ty} (only ints)')
        if isinstance(a.ty, tuple) and a.ty[0] == 'list':
            return Val(f'py_index {paren(a.code)} {paren(i.code)}', a.ty[1], True)
        fail(node, f'indexing a value of type {a.ty}')

    # ---- comprehensions / generator expressions: one `for`, at most one `if`
    def comp_parts(self, node, env, pre):
        """-> (iterable code, binder, element binds, element Val, condition binds, condition Val or None)"""
        if len(node.generators) != 1:
            fail(node, 'comprehension with more than one for')
        g = node.generators[0]
        if g.is_async or len(g.ifs) > 1:
            fail(node, 'comprehension with several conditions')
        it = self.iterable(g.iter, env, pre)
        pat, new = self.target(g.target, it.ty[1], env)
        binder = pat if not pat.startswith('(') else "'" + pat
        env2 = dict(env)
        env2.update(new)
        pc, c = (self.sub(g.ifs[0], env2) if g.ifs else ([], None))
        if c is not None and c.ty != BOOL:
            fail(node, 'comprehension condition that is not a bool')
        pe, e = self.sub(node.elt, env2)
        is_var = isinstance(node.elt, ast.Name) and isinstance(g.target, ast.Name) and node.elt.id == g.target.id
        return it, binder, pe, e, pc, c, is_var

    def comprehension(self, node, env, pre):
        it, binder, pe, e, pc, c, is_var = self.comp_parts(node, env, pre)
        src = paren(it.code)
        if c is not None:
            if pc and pe:
                fail(node, 'comprehension whose condition and element can both raise')
            if pc:
                src = self.temp()
                pre.append(f'do {src} <- filterM (fun {binder} =>\n{ind(mbody(pc, c), 4)}) {paren(it.code)};')
            else:
                src = f'(filter (fun {binder} => {c.code}) {paren(it.code)})'
        if is_var:
            return Val(src, TL(e.ty), False, 1)
        if pe:
            return Val(f'mapM (fun {binder} =>\n{ind(mbody(pe, e), 4)}) {src}', TL(e.ty), True, 1)
        return Val(f'map (fun {binder} => {e.code}) {src}', TL(e.ty), False, 1)

    # ---- iterables
    def iterable(self, node, env, pre):
        """the list of the values an iterable yields -> pure Val of a list type"""
        v = self.iterable_val(node, env, pre)
        v = self.pure(v, pre)
        if v.ty == STR:
            return Val(f'py_str_chars {paren(v.code)}', TL(STR))
        if isinstance(v.ty, tuple) and v.ty[0] in ('list', 'iter'):
            if v.ty[1] is None:
                fail(node, 'iteration over a list of unknown element type')
            return Val(v.code, TL(v.ty[1]), False, v.fresh)
        fail(node, f'iteration over a value of type {v.ty}')

    def iterable_val(self, node, env, pre):
        if isinstance(node, ast.Call):
            f = node.func
            if isinstance(f, ast.Name) and self.is_builtin(f.id, env) and f.id in ('range', 'enumerate', 'zip'):
                if node.keywords:
                    fail(node, f'{f.id} with keyword arguments')
                if f.id == 'range':
                    if len(node.args) not in (1, 2):
                        fail(node, 'range with a step')
                    args = [self.pexpr(a, env, pre) for a in node.args]
                    if any(a.ty != INT for a in args):
                        fail(node, 'range of values that are not ints')
                    lo, hi = ('0%Z', args[0].code) if len(args) == 1 else (args[0].code, args[1].code)
                    return Val(f'py_range {paren(lo)} {paren(hi)}', TL(INT), False, 1)
                if f.id == 'enumerate':
                    if len(node.args) != 1:
                        fail(node, 'enumerate with a start')
                    a = self.iterable(node.args[0], env, pre)
                    return Val(f'py_enumerate {paren(a.code)}', TL(('tuple', (INT, a.ty[1]))), False, 1)
                if len(node.args) == 1 and isinstance(node.args[0], ast.Starred):
                    a = self.pexpr(node.args[0].value, env, pre, alias_ok=True)
                    if not (isinstance(a.ty, tuple) and a.ty[0] == 'list' and isinstance(a.ty[1], tuple)
                            and a.ty[1][0] == 'list'):
                        fail(node, 'zip(*x) of something that is not a list of lists')
                    return Val(f'transpose {paren(a.code)}', a.ty, False, 2)
                if len(node.args) != 2 or any(isinstance(a, ast.Starred) for a in node.args):
                    fail(node, 'zip of other than two iterables')
                a = self.iterable(node.args[0], env, pre)
                b = self.iterable(node.args[1], env, pre)
                return Val(f'combine {paren(a.code)} {paren(b.code)}', TL(('tuple', (a.ty[1], b.ty[1]))), False, 1)
            if isinstance(f, ast.Attribute) and self.ext_module(f.value, env) == 'itertools':
                if f.attr == 'product':
                    ok = (len(node.args) == 1 and isinstance(node.args[0], ast.Tuple)
                          and [getattr(e, 'value', None) for e in node.args[0].elts] == [False, True]
                          and all(isinstance(e, ast.Constant) and type(e.value) is bool for e in node.args[0].elts)
                          and len(node.keywords) == 1 and node.keywords[0].arg == 'repeat')
                    if not ok:
                        fail(node, 'itertools.product other than product((False, True), repeat=n)')
                    n = self.pexpr(node.keywords[0].value, env, pre)
                    if n.ty != INT:
                        fail(node, 'repeat must be an int')
                    return Val(f'py_product_bools {paren(n.code)}', ('iter', TL(BOOL)), True, 2)
                if f.attr == 'combinations':
                    if len(node.args) != 2 or node.keywords:
                        fail(node, 'itertools.combinations(l, k) expected')
                    a = self.iterable(node.args[0], env, pre)
                    k = self.pexpr(node.args[1], env, pre)
                    if k.ty != INT:
                        fail(node, 'combinations: k must be an int')
                    return Val(f'py_combinations {paren(a.code)} {paren(k.code)}', ('iter', a.ty), True, 2)
                fail(node, f'itertools.{f.attr} is outside the grammar')
            if isinstance(f, ast.Attribute) and f.attr == 'items' and not node.args and not node.keywords:
                a = self.pexpr(f.value, env, pre)
                if isinstance(a.ty, tuple) and a.ty[0] == 'map':
                    return Val(a.code, TL(('tuple', (a.ty[1], a.ty[2]))))
                fail(node, '.items() of something that is not a Mapping')
        return self.expr(node, env, pre, alias_ok=True)

    # ---- calls
    def call(self, node, env, pre, want_name=None):
        f = node.func
        if any(k.arg is None for k in node.keywords):
            fail(node, '**kwargs in a call')
        if isinstance(f, ast.Name):
            if f.id in env:
                var = env[f.id]
                if isinstance(var.ty, tuple) and var.ty[0] == 'fun':
                    return self.call_callable(node, var.code, var.ty, env, pre)
                if var.kind != 'closure':
                    fail(node, f'call of the variable {f.id}')
                fn = var.ty[1]
                if node.keywords or len(node.args) != len(fn.params) or any(isinstance(a, ast.Starred) for a in node.args):
                    fail(node, 'closure call: positional arguments for every parameter expected')
                args = []
                for a, (_, pt, _) in zip(node.args, fn.params):
                    v = self.pexpr(a, env, pre)
                    args.append(paren(self.coerce(v, pt, node)))
                return Val(' '.join([var.code] + args), fn.ret_ty, True)
            if f.id in self.mod.bind:
                r = self.u.resolve(self.mod, f.id, node)
                if r[0] == 'func':
                    return self.call_translated(node, r[1], r[2], None, env, pre, [])
                if r[0] == 'class' and r[1].dotted in CLASS_MODULES:
                    cls = self.u.classinfo(r[1], r[2])
                    return self.call_translated(node, r[1], cls.method('__init__', node), cls, env, pre, [])
                fail(node, f'call of {f.id}, which is not a translated function or class')
            if self.is_builtin(f.id, env):
                return self.builtin(node, f.id, env, pre)
            fail(node, f'call of the unknown name {f.id}')
        if isinstance(f, ast.Attribute):
            if isinstance(f.value, ast.Name) and f.value.id in env and env[f.value.id].kind == 'self':
                cls = self.cls
                if cls.fields and isinstance(dict(cls.fields).get(f.attr), tuple) and dict(cls.fields)[f.attr][0] == 'fun':
                    return self.call_callable(node, f'({cls.name}{f.attr} self)', dict(cls.fields)[f.attr], env, pre)
                if cls.is_property(f.attr) or (cls.fields and f.attr in dict(cls.fields)):
                    fail(node, f'call of the attribute / property self.{f.attr}')
                return self.call_translated(node, cls.mod, cls.method(f.attr, node), cls, env, pre, [Val('self', None)])
            m = self.ext_module(f.value, env)
            if m == 'itertools':
                return self.iterable_val(node, env, pre)
            if m == 'math' and f.attr == 'log2' and len(node.args) == 1 and not node.keywords:
                a = self.pexpr(node.args[0], env, pre)
                if a.ty != INT:
                    fail(node, 'math.log2 of a value that is not an int')
                return Val(f'py_math_log2 {paren(a.code)}', LOG2, True)
            if m == 'copy' and f.attr == 'deepcopy' and len(node.args) == 1 and not node.keywords:
                a = self.pexpr(node.args[0], env, pre, alias_ok=True)
                if not (isinstance(a.ty, tuple) and a.ty[0] == 'list'):
                    fail(node, 'copy.deepcopy of a value that is not a list')
                return Val(a.code, a.ty, False, 2)
            if m == 'typing' and f.attr == 'cast' and len(node.args) == 2 and not node.keywords:
                return self.expr(node.args[1], env, pre, alias_ok=self.ret_pos)
            if m is not None:
                fail(node, f'{m}.{f.attr} is outside the grammar')
            if f.attr == 'items':
                return self.iterable_val(node, env, pre)
            if f.attr == 'join' and isinstance(f.value, ast.Constant) and isinstance(f.value.value, str) \
                    and len(node.args) == 1 and not node.keywords:
                parts = self.pure(self.gen_or_list(node.args[0], env, pre), pre)
                if parts.ty != TL(STR):
                    fail(node, 'join of values that are not strings')
                return Val(f'String.concat {coq_string(f.value.value, node)} {paren(parts.code)}', STR)
            if f.attr == 'is_integer' and not node.args and not node.keywords:
                a = self.pexpr(f.value, env, pre)
                if a.ty != LOG2:
                    fail(node, '.is_integer() of something that is not the result of math.log2')
                return Val(f'l2_exact {paren(a.code)}', BOOL)
        fail(node, 'call outside grammar')

    def call_callable(self, node, code, ty, env, pre):
        """a call of a value of Callable type (a Gallina function that may raise)"""
        if node.keywords or len(node.args) != len(ty[1]) or any(isinstance(a, ast.Starred) for a in node.args):
            fail(node, 'call of a callable: one positional argument per parameter expected')
        args = []
        for a, pt in zip(node.args, ty[1]):
            v = self.pexpr(a, env, pre)
            args.append(paren(self.coerce(v, pt, node)))
        return Val(' '.join([code] + args), ty[2], True)

    def gen_or_list(self, node, env, pre):
        """a generator expression (as the list of its values) or a list-valued expression"""
        if isinstance(node, (ast.GeneratorExp, ast.ListComp)):
            return self.comprehension(node, env, pre)
        return self.iterable(node, env, pre)

    def call_translated(self, node, mod, fnode, cls, env, pre, leading):
        """a call of a function / method / constructor of the source"""
        if any(isinstance(a, ast.Starred) for a in node.args):
            fail(node, '*args in a call')
        # the signature, to place the arguments
        a = fnode.args
        names = [p.arg for p in a.args][(1 if cls is not None else 0):]
        kwonly = [p.arg for p in a.kwonlyargs]
        if len(node.args) > len(names):
            fail(node, 'too many positional arguments')
        placed = {}
        order = []
        for i, arg in enumerate(node.args):
            placed[names[i]] = arg
            order.append(names[i])
        for k in node.keywords:
            if k.arg in placed or k.arg not in names + kwonly:
                fail(node, f'keyword argument {k.arg}')
            placed[k.arg] = k.value
            order.append(k.arg)
        vals = {}
        for n in order:         # Python evaluates the arguments in source order
            vals[n] = self.pexpr(placed[n], env, pre, alias_ok=True)
        # instantiate at tri cells where the declaration says bool cells
        inst = {}
        probe = self.u.function(mod, fnode, cls)
        offset = 1 if (cls is not None and fnode.name != '__init__') else 0
        for i, (pn, pt, _) in enumerate(probe.params[offset:]):
            if pn in vals and not same_ty(pt, vals[pn].ty) and same_ty(subst_cells(pt, BOOL, TRI), vals[pn].ty):
                inst[i] = vals[pn].ty
        fn = self.u.function(mod, fnode, cls, inst) if inst else probe
        args = [v.code for v in leading]
        for pn, pt, d in fn.params[offset:]:
            if pn in vals:
                v = vals[pn]
                if isinstance(pt, tuple) and pt[0] == 'var' or self.has_var(pt):
                    args.append(paren(v.code))
                else:
                    args.append(paren(self.coerce(v, pt, node)))
            elif d is not None:
                args.append(paren(self.coerce(self.expr(d, {}, []), pt, node)))
            else:
                fail(node, f'missing argument {pn}')
        scalar = fn.ret_ty in SCALARS
        for n, src in placed.items():
            if isinstance(src, ast.Name) and src.id in self.mutated and not (scalar or self.ret_pos):
                fail(node, f'{src.id} is updated in place and is passed to a call that may keep it')
        ret = fn.ret_ty
        if fn.is_gen:
            return Val(' '.join([fn.coqname] + args), ret, True, 2)
        return Val(' '.join([fn.coqname] + args), ret, True, 0)

    def has_var(self, t):
        return isinstance(t, tuple) and (t[0] == 'var' or (t[0] in ('list', 'opt') and self.has_var(t[1])))

    def builtin(self, node, name, env, pre):
        args = node.args
        if node.keywords or any(isinstance(a, ast.Starred) for a in args):
            fail(node, f'{name} with keyword / starred arguments')
        if name in ('range', 'enumerate', 'zip'):
            return self.iterable_val(node, env, pre)
        if name == 'len' and len(args) == 1:
            a = self.pexpr(args[0], env, pre, alias_ok=True)
            if a.ty == STR:
                return Val(f'py_str_len {paren(a.code)}', INT)
            if isinstance(a.ty, tuple) and a.ty[0] == 'list':
                return Val(f'py_len {paren(a.code)}', INT)
            fail(node, f'len of a value of type {a.ty}')
        if name in ('list', 'tuple') and len(args) == 1:
            inner = args[0]
            if isinstance(inner, ast.Call) and isinstance(inner.func, ast.Name) and inner.func.id == 'map' \
                    and self.is_builtin('map', env):
                if len(inner.args) != 2 or inner.keywords or not isinstance(inner.args[0], ast.Name):
                    fail(node, 'map(f, l) with a named function expected')
                xs = self.iterable(inner.args[1], env, pre)
                x = self.temp()
                call = ast.copy_location(ast.Call(func=inner.args[0], args=[ast.Name(id=x, ctx=ast.Load())], keywords=[]),
                                         inner)
                env2 = dict(env)
                env2[x] = Var(x, xs.ty[1], 'local')
                pe, e = self.sub(call, env2)
                return Val(f'mapM (fun {x} =>\n{ind(mbody(pe, e), 4)}) {paren(xs.code)}', TL(e.ty), True, 1)
            v = self.gen_or_list(inner, env, pre)
            return Val(v.code, v.ty, v.m, max(1, v.fresh) if isinstance(inner, (ast.GeneratorExp, ast.ListComp)) else 1)
        if name in ('all', 'any') and len(args) == 1:
            if isinstance(args[0], ast.GeneratorExp):
                it, binder, pe, e, pc, c, _ = self.comp_parts(args[0], env, pre)
                if c is not None:
                    fail(node, f'{name} over a filtered generator')
                if e.ty != BOOL:
                    fail(node, f'{name} over values that are not bools')
                if pe:
                    comb = 'forallM' if name == 'all' else 'existsM'
                    return Val(f'{comb} (fun {binder} =>\n{ind(mbody(pe, e), 4)}) {paren(it.code)}',
                               BOOL, True)
                comb = 'forallb' if name == 'all' else 'existsb'
                return Val(f'{comb} (fun {binder} => {e.code}) {paren(it.code)}', BOOL)
            it = self.iterable(args[0], env, pre)
            if it.ty != TL(BOOL):
                fail(node, f'{name} over values that are not bools')
            return Val(f'{"forallb" if name == "all" else "existsb"} (fun b => b) {paren(it.code)}', BOOL)
        if name == 'iter' and len(args) == 1:
            it = self.iterable(args[0], env, pre)
            return Val(it.code, ('iter', it.ty[1]), False, 1)
        if name == 'next' and len(args) == 1:
            if not (isinstance(args[0], ast.Name) and args[0].id in env and env[args[0].id].kind == 'iter'):
                fail(node, 'next of something that is not a local iterator variable')
            if self.depth:
                fail(node, 'next inside a conditional / per-element sub-expression')
            var = env[args[0].id]
            t = self.temp()
            pre.append(f"do ({t}, {var.code}) <- py_next {var.code};")
            return Val(t, var.ty[1])
        if name == 'int':
            if len(args) == 1:
                a = self.pexpr(args[0], env, pre)
                if a.ty == BOOL:
                    return Val(f'Z.b2z {paren(a.code)}', INT)
                if a.ty == INT:
                    return a
                if a.ty == STR:
                    return Val(f'py_int_of_str {paren(a.code)}', INT, True)
                if a.ty == LOG2:
                    return Val(f'l2_floor {paren(a.code)}', INT)
            elif len(args) == 2 and isinstance(args[1], ast.Constant) and args[1].value == 2 \
                    and type(args[1].value) is int:
                a = self.pexpr(args[0], env, pre)
                if a.ty == STR:
                    return Val(f'py_int_of_str_base2 {paren(a.code)}', INT, True)
            fail(node, 'int(...) outside grammar')
        if name == 'str' and len(args) == 1:
            a = self.pexpr(args[0], env, pre)
            if a.ty == INT:
                return Val(f'py_str_of_int {paren(a.code)}', STR)
            if a.ty == STR:
                return a
            fail(node, 'str(...) of a value that is not an int')
        if name == 'bool' and len(args) == 1:
            a = self.pexpr(args[0], env, pre)
            if a.ty == INT:
                return Val(f'py_bool_of_int {paren(a.code)}', BOOL)
            if a.ty == BOOL:
                return a
            fail(node, 'bool(...) of a value that is not an int / bool')
        if name == 'bin' and len(args) == 1:
            a = self.pexpr(args[0], env, pre)
            if a.ty != INT:
                fail(node, 'bin of a value that is not an int')
            return Val(f'py_bin {paren(a.code)}', STR)
        if name == 'isinstance' and len(args) == 2:
            a = self.pexpr(args[0], env, pre)
            if isinstance(args[1], ast.Name) and args[1].id == 'str' and 'str' not in env and 'str' not in self.mod.bind \
                    and a.ty in (BOOL, INT, TRI, STR):
                v = Val('true' if a.ty == STR else 'false', BOOL)
                v.const = a.ty == STR
                return v
            fail(node, 'isinstance outside grammar')
        fail(node, f'{name}(...) outside grammar')


class FnTrFull(FnTr, Stmts, Exprs):
    pass


FnTrOrig = FnTr
FnTr = FnTrFull     # noqa: F811  (Unit.function and st_def build FnTrFull objects)


# ---------------------------------------------------------------------------------------------- driver
def generate():
    u = Unit()
    for dotted, qual in COVERED:
        mod = u.mod(dotted)
        if '.' in qual:
            cname, mname = qual.split('.')
            r = u.resolve(mod, cname)
            if r is None or r[0] != 'class' or r[1] is not mod:
                raise TranslatorError(f'class {cname} not found in {dotted}')
            cls = u.classinfo(mod, r[2])
            u.function(mod, cls.method(mname, r[2]), cls)
        else:
            r = u.resolve(mod, qual)
            if r is None or r[0] != 'func' or r[1] is not mod:
                raise TranslatorError(f'function {qual} not found in {dotted}')
            u.function(mod, r[2])
    header = (verif_root() / 'translator' / 't11_prelude.v.txt').read_text()
    parts = [header]
    for kind, item in u.items:
        parts.append(item if kind == 'record' else item.text)
    return '\n'.join(p.rstrip('\n') + '\n' for p in parts)


def translate():
    return {OUT: write_if_changed(OUT, generate())}


if __name__ == '__main__':
    print(generate())
