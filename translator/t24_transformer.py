"""T24: the rest of cirbo/core/circuit/transformer.py (what T15 left to the hand model), plus the `__eq__` override of
RemoveRedundantGates  ->  Generated/TransformerGen.v

T15 (translator/t15_passes.py, reused here by subclassing its PipeUnit: source resolution, guard_module, the closed
world WORLD of transformer classes, the checks of the class definitions, the constructor terms) regenerates the four
passes, cleanup, the class tables and the reduction loop.  This translator regenerates, statement by statement, the
methods that dispatch dynamically on the class of a transformer object:

  Transformer.linearize_transformers (static, generator)             gen_linearize_transformers_fuel   \\ mutual
  Transformer.as_distinct / TransformerComposition.as_distinct         gen_as_distinct_fuel              / recursion
  Transformer.apply_transformers (static)                              gen_apply_transformers_fuel       \\ mutual
  <leaf class>._transform (T15) / TransformerComposition._transform    gen__transform_fuel               / recursion
  Transformer.transform                                                gen_transform
  Transformer.__eq__ / RemoveRedundantGates.__eq__ / TransformerComposition.__eq__
                                                                       gen_<Class>___eq__, gen___eq__, gen_py_eq
  Transformer.__or__ / __ror__                                         gen___or__, gen___ror__, gen_py_or

Reading of the object model (a transformer OBJECT is a value of Passes.transformer: one constructor per class of
WORLD, its arguments are the constructor arguments; the attribute that __init__ stores a parameter in IS that argument):

  dynamic dispatch   `x.m(..)` on a transformer x is a `match` on the constructor with one arm per class: the `def m` of
                     the class body if it has one, else the one of Transformer (no class of WORLD derives from another
                     class of WORLD: checked by T15).  In an arm the attributes of `self` that __init__ stored are the
                     pattern variables; `self._pre_transformers` / `self._post_transformers` are the tables
                     gen_pre_transformers / gen_post_transformers of T15 (what each constructor hands to
                     Transformer.__init__).  A static method called through `self.` or `Transformer.` is the same
                     function (no class overrides one: checked).
  generators         run to completion: `yield e` / `yield from e` append to the list that the function returns.
  recursion          methods that call each other through the class hierarchy (as_distinct <-> linearize_transformers,
                     apply_transformers <-> _transform) become ONE mutual Fixpoint on an explicit fuel (Err OutOfFuel at
                     0); gen_<name> without `_fuel` instantiates the fuel with gen_dispatch_fuel (2 per level of the
                     term + 2 per leaf class, which bounds every dependency chain) / gen_apply_fuel.
                     Proofs/TransformerGen.v proves the results independent of the fuel above an explicit bound.
  isinstance         `isinstance(x, <class of WORLD>)` in an `if` is a `match` that binds the attributes of x in the
                     branch where it holds (narrowing); `isinstance(x, Transformer)` on a value that is a transformer
                     in the model is py_isinstance_Transformer (constantly true).
  Union parameter    `tp.Union[tp.Iterable[Transformer], TransformerComposition]` is `list transformer + transformer`;
                     using such a value where an iterable is needed is py_iter_union (TypeError for a transformer:
                     transformer objects are not iterable).
  functools.reduce   `functools.reduce(lambda a, b: e, it, init)` is foldM (fun a b => e) it init.
  NotImplemented     a method that can `return NotImplemented` returns an option (None = NotImplemented).  MODELLED ONLY
                     BETWEEN TRANSFORMER OBJECTS: a parameter annotated tp.Any (`other`) ranges over Passes.transformer,
                     not over arbitrary Python objects.  `a == b` is gen_py_eq: a.__eq__(b), if NotImplemented then
                     b.__eq__(a), if NotImplemented then identity (`a is b`; not expressible on terms: emitted as
                     false, and Proofs/TransformerGen.v proves that case unreachable).  The rule "reflected method first
                     when type(b) is a proper subclass of type(a)" never applies inside WORLD.  `x and y` where x may be
                     NotImplemented is py_and_ni (NotImplemented is truthy in Python <= 3.13).  `a | b` is gen_py_or.
  copies             list(x), copy.copy(x) of a list: identity (lists are values).

Anything else raises TranslatorError.  Deterministic: no sets / dict orders are iterated.
"""
import ast

from .common import TranslatorError, fail, strip_docstring, write_if_changed
from . import t15_passes as t15
from .t15_passes import WORLD, TRANSFORMER_PY, BOOL

OUT3 = 'Generated/TransformerGen.v'

TR, TRS, CIRC, UNION, NI_BOOL, NI_TR = 'tr', 'trs', 'circ', 'union', 'ni_bool', 'ni_tr'
COQ_TY = {TR: 'transformer', TRS: 'list transformer', CIRC: 'circuit', UNION: '(list transformer + transformer)',
          BOOL: 'bool', NI_BOOL: 'option bool', NI_TR: 'option transformer'}
YIELD = '<yield>'
LEAF_FUEL = 2 * len([c for c in WORLD if c != 'TransformerComposition'])

# method -> (result type, monadic, group)   group: the mutual Fixpoint it belongs to (None: plain Definition)
METHODS = {
    'linearize_transformers': (TRS, True, 'A'),
    'as_distinct': (TRS, True, 'A'),
    'apply_transformers': (CIRC, True, 'B'),
    '_transform': (CIRC, True, 'B'),
    'transform': (CIRC, True, None),
    '__eq__': (NI_BOOL, False, None),
    '__or__': (NI_TR, True, None),
    '__ror__': (NI_TR, True, None),
}
STATICS = ('linearize_transformers', 'apply_transformers')
# outside its group a fuelled function is called through this wrapper
WRAPPER_FUEL = {
    'linearize_transformers': lambda args: f'(gen_dispatch_fuel (TComp {args[0]}))',
    'as_distinct': lambda args: f'(gen_dispatch_fuel {args[0]})',
    'apply_transformers': lambda args: 'gen_apply_fuel',
    '_transform': lambda args: 'gen_apply_fuel',
}

HEADER3 = '''(* GENERATED by translator/t24_transformer.py from cirbo/core/circuit/transformer.py and the class definitions of the
   passes.  DO NOT EDIT.  Proofs/TransformerGen.v proves every function below equal to the hand model Model/Passes.v.

   Dynamic dispatch on `self` is a match on the constructor of Passes.transformer (one arm per class; the arm of a class
   without its own `def` is the body of Transformer's); generators are run to completion; mutual recursion through the
   class hierarchy is a mutual Fixpoint on explicit fuel; `return NotImplemented` is None.  The NotImplemented protocol
   is modelled BETWEEN TRANSFORMER OBJECTS only (`other: tp.Any` ranges over Passes.transformer). *)
Require Import Cirbo.Model.Base Cirbo.Model.Gate Cirbo.Model.Circuit Cirbo.Model.Passes.
Require Import Cirbo.Generated.PassesGen Cirbo.Generated.PipelineGen.

(* ---- fixed prelude ---- *)
(* isinstance(x, Transformer) for a value that is a transformer in the model *)
Definition py_isinstance_Transformer (_ : transformer) : bool := true.
(* a value of tp.Union[tp.Iterable[Transformer], TransformerComposition] used as an iterable *)
Definition py_iter_union (u : list transformer + transformer) : res (list transformer) :=
  match u with inl l => Ok l | inr _ => Err PyTypeError end.
(* `x and y` where x is a bool or NotImplemented (truthy) *)
Definition py_and_ni (x : option bool) (y : bool) : option bool :=
  match x with Some false => Some false | _ => Some y end.
(* nesting depth of a transformer term *)
Fixpoint py_transformer_depth (t : transformer) : nat :=
  match t with
  | TComp ts => S (fold_right (fun t a => Nat.max (py_transformer_depth t) a) 0 ts)
  | _ => 1
  end.
'''


class Var:
    def __init__(self, code, ty, cls=None, fields=None):
        self.code, self.ty, self.cls, self.fields = code, ty, cls, fields or {}


def atom(code):
    code = code.strip()
    if code.startswith('(') or code.startswith('[') or ' ' not in code:
        return code
    return '(' + code + ')'


def indent(text, n):
    pad = ' ' * n
    return '\n'.join(pad + l if l else l for l in text.split('\n'))


class TrUnit(t15.PipeUnit):
    """the closed world of T15 plus: the attribute -> constructor parameter table of every class, the method table"""
    def __init__(self):
        super().__init__()
        self.base = self.tm.classes['Transformer']
        self.fields = {}
        for cname, info in self.world.items():
            tys = dict(WORLD[cname][2])
            tab = {}
            for st in strip_docstring(info['init'].body):
                if isinstance(st, ast.Assign):       # shape checked by PipeUnit.check_world
                    attr = st.targets[0].attr
                    p = st.value.id if isinstance(st.value, ast.Name) else st.value.args[0].id
                    if attr in tab:
                        fail(st, f'{cname}.{attr} stored twice')
                    tab[attr] = (p, TRS if tys[p] == t15.TRANSFORMERS else tys[p])
            for n in ast.walk(info['cls']):
                if isinstance(n, ast.Attribute) and isinstance(n.ctx, (ast.Store, ast.Del)) and n.attr in tab \
                        and not any(n is s.targets[0] for s in info['init'].body if isinstance(s, ast.Assign)):
                    fail(n, f'{cname}.{n.attr} is written outside the top level of __init__')
            self.fields[cname] = tab
        for n in ast.walk(self.base):
            if isinstance(n, ast.Attribute) and isinstance(n.ctx, (ast.Store, ast.Del)) \
                    and n.attr not in ('_pre_transformers', '_post_transformers'):
                fail(n, f'Transformer writes the attribute {n.attr}')
        for name in STATICS:
            for cname, info in self.world.items():
                if self.method(info['cls'], name) is not None:
                    raise TranslatorError(f'{cname} overrides the static method {name}')
        for cname, info in self.world.items():
            for b in info['cls'].body:
                if isinstance(b, ast.FunctionDef) and b.name not in METHODS and b.name != '__init__' \
                        and self.method(self.base, b.name) is not None:
                    fail(b, f'{cname} overrides Transformer.{b.name}, which T24 does not model')
                if isinstance(b, ast.FunctionDef) and b.name in ('__ne__', '__hash__', '__iter__', '__bool__', '__len__'):
                    fail(b, f'{cname}.{b.name}: customised object protocol')
        for b in self.base.body:
            if isinstance(b, ast.FunctionDef) and b.name in ('__ne__', '__hash__', '__iter__', '__bool__', '__len__'):
                fail(b, f'Transformer.{b.name}: customised object protocol')

    def pattern(self, cname, prefix):
        """constructor pattern of a class and the attribute -> Var table it binds"""
        _d, con, params = WORLD[cname]
        codes = {p: f'{prefix}{p}' for p, _ in params}
        pat = con if not params else '(' + ' '.join([con] + [codes[p] for p, _ in params]) + ')'
        fields = {attr: (codes[p], ty) for attr, (p, ty) in self.fields[cname].items()}
        return pat, fields

    def wild(self, cname):
        _d, con, params = WORLD[cname]
        return con + ' _' * len(params)

    def defs_of(self, name):
        """-> (base def | None, {class: def} for the classes of WORLD that define `name` themselves)"""
        base = self.method(self.base, name)
        over = {}
        for cname, info in self.world.items():
            d = self.method(info['cls'], name)
            if d is not None:
                over[cname] = d
        return base, over

    def signature(self, name):
        """parameters (after self) of Transformer.<name>: [(py name, type, default code | None)]"""
        f = self.method(self.base, name)
        if f is None:
            raise TranslatorError(f'Transformer.{name} not found')
        return self.sig_of(f, name in STATICS)

    def sig_of(self, f, static):
        a = f.args
        if a.posonlyargs or a.vararg or a.kwarg or a.defaults:
            fail(f, 'signature outside grammar')
        args = list(a.args)
        if not static:
            if not args or args[0].arg != 'self':
                fail(f, 'method without self')
            args = args[1:]
        out = []
        for p in args:
            out.append((p.arg, self.ann_type(p.annotation, p), None, False))
        for p, dv in zip(a.kwonlyargs, a.kw_defaults):
            ty = self.ann_type(p.annotation, p)
            d = None
            if dv is not None:
                if ty != BOOL or not (isinstance(dv, ast.Constant) and isinstance(dv.value, bool)):
                    fail(p, 'default outside grammar')
                d = 'true' if dv.value else 'false'
            out.append((p.arg, ty, d, True))
        names = [p for p, _t, _d, _k in out]
        if len(set(names)) != len(names) or 'self' in names or 'fuel' in names:
            fail(f, 'parameter names outside grammar')
        return out

    def ann_type(self, ann, node):
        if ann is None:
            fail(node, 'parameter without annotation')
        s = ast.unparse(ann).replace("'", '').replace('"', '').replace(' ', '')
        tp_ok = self.tm.is_module('tp', 'typing')
        if s == 'bool':
            return BOOL
        if s == 'Circuit' and self.tm.is_circuit_class('Circuit'):
            return CIRC
        if s == 'tp.Iterable[Transformer]' and tp_ok:
            return TRS
        if s == 'tp.Union[tp.Iterable[Transformer],TransformerComposition]' and tp_ok:
            return UNION
        if s == 'tp.Any' and tp_ok:
            return TR         # the NotImplemented protocol is modelled between transformer objects only
        fail(node, f'annotation {s} outside grammar')


class MethTr:
    """one `def` of Transformer or of a class of WORLD -> the Gallina of its body"""
    def __init__(self, unit, cname, src, name, group):
        self.u, self.cname, self.src, self.name, self.group = unit, cname, src, name, group
        self.m = unit.tm if cname in (None, 'TransformerComposition') else unit.world[cname]['m']
        self.ret, self.monadic, _g = METHODS[name]
        self.static = name in STATICS
        self.k = 0
        want = ['staticmethod'] if self.static else []
        if [ast.unparse(d) for d in src.decorator_list] != want:
            fail(src, f'{name}: decorators outside grammar')
        self.is_gen = any(isinstance(n, (ast.Yield, ast.YieldFrom)) for n in ast.walk(src))
        for n in ast.walk(src):
            if isinstance(n, (ast.FunctionDef, ast.AsyncFunctionDef, ast.ClassDef)) and n is not src:
                fail(n, 'nested definition')
            if isinstance(n, (ast.Global, ast.Nonlocal, ast.While, ast.Try, ast.With, ast.Raise, ast.Delete, ast.Await,
                              ast.NamedExpr, ast.Starred, ast.Break, ast.Continue, ast.Import, ast.ImportFrom)):
                fail(n, 'statement outside grammar')
        self.declared = {}

    def fresh(self):
        self.k += 1
        return f't{self.k}'

    # ------------------------------------------------------------------ environment
    def initial_env(self, self_fields):
        env = {}
        sig = self.u.sig_of(self.src, self.static)
        base_sig = self.u.signature(self.name)
        if [(p, t, d, k) for p, t, d, k in sig] != base_sig:
            fail(self.src, f'{self.name}: the signature differs from the one of Transformer.{self.name}')
        if not self.static:
            env['self'] = Var('self', TR, cls=self.cname, fields=self_fields)
        for p, ty, _d, _k in sig:
            env[p] = Var('v_' + p, ty)
        if self.is_gen:
            env[YIELD] = Var('yielded_', TRS)
        return env

    def body(self, self_fields):
        env = self.initial_env(self_fields)
        stmts = strip_docstring(self.src.body)
        code = self.block(stmts, env, self.fall_off)
        if self.is_gen:
            code = 'let yielded_ := [] in\n' + code
        return code

    def fall_off(self, env):
        if self.is_gen:
            return f'Ok {env[YIELD].code}'
        fail(self.src, 'the function can fall off its end (returns None)')

    # ------------------------------------------------------------------ statements
    def assigned(self, stmts):
        out = []
        for s in stmts:
            for n in ast.walk(s):
                if isinstance(n, ast.Name) and isinstance(n.ctx, ast.Store) and n.id not in out:
                    out.append(n.id)
                if isinstance(n, (ast.Yield, ast.YieldFrom)) and YIELD not in out:
                    out.append(YIELD)
        return out

    def terminates(self, stmts):
        if not stmts:
            return False
        last = stmts[-1]
        if isinstance(last, ast.Return):
            return True
        if isinstance(last, ast.If):
            return self.terminates(last.body) and self.terminates(last.orelse)
        return False

    def emit_pre(self, pre):
        return [f'do {n} <- {c};' for n, c in pre]

    def block(self, body, env, tail):
        if not body:
            return tail(env)
        s, rest = body[0], body[1:]

        def k(e):
            return self.block(rest, e, tail)
        if isinstance(s, ast.Pass):
            return k(env)
        if isinstance(s, ast.Expr) and isinstance(s.value, (ast.Yield, ast.YieldFrom)):
            if not self.is_gen or s.value.value is None:
                fail(s, 'yield outside grammar')
            pre = []
            code, ty = self.expr(s.value.value, env, pre)
            y = env[YIELD].code
            if isinstance(s.value, ast.Yield):
                if ty != TR:
                    fail(s, f'yield of {ty}')
                add = f'[{code}]'
            else:
                if ty != TRS:
                    fail(s, f'yield from {ty}')
                add = atom(code)
            return '\n'.join(self.emit_pre(pre) + [f'let {y} := {y} ++ {add} in', k(env)])
        if isinstance(s, ast.Return):
            if rest:
                fail(rest[0], 'statement after return')
            return self.return_(s, env)
        if isinstance(s, ast.AnnAssign) and s.value is None and isinstance(s.target, ast.Name):
            name = s.target.id
            if name in env or name in self.declared:
                fail(s, f'{name} declared after it was bound')
            self.declared[name] = self.u.ann_type(s.annotation, s)
            return k(env)
        if isinstance(s, ast.Assign):
            return self.assign(s, env, k)
        if isinstance(s, ast.If):
            return self.if_(s, rest, env, k)
        if isinstance(s, ast.For):
            return self.for_(s, env, k)
        fail(s, 'statement outside grammar')

    def wrap(self, code):
        return f'Ok {atom(code)}' if self.monadic else code

    def return_(self, s, env):
        if self.is_gen or s.value is None:
            fail(s, 'return outside grammar')
        if isinstance(s.value, ast.Name) and s.value.id == 'NotImplemented' and 'NotImplemented' not in env:
            if self.ret not in (NI_BOOL, NI_TR):
                fail(s, 'NotImplemented returned by a method outside the protocol')
            return self.wrap('None')
        pre = []
        code, ty = self.expr(s.value, env, pre, tail=True)
        if ty == ('res', self.ret):          # a monadic call in tail position
            return '\n'.join(self.emit_pre(pre) + [code])
        if (self.ret, ty) in ((NI_BOOL, BOOL), (NI_TR, TR)):
            code, ty = f'Some {atom(code)}', self.ret
        if ty != self.ret:
            fail(s, f'return of {ty}, expected {self.ret}')
        if pre and not self.monadic:
            fail(s, 'a call that can fail in a method translated as a pure function')
        return '\n'.join(self.emit_pre(pre) + [self.wrap(code)])

    def coerce(self, code, ty, want, pre, node):
        if ty == want:
            return code
        if ty == UNION and want == TRS:
            t = self.fresh()
            pre.append((t, f'py_iter_union {atom(code)}'))
            return t
        if ty == TRS and want == UNION:
            return f'(inl {atom(code)})'
        if ty == TR and want == UNION:
            return f'(inr {atom(code)})'
        fail(node, f'a value of {ty} where {want} is expected')

    def assign(self, s, env, k):
        if len(s.targets) != 1 or not isinstance(s.targets[0], ast.Name):
            fail(s, 'assignment outside grammar')
        name = s.targets[0].id
        if name in ('self', 'NotImplemented', 'Transformer') or name in WORLD:
            fail(s, f'rebinding of {name}')
        pre = []
        code, ty = self.expr(s.value, env, pre)
        want = self.declared.get(name, env[name].ty if name in env else ty)
        code = self.coerce(code, ty, want, pre, s)
        if pre and not self.monadic:
            fail(s, 'a call that can fail in a method translated as a pure function')
        env2 = dict(env)
        env2[name] = Var('v_' + name, want)
        return '\n'.join(self.emit_pre(pre) + [f'let v_{name} := {code} in', k(env2)])

    def narrowing(self, test, env):
        """isinstance(<name>, <class of WORLD>) / its negation -> (name, class, positive) | None"""
        pos = True
        if isinstance(test, ast.UnaryOp) and isinstance(test.op, ast.Not):
            test, pos = test.operand, False
        if isinstance(test, ast.Call) and isinstance(test.func, ast.Name) and test.func.id == 'isinstance' \
                and 'isinstance' not in env and len(test.args) == 2 and not test.keywords \
                and isinstance(test.args[0], ast.Name) and isinstance(test.args[1], ast.Name):
            cname = self.u.world_class(self.m, test.args[1].id) if test.args[1].id not in env else None
            if cname is not None:
                x = test.args[0].id
                if x not in env or env[x].ty not in (TR, UNION) or env[x].cls is not None:
                    fail(test, 'isinstance on something that is not an un-narrowed transformer')
                return x, cname, pos
        return None

    def if_(self, s, rest, env, k):
        nw = self.narrowing(s.test, env)
        t_body, t_else = self.terminates(s.body), self.terminates(s.orelse)
        if nw is not None:
            x, cname, pos = nw
            var = env[x]
            pat, fields = self.u.pattern(cname, f'n_{x}_')
            env_in = dict(env)
            if var.ty == TR:
                env_in[x] = Var(var.code, TR, cls=cname, fields=fields)
                fullpat = pat
            else:
                env_in[x] = Var(f'n_{x}', TR, cls=cname, fields=fields)
                fullpat = f'inr ({pat} as n_{x})'
            yes, no = (s.body, s.orelse) if pos else (s.orelse, s.body)
            env_yes, env_no = env_in, env

            def mk(a, b):
                return '\n'.join([f'match {var.code} with', f'| {fullpat} =>', indent(a, 4), '| _ =>', indent(b, 4), 'end'])
        else:
            pre = []
            c, ty = self.expr(s.test, env, pre)
            if ty != BOOL or pre:
                fail(s.test, 'condition outside grammar')
            yes, no, env_yes, env_no = s.body, s.orelse, env, env

            def mk(a, b):
                return '\n'.join([f'if {c} then', indent(a, 2), 'else', indent(b, 2)])
        t_yes, t_no = (t_body, t_else) if yes is s.body else (t_else, t_body)
        if t_yes and t_no:
            if rest:
                fail(rest[0], 'unreachable statement')
            return mk(self.block(yes, env_yes, self.fall_off), self.block(no, env_no, self.fall_off))
        if t_yes or t_no:
            # the terminating branch returns, the other one continues with the rest of the block
            a = self.block(yes, env_yes, self.fall_off) if t_yes else self.block(yes, env_yes, k_strip(env_yes, env, k))
            b = self.block(no, env_no, self.fall_off) if t_no else self.block(no, env_no, k_strip(env_no, env, k))
            return mk(a, b)
        # join on the variables the branches modify
        if not self.monadic:
            fail(s, 'join in a method translated as a pure function')
        mod = [n for n in self.assigned(list(s.body) + list(s.orelse))]
        for n in mod:
            if n != YIELD and n not in self.declared and n not in env:
                fail(s, f'{n} is bound in a branch without a declaration')
        tys = {n: (TRS if n == YIELD else self.declared.get(n, env[n].ty if n in env else None)) for n in mod}
        codes = {n: (env[YIELD].code if n == YIELD else 'v_' + n) for n in mod}

        def fin(e):
            for n in mod:
                if n not in e or e[n].ty != tys[n]:
                    fail(s, f'{n} is not bound in every branch')
            return 'Ok ' + tuple_of([e[n].code for n in mod])
        a = self.block(yes, env_yes, fin)
        b = self.block(no, env_no, fin)
        env2 = dict(env)
        for n in mod:
            env2[n] = Var(codes[n], tys[n])
        return '\n'.join([f'do {tuple_of([codes[n] for n in mod])} <- (', indent(mk(a, b), 2) + ');', k(env2)])

    def for_(self, s, env, k):
        if s.orelse or not isinstance(s.target, ast.Name) or self.terminates(s.body) \
                or any(isinstance(n, ast.Return) for b in s.body for n in ast.walk(b)):
            fail(s, 'for loop outside grammar')
        if not self.monadic:
            fail(s, 'loop in a method translated as a pure function')
        x = s.target.id
        if x in env or x in self.declared:
            fail(s, f'loop variable {x} rebinds a name')
        pre = []
        it, ty = self.expr(s.iter, env, pre)
        it = self.coerce(it, ty, TRS, pre, s)
        mod = self.assigned(s.body)
        mod = [n for n in mod if n != x]
        for n in mod:
            if n not in env:
                fail(s, f'{n} is first bound inside a loop')
        codes = [env[n].code for n in mod]
        env_in = dict(env)
        env_in[x] = Var('v_' + x, TR)
        inner = self.block(list(s.body), env_in, lambda e: 'Ok ' + tuple_of([e[n].code for n in mod]))
        st = tuple_of(codes)
        binder = st if len(codes) == 1 else "'" + st
        return '\n'.join(self.emit_pre(pre) + [
            f'do {st} <-', f'  foldM (fun {binder} v_{x} =>', indent(inner, 6) + ')', f'    {atom(it)} {st};', k(env)])

    # ------------------------------------------------------------------ expressions
    def expr(self, node, env, pre, tail=False):
        """-> (code, type); monadic sub-computations are appended to pre.  tail: a monadic call may be returned as is
        (type ('res', t))"""
        if isinstance(node, ast.Name):
            if node.id in env:
                return env[node.id].code, env[node.id].ty
            fail(node, f'unknown name {node.id}')
        if isinstance(node, ast.Constant) and isinstance(node.value, bool):
            return ('true' if node.value else 'false'), BOOL
        if isinstance(node, ast.List):
            vals = [self.expr(e, env, pre) for e in node.elts]
            if not vals or any(t != TR for _c, t in vals):
                fail(node, 'list display outside grammar')
            return '[' + '; '.join(c for c, _t in vals) + ']', TRS
        if isinstance(node, ast.BinOp) and isinstance(node.op, ast.Add):
            a, ta = self.expr(node.left, env, pre)
            b, tb = self.expr(node.right, env, pre)
            if ta != TRS or tb != TRS:
                fail(node, '+ outside grammar')
            return f'({atom(a)} ++ {atom(b)})', TRS
        if isinstance(node, ast.UnaryOp) and isinstance(node.op, ast.Not):
            a, ta = self.expr(node.operand, env, pre)
            if ta != BOOL:
                fail(node, 'not outside grammar')
            return f'(negb {atom(a)})', BOOL
        if isinstance(node, ast.BoolOp) and isinstance(node.op, ast.And) and len(node.values) == 2:
            sub = []
            a, ta = self.expr(node.values[0], env, sub)
            b, tb = self.expr(node.values[1], env, sub)
            if sub:
                fail(node, '`and` over calls that can fail')
            if (ta, tb) == (BOOL, BOOL):
                return f'({atom(a)} && {atom(b)})', BOOL
            if (ta, tb) == (NI_BOOL, BOOL):
                return f'(py_and_ni {atom(a)} {atom(b)})', NI_BOOL
            fail(node, '`and` outside grammar')
        if isinstance(node, ast.Compare) and len(node.ops) == 1 and isinstance(node.ops[0], ast.Eq):
            l, r = node.left, node.comparators[0]
            if self.is_type_of(l, env) and self.is_type_of(r, env):
                a, ta = self.expr(l.args[0], env, pre)
                b, tb = self.expr(r.args[0], env, pre)
                if ta != TR or tb != TR:
                    fail(node, 'type(..) of something that is not a transformer')
                return f'(gen_same_class {atom(a)} {atom(b)})', BOOL
            a, ta = self.expr(l, env, pre)
            b, tb = self.expr(r, env, pre)
            if (ta, tb) == (BOOL, BOOL):
                return f'(Bool.eqb {atom(a)} {atom(b)})', BOOL
            fail(node, '== outside grammar')
        if isinstance(node, ast.Attribute) and isinstance(node.ctx, ast.Load):
            return self.attribute(node, env, pre)
        if isinstance(node, ast.Call):
            return self.call(node, env, pre, tail)
        fail(node, 'expression outside grammar')

    @staticmethod
    def is_type_of(node, env):
        return isinstance(node, ast.Call) and isinstance(node.func, ast.Name) and node.func.id == 'type' \
            and 'type' not in env and len(node.args) == 1 and not node.keywords

    def attribute(self, node, env, pre):
        if not isinstance(node.value, ast.Name) or node.value.id not in env:
            fail(node, 'attribute outside grammar')
        var = env[node.value.id]
        if var.ty != TR:
            fail(node, 'attribute of something that is not a transformer')
        attr = node.attr
        if attr in ('_pre_transformers', '_post_transformers'):
            return f'(gen_{attr[1:]} {atom(var.code)})', TRS
        if var.cls is not None and attr in var.fields:
            return var.fields[attr]
        if var.cls is not None:
            # a read-only property of the class: `return <expr over self>`
            cls = self.u.world[var.cls]['cls']
            prop = self.u.method(cls, attr)
            if prop is not None and [ast.unparse(d) for d in prop.decorator_list] == ['property'] \
                    and len(prop.args.args) == 1 and not prop.args.kwonlyargs:
                body = strip_docstring(prop.body)
                if len(body) == 1 and isinstance(body[0], ast.Return) and body[0].value is not None:
                    sub = MethTr.__new__(MethTr)
                    sub.__dict__.update(self.__dict__)
                    sub.m = self.u.world[var.cls]['m']
                    return sub.expr(body[0].value, {prop.args.args[0].arg: Var(var.code, TR, var.cls, var.fields)}, pre)
        fail(node, f'attribute {attr} outside grammar')

    def is_base_name(self, name, env):
        return name == 'Transformer' and name not in env and (
            self.u.is_transformer_base(self.m, name)
            or (self.m.dotted == TRANSFORMER_PY and self.m.bind.get(name, ('',))[0] == 'def'))

    def call(self, node, env, pre, tail):
        f = node.func
        # <Class>(args): constructor of the closed world
        if isinstance(f, ast.Name) and f.id not in env:
            t = self.u.ctor_term(self.m, node, lambda a, ty: self.ctor_arg(a, ty, env, pre))
            if t is not None:
                return t, TR
            if f.id == 'list' and len(node.args) == 1 and not node.keywords:
                a, ta = self.expr(node.args[0], env, pre)
                if ta != TRS:
                    fail(node, 'list(..) of something that is not a list')
                return a, TRS
        if isinstance(f, ast.Attribute) and isinstance(f.value, ast.Name):
            base, attr = f.value.id, f.attr
            if base == 'copy' and attr == 'copy' and 'copy' not in env and self.m.is_module('copy', 'copy') \
                    and len(node.args) == 1 and not node.keywords:
                a, ta = self.expr(node.args[0], env, pre)
                if ta != TRS:
                    fail(node, 'copy.copy of something that is not a list')
                return a, TRS
            if base == 'functools' and attr == 'reduce' and 'functools' not in env \
                    and self.m.is_module('functools', 'functools'):
                return self.reduce(node, env, pre, tail)
            if base == 'isinstance':
                pass
            if attr in STATICS and (self.is_base_name(base, env) or (base in env and env[base].ty == TR)):
                return self.method_call(attr, None, node, env, pre, tail)
            if attr == 'linearize_reduce_transformers' and self.is_base_name(base, env):
                if node.keywords or len(node.args) != 1:
                    fail(node, 'arguments of linearize_reduce_transformers')
                a, ta = self.expr(node.args[0], env, pre)
                a = self.coerce(a, ta, TRS, pre, node)
                return self.monadic_result(f'gen_linearize_reduce_transformers {atom(a)}', TRS, pre, tail)
            if attr in METHODS and attr not in STATICS and base in env and env[base].ty == TR:
                return self.method_call(attr, env[base], node, env, pre, tail)
        if isinstance(f, ast.Name) and f.id == 'isinstance' and 'isinstance' not in env and len(node.args) == 2 \
                and not node.keywords and isinstance(node.args[1], ast.Name) and self.is_base_name(node.args[1].id, env):
            a, ta = self.expr(node.args[0], env, pre)
            if ta != TR:
                fail(node, 'isinstance(.., Transformer) of something that is not a transformer in the model')
            return f'(py_isinstance_Transformer {atom(a)})', BOOL
        # super().m(args) inside a class of WORLD: the method of Transformer
        if isinstance(f, ast.Attribute) and isinstance(f.value, ast.Call) and isinstance(f.value.func, ast.Name) \
                and f.value.func.id == 'super' and 'super' not in env and not f.value.args and not f.value.keywords \
                and self.cname is not None and f.attr in METHODS and f.attr not in STATICS and f.attr == self.name:
            if METHODS[f.attr][2] is not None or self.u.method(self.u.base, f.attr) is None:
                fail(node, 'super() call outside grammar')
            args = self.args_of(f.attr, node, env, pre)
            rty, mon, _g = METHODS[f.attr]
            code = ' '.join([f'gen_Transformer_{f.attr}', 'self'] + [atom(a) for a in args])
            return self.monadic_result(code, rty, pre, tail) if mon else (f'({code})', rty)
        fail(node, 'call outside grammar')

    def ctor_arg(self, a, ty, env, pre):
        code, t = self.expr(a, env, pre)
        want = TRS if ty == t15.TRANSFORMERS else ty
        if t != want:
            fail(a, f'constructor argument of {t}, expected {want}')
        return atom(code)

    def monadic_result(self, code, ty, pre, tail):
        if not self.monadic:
            fail(self.src, 'a call that can fail in a method translated as a pure function')
        if tail and self.ret == ty:
            return code, ('res', ty)
        t = self.fresh()
        pre.append((t, code))
        return t, ty

    def args_of(self, name, node, env, pre):
        sig = self.u.signature(name)
        pos = [p for p in sig if not p[3]]
        if len(node.args) > len(pos):
            fail(node, 'too many positional arguments')
        given = {}
        for (p, _t, _d, _k), a in zip(pos, node.args):
            given[p] = a
        for kw in node.keywords:
            if kw.arg is None or kw.arg in given or kw.arg not in [p[0] for p in sig]:
                fail(node, 'keyword argument outside grammar')
            given[kw.arg] = kw.value
        out = []
        for p, ty, d, _k in sig:
            if p in given:
                c, t = self.expr(given[p], env, pre)
                out.append(self.coerce(c, t, ty, pre, node))
            elif d is not None:
                out.append(d)
            else:
                fail(node, f'missing argument {p}')
        return out

    def method_call(self, name, recv, node, env, pre, tail):
        rty, mon, group = METHODS[name]
        args = self.args_of(name, node, env, pre)
        if recv is not None:
            args = [recv.code] + args
        args = [atom(a) for a in args]
        if group is not None:
            if group == self.group:
                code = ' '.join([f'gen_{name}_fuel', 'fuel'] + args)
            else:
                code = ' '.join([f'gen_{name}'] + args)
        else:
            code = ' '.join([f'gen_{name}'] + args)
        if mon:
            return self.monadic_result(code, rty, pre, tail)
        return f'({code})', rty

    def reduce(self, node, env, pre, tail):
        if node.keywords or len(node.args) != 3 or not isinstance(node.args[0], ast.Lambda):
            fail(node, 'functools.reduce outside grammar')
        lam = node.args[0]
        a = lam.args
        if a.posonlyargs or a.vararg or a.kwarg or a.kwonlyargs or a.defaults or len(a.args) != 2:
            fail(lam, 'lambda outside grammar')
        acc, x = a.args[0].arg, a.args[1].arg
        if acc == x or acc in env or x in env:
            fail(lam, 'lambda parameters shadow a name')
        it, tit = self.expr(node.args[1], env, pre)
        it = self.coerce(it, tit, TRS, pre, node)
        init, tinit = self.expr(node.args[2], env, pre)
        env_in = dict(env)
        env_in[acc] = Var('v_' + acc, tinit)
        env_in[x] = Var('v_' + x, TR)
        sub = []
        body, tb = self.expr(lam.body, env_in, sub, tail=True)
        if tb == ('res', tinit):
            inner = '\n'.join(self.emit_pre(sub) + [body])
        elif tb == tinit:
            inner = '\n'.join(self.emit_pre(sub) + [f'Ok {atom(body)}'])
        else:
            fail(lam, f'the lambda returns {tb}, the accumulator is {tinit}')
        saved, self.ret = self.ret, self.ret
        code = f'foldM (fun v_{acc} v_{x} =>\n{indent(inner, 4)})\n  {atom(it)} {atom(init)}'
        return self.monadic_result(code, tinit, pre, tail)


def k_strip(env_branch, env, k):
    """continuation of a non-terminating branch of an `if` whose other branch returns: the rest of the block sees the
    environment of the branch (narrowing included: the other branch has left the function)"""
    return lambda e: k(e)


def tuple_of(codes):
    return codes[0] if len(codes) == 1 else '(' + ', '.join(codes) + ')'


# -------------------------------------------------------------------------------------------------- emission
class Gen:
    def __init__(self):
        self.u = TrUnit()
        self.passes = t15.PassUnit()      # the signatures of the regenerated `_transform`s

    def binder_list(self, name):
        return ' '.join(f'(v_{p} : {COQ_TY[ty]})' for p, ty, _d, _k in self.u.signature(name))

    def ret_ty(self, name):
        rty, mon, _g = METHODS[name]
        return f'res ({COQ_TY[rty]})' if mon else COQ_TY[rty]

    def static_body(self, name, group):
        src = self.u.method(self.u.base, name)
        return MethTr(self.u, None, src, name, group).body({})

    def leaf_transform_arm(self, cname):
        """the `_transform` of a pass class is the function T15 regenerates (Generated/PassesGen.v)"""
        dotted = WORLD[cname][0]
        fn = self.passes.get(dotted, f'{cname}._transform')
        _pat, fields = self.u.pattern(cname, 'f_')
        args = []
        for attr, _ty in fn.attr_params:
            if attr not in fields:
                raise TranslatorError(f'{cname}._transform reads self.{attr}, which __init__ does not store')
            args.append(fields[attr][0])
        params = [p for p, _t in fn.params]
        if params != ['circuit']:
            raise TranslatorError(f'{cname}._transform: parameters {params}')
        return ' '.join([fn.coqname] + args + ['v_circuit'])

    def dispatch_arms(self, name, group):
        """[(pattern, comment, body)] of the virtual method `name`, classes in the order of WORLD"""
        base, over = self.u.defs_of(name)
        abstract = base is not None and [ast.unparse(d) for d in base.decorator_list] == ['abc.abstractmethod']
        if abstract:
            body = strip_docstring(base.body)
            if len(body) != 1 or ast.unparse(body[0]) != 'raise NotImplementedError()':
                fail(base, 'abstract method with a body')
        arms, base_pats = [], []
        for cname in WORLD:
            if cname in over:
                if name == '_transform' and cname != 'TransformerComposition':
                    pat, _f = self.u.pattern(cname, 'f_')
                    arms.append((pat, f'{cname}._transform: Generated/PassesGen.v (T15)', self.leaf_transform_arm(cname)))
                else:
                    pat, fields = self.u.pattern(cname, 'f_')
                    arms.append((pat, f'{cname}.{name}', MethTr(self.u, cname, over[cname], name, group).body(fields)))
            else:
                if base is None or abstract:
                    raise TranslatorError(f'{cname} does not define {name}')
                base_pats.append(self.u.wild(cname))
        if base_pats:
            arms.append((' | '.join(base_pats), f'Transformer.{name}',
                         MethTr(self.u, None, base, name, group).body({})))
        return arms

    def match_self(self, arms):
        out = ['match self with']
        for pat, comment, body in arms:
            out.append(f'| {pat} =>   (* {comment} *)')
            out.append(indent(body, 4))
        out.append('end')
        return '\n'.join(out)

    def fuelled(self, name, binders, body):
        return (f'gen_{name}_fuel (fuel : nat) {binders} {{struct fuel}} : {self.ret_ty(name)} :=\n'
                f'  match fuel with\n  | O => Err OutOfFuel\n  | S fuel =>\n{indent(body, 4)}\n  end')

    def group(self, static, virtual, group):
        a = self.fuelled(static, self.binder_list(static), self.static_body(static, group))
        vb = ' '.join(['(self : transformer)', self.binder_list(virtual)]).strip()
        b = self.fuelled(virtual, vb, self.match_self(self.dispatch_arms(virtual, group)))
        return f'Fixpoint {a}\nwith {b}.\n\n'

    def wrapper(self, name, virtual):
        sig = self.u.signature(name)
        names = (['self'] if virtual else []) + ['v_' + p for p, _t, _d, _k in sig]
        binders = ' '.join((['(self : transformer)'] if virtual else []) + [self.binder_list(name)]).strip()
        fuel = WRAPPER_FUEL[name](names)
        return (f'Definition gen_{name} {binders} : {self.ret_ty(name)} :=\n'
                f'  gen_{name}_fuel {fuel} {" ".join(names)}.\n')

    def plain_virtual(self, name):
        """a virtual method outside the recursion groups: one Definition per defining class + the dispatcher"""
        base, over = self.u.defs_of(name)
        out = []
        bl = self.binder_list(name)
        args = ' '.join('v_' + p for p, _t, _d, _k in self.u.signature(name))
        if base is None:
            raise TranslatorError(f'Transformer.{name} not found')
        out.append(f'Definition gen_Transformer_{name} (self : transformer) {bl} : {self.ret_ty(name)} :=\n'
                   + indent(MethTr(self.u, None, base, name, None).body({}), 2) + '.\n')
        arms = []
        for cname in WORLD:
            if cname in over:
                pat, fields = self.u.pattern(cname, 'f_')
                fb = ' '.join(f'({c} : {COQ_TY[ty]})' for c, ty in
                              [(f'f_{p}', TRS if ty == t15.TRANSFORMERS else ty) for p, ty in WORLD[cname][2]])
                fa = ' '.join(f'f_{p}' for p, _ty in WORLD[cname][2])
                out.append(f'Definition gen_{cname}_{name} (self : transformer) {fb} {bl} : {self.ret_ty(name)} :=\n'
                           + indent(MethTr(self.u, cname, over[cname], name, None).body(fields), 2) + '.\n')
                arms.append(f'  | {pat} => gen_{cname}_{name} self {fa} {args}')
            else:
                arms.append(f'  | {self.u.wild(cname)} => gen_Transformer_{name} self {args}')
        out.append(f'(* x.{name}(..): dispatch on the class of x *)\n'
                   f'Definition gen_{name} (self : transformer) {bl} : {self.ret_ty(name)} :=\n  match self with\n'
                   + '\n'.join(arms) + '\n  end.\n')
        return '\n'.join(out) + '\n'

    def same_class(self):
        rows = [f'  | {self.u.wild(c)}, {self.u.wild(c)} => true' for c in WORLD]
        return ('(* type(a) == type(b) *)\nDefinition gen_same_class (a b : transformer) : bool :=\n  match a, b with\n'
                + '\n'.join(rows) + '\n  | _, _ => false\n  end.\n\n')

    def generate(self):
        u = self.u
        parts = [HEADER3]
        parts.append(f'(* fuel that covers every chain of dynamic calls starting at t: 2 per level of the term, 2 per leaf class *)\n'
                     f'Definition gen_dispatch_fuel (t : transformer) : nat := 2 * py_transformer_depth t + {LEAF_FUEL}.\n'
                     '(* apply_transformers -> _transform -> apply_transformers ... : a linearised list holds no composition *)\n'
                     'Definition gen_apply_fuel : nat := 4.\n\n')
        parts.append(self.same_class())
        parts.append('(* ---- Transformer.linearize_transformers / as_distinct ---- *)\n')
        parts.append(self.group('linearize_transformers', 'as_distinct', 'A'))
        parts.append(self.wrapper('linearize_transformers', False))
        parts.append(self.wrapper('as_distinct', True) + '\n')
        parts.append('(* ---- Transformer.apply_transformers / _transform ---- *)\n')
        parts.append(self.group('apply_transformers', '_transform', 'B'))
        parts.append(self.wrapper('apply_transformers', False))
        parts.append(self.wrapper('_transform', True) + '\n')
        parts.append('(* ---- Transformer.transform ---- *)\n')
        for name in ('transform',):
            base, over = u.defs_of(name)
            if over or base is None:
                raise TranslatorError(f'{name} is overridden / missing')
            parts.append(f'Definition gen_{name} (self : transformer) {self.binder_list(name)} : {self.ret_ty(name)} :=\n'
                         + indent(MethTr(u, None, base, name, None).body({}), 2) + '.\n\n')
        parts.append('(* ---- __eq__ ---- *)\n')
        parts.append(self.plain_virtual('__eq__'))
        parts.append('(* `a == b` between transformer objects: a.__eq__(b); if NotImplemented, b.__eq__(a); if NotImplemented,\n'
                     '   identity (not expressible on terms; proved unreachable in Proofs/TransformerGen.v) *)\n'
                     'Definition gen_py_eq (a b : transformer) : bool :=\n'
                     '  match gen___eq__ a b with\n  | Some r => r\n'
                     '  | None => match gen___eq__ b a with Some r => r | None => false end\n  end.\n\n')
        parts.append('(* ---- __or__ / __ror__ ---- *)\n')
        for name in ('__or__', '__ror__'):
            base, over = u.defs_of(name)
            if over or base is None:
                raise TranslatorError(f'{name} is overridden / missing')
            parts.append(f'Definition gen_{name} (self : transformer) {self.binder_list(name)} : {self.ret_ty(name)} :=\n'
                         + indent(MethTr(u, None, base, name, None).body({}), 2) + '.\n\n')
        parts.append('(* `a | b` between transformer objects: a.__or__(b); if NotImplemented, b.__ror__(a) *)\n'
                     'Definition gen_py_or (a b : transformer) : res (option transformer) :=\n'
                     '  do r <- gen___or__ a b;\n'
                     '  match r with Some t => Ok (Some t) | None => gen___ror__ b a end.\n')
        return ''.join(parts)


def generate():
    return Gen().generate()


def translate():
    return {OUT3: write_if_changed(OUT3, generate())}


if __name__ == '__main__':
    print(translate())
