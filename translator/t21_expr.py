"""T21 (part 2 of 4): expressions.  See translator/t21_subcircuit_alg.py for the grammar and the conventions."""
import ast

from .common import TranslatorError, fail
from .t21_types import (BOOL, CIRCUIT, FUEL, GATE, GLABEL, INT, LABEL, LABELS, NAT, PATOPS, ST, TRI, UNIT, TL, Val, Var,
                        atom, base_name, coq_string, coq_ty, ind, key_eqb, pty, tuple_pat)


def unify(a, b, node=None):
    """the common refinement of two types in which None stands for `not yet known`"""
    if a is None:
        return b
    if b is None:
        return a
    if a == b:
        return a
    if {a, b} == {LABEL, GLABEL}:
        return LABEL
    if isinstance(a, tuple) and isinstance(b, tuple) and a[0] == b[0]:
        if a[0] == 'dict':
            dflt = a[3] if a[3] is not None else b[3]
            if a[3] is not None and b[3] is not None and a[3] != b[3]:
                fail(node, f'defaultdict defaults differ: {a} / {b}')
            return ('dict', unify(a[1], b[1], node), unify(a[2], b[2], node), dflt)
        if len(a) == len(b):
            return (a[0],) + tuple(unify(x, y, node) for x, y in zip(a[1:], b[1:]))
    fail(node, f'types do not agree: {a} / {b}')


def known(t):
    if t is None:
        return False
    if isinstance(t, tuple):
        return all(known(x) for x in (t[1:3] if t[0] == 'dict' else t[1:]))
    return True


class ExprMixin:
    # ------------------------------------------------------------ helpers
    def fresh(self):
        self.root.tmp += 1
        return f't{self.root.tmp}'

    def hoist(self, pre, code, raises=True):
        t = self.fresh()
        pre.append(f'do {t} <- {code};' if raises else f'let {t} := {code} in')
        return t

    @staticmethod
    def vname(node, name):
        if not (name.isidentifier() and name.isascii()):
            fail(node, f'name {name!r} not usable')
        return 'v_' + name

    def pure(self, node, env, what):
        pre = []
        v = self.expr(node, env, pre)
        if pre:
            fail(node, f'{what} must not raise or change a variable')
        return v

    # ------------------------------------------------------------ annotations
    def ann_type(self, ann, node=None):
        m = self.m
        if isinstance(ann, ast.Constant) and isinstance(ann.value, str):
            try:
                ann = ast.parse(ann.value, mode='eval').body
            except SyntaxError:
                fail(ann, 'string annotation does not parse')
        s = ast.unparse(ann).replace(' ', '')
        if s in ('str',) or (s == 'Label' and m.is_label('Label')):
            return LABEL
        if s == 'int':
            return NAT
        if s == 'bool':
            return BOOL
        if s == 'Cut' and m.is_cut_alias('Cut'):
            return LABELS
        if s == 'Circuit' and m.is_circuit_class('Circuit'):
            return CIRCUIT
        if s == 'GateState' and m.is_imported('GateState', 'cirbo.core.circuit.operators', 'GateState'):
            return ST
        if s == 'RawTruthTableModel' and m.is_imported('RawTruthTableModel', 'cirbo.core.boolean_function',
                                                        'RawTruthTableModel'):
            return TL(TL(TRI))
        if s in m.classes and s in self.u.records:
            return ('obj', s)
        if s in m.classes and s == self.u.patops_class:
            return PATOPS
        if isinstance(ann, ast.Subscript):
            head = ast.unparse(ann.value)
            args = ann.slice.elts if isinstance(ann.slice, ast.Tuple) else [ann.slice]
            if head in ('list', 'tp.Deque') and len(args) == 1 and (head == 'list' or m.is_module('tp', 'typing')):
                return TL(self.ann_type(args[0], node))
            if head == 'tuple' and len(args) == 2 and isinstance(args[1], ast.Constant) and args[1].value is Ellipsis:
                return TL(self.ann_type(args[0], node))
            if head == 'set' and len(args) == 1:
                t = self.ann_type(args[0], node)
                if t != LABEL:
                    fail(ann, 'only sets of strings are modelled')
                return ('set', LABEL)
            if head == 'dict' and len(args) == 2:
                return ('dict', self.ann_type(args[0], node), self.ann_type(args[1], node), None)
            if head == 'tp.DefaultDict' and len(args) == 2 and m.is_module('tp', 'typing'):
                k, v = self.ann_type(args[0], node), self.ann_type(args[1], node)
                return ('dict', k, v, self.default_of(v, ann))
        fail(node if node is not None else ann, f'annotation outside grammar: {s}')

    @staticmethod
    def default_of(v, node):
        """the value a collections.defaultdict with values of type v supplies (factory = the type itself)"""
        if v == NAT:
            return '0%N'
        if v == BOOL:
            return 'false'
        if v == LABEL:
            return '""'
        if isinstance(v, tuple) and v[0] in ('list', 'set'):
            return '[]'
        fail(node, f'defaultdict value type outside grammar: {v}')

    # ------------------------------------------------------------ small conversions
    def truthy(self, v, pre, node):
        if v.ty == BOOL:
            return v.code
        if v.ty == NAT:
            return f'(py_bool_of_N {atom(v.code)})'
        if isinstance(v.ty, tuple) and v.ty[0] in ('list', 'set'):
            return f'(py_list_nonempty {atom(v.code)})'
        if v.ty == ST:
            return self.hoist(pre, f'py_state_truthy {atom(v.code)}')
        fail(node, f'truth value of type {v.ty} outside grammar')

    @staticmethod
    def as_Z(v):
        if v.ty == INT:
            return v.code
        lit = getattr(v, 'lit', None)
        if lit is not None:
            return f'{lit}%Z'
        return f'(Z.of_N {atom(v.code)})'

    def as_list(self, v, node):
        """the elements of an iterable value, in iteration order"""
        if isinstance(v.ty, tuple) and v.ty[0] == 'list':
            return v
        if isinstance(v.ty, tuple) and v.ty[0] == 'set':
            self.root.uses_set_iter = True
            return Val(f'(set_iter {atom(v.code)})', TL(v.ty[1]))
        fail(node, f'not iterable here: {v.ty}')

    def int_lit(self, k):
        v = Val(f'{k}%N', NAT)
        v.lit = k
        return v

    # ------------------------------------------------------------ expressions
    def expr(self, node, env, pre):
        if isinstance(node, ast.Name):
            return self.name(node, env)
        if isinstance(node, ast.Constant):
            c = node.value
            if c is True or c is False:
                if self.root.bools_are_states:
                    return Val('T' if c else 'F', ST)
                return Val('true' if c else 'false', BOOL)
            if type(c) is int and c >= 0:
                return self.int_lit(c)
            if isinstance(c, str):
                return Val(coq_string(c, node), LABEL)
            fail(node, 'constant outside grammar')
        if isinstance(node, ast.Attribute):
            return self.attribute(node, env, pre)
        if isinstance(node, ast.Subscript):
            return self.subscript(node, env, pre)
        if isinstance(node, ast.BinOp):
            return self.binop(node, env, pre)
        if isinstance(node, ast.Compare):
            return self.compare(node, env, pre)
        if isinstance(node, ast.BoolOp):
            first = self.expr(node.values[0], env, pre)
            codes = [self.truthy(first, pre, node)]
            for x in node.values[1:]:
                p2 = []
                v = self.expr(x, env, p2)
                c = self.truthy(v, p2, x)
                if p2:
                    fail(x, 'a later operand of and / or must not raise (short circuit)')
                codes.append(c)
            op = ' && ' if isinstance(node.op, ast.And) else ' || '
            return Val('(' + op.join(atom(c) for c in codes) + ')', BOOL)
        if isinstance(node, ast.UnaryOp) and isinstance(node.op, ast.Not):
            v = self.expr(node.operand, env, pre)
            return Val(f'(negb {atom(self.truthy(v, pre, node))})', BOOL)
        if isinstance(node, ast.IfExp):
            return self.ifexp(node, env, pre)
        if isinstance(node, ast.Call):
            return self.call(node, env, pre)
        if isinstance(node, ast.ListComp):
            return self.listcomp(node, env, pre)
        if isinstance(node, ast.DictComp):
            return self.dictcomp(node, env, pre)
        if isinstance(node, (ast.Tuple, ast.List)):
            vs = [self.expr(e, env, pre) for e in node.elts]
            if not vs:
                return Val('[]', TL(None))
            t = None
            for v in vs:
                t = unify(t, v.ty, node)
            return Val('[' + '; '.join(v.code for v in vs) + ']', TL(t))
        fail(node, 'expression outside grammar')

    def name(self, node, env):
        if node.id in env:
            v = env[node.id]
            if v.fn is not None:
                fail(node, 'a function used as a value')
            if v.ty == FUEL:
                fail(node, 'reserved name')
            return Val(v.code, v.ty, v.maxpat)
        if node.id in self.local_names:
            fail(node, f'{node.id!r} may be unbound here')
        if node.id == 'DontCare' and self.m.is_imported('DontCare', 'cirbo.core.logic', 'DontCare'):
            return Val('None', TRI)
        if node.id == 'Undefined' and self.m.is_imported('Undefined', 'cirbo.core.circuit.operators', 'Undefined'):
            return Val('U', ST)
        fail(node, f'unknown name {node.id!r}')

    def attribute(self, node, env, pre):
        # <gate>.gate_type.name
        if node.attr == 'name' and isinstance(node.value, ast.Attribute) and node.value.attr == 'gate_type':
            g = self.expr(node.value.value, env, pre)
            if g.ty == GATE:
                return Val(f'(gname (gtyp {atom(g.code)}))', LABEL)
            fail(node, '.gate_type.name of something that is not a gate')
        v = self.expr(node.value, env, pre)
        if v.ty == CIRCUIT and node.attr in ('inputs', 'outputs'):
            return Val(f'({node.attr} {atom(v.code)})', LABELS)
        if v.ty == GATE and node.attr == 'operands':
            return Val(f'(gops {atom(v.code)})', LABELS)
        if v.ty == GLABEL and node.attr == 'label':
            return Val(v.code, LABEL)
        if isinstance(v.ty, tuple) and v.ty[0] == 'obj':
            rec = self.u.records[v.ty[1]]
            if node.attr in rec.fields:
                return Val(f'({rec.proj(node.attr)} {atom(v.code)})', rec.fields[node.attr])
        fail(node, f'attribute .{node.attr} of type {v.ty} outside grammar')

    def subscript(self, node, env, pre):
        if isinstance(node.slice, ast.Slice):
            s = node.slice
            ok = (s.lower is None and s.upper is None and isinstance(s.step, ast.UnaryOp)
                  and isinstance(s.step.op, ast.USub) and isinstance(s.step.operand, ast.Constant)
                  and s.step.operand.value == 1)
            v = self.expr(node.value, env, pre)
            if not ok or not (isinstance(v.ty, tuple) and v.ty[0] == 'list'):
                fail(node, 'the only slice accepted is <list>[::-1]')
            return Val(f'(rev {atom(v.code)})', v.ty)
        v = self.expr(node.value, env, pre)
        k = self.expr(node.slice, env, pre)
        if isinstance(v.ty, tuple) and v.ty[0] == 'list':
            if k.ty == NAT:
                return Val(self.hoist(pre, f'py_index {atom(v.code)} {atom(k.code)}'), v.ty[1])
            if k.ty == INT:
                return Val(self.hoist(pre, f'py_zindex {atom(v.code)} {atom(k.code)}'), v.ty[1])
            fail(node, 'list index must be an int')
        if isinstance(v.ty, tuple) and v.ty[0] == 'dict':
            return self.dict_read(node, v, k, env, pre)
        fail(node, f'subscript of type {v.ty} outside grammar')

    def dict_read(self, node, d, k, env, pre):
        _, kty, vty, dflt = d.ty
        if not (kty == k.ty or {kty, k.ty} == {LABEL, GLABEL}):
            fail(node, f'dict key of type {k.ty}, expected {kty}')
        if dflt is None:
            if kty == LABEL:
                return Val(self.hoist(pre, f'py_dict_getitem {atom(d.code)} {atom(k.code)}'), vty)
            return Val(self.hoist(pre, f'py_adict_getitem {key_eqb(kty, node)} {atom(d.code)} {atom(k.code)}'), vty)
        # collections.defaultdict: the key insertion of a read is not modelled
        b = node.value
        if isinstance(b, ast.Name) and b.id in env and env[b.id].observed:
            if (b.id, ast.unparse(node.slice)) not in env.get('<guards>', Var(set(), None)).code:
                fail(node, f'read of the defaultdict {b.id!r}, whose key set is observed, without a `k in d` guard')
        if kty == LABEL:
            return Val(f'(py_ddict_get {atom(d.code)} {atom(k.code)} {dflt})', vty)
        return Val(f'(py_adict_get {key_eqb(kty, node)} {atom(d.code)} {atom(k.code)} {dflt})', vty)

    def binop(self, node, env, pre):
        a = self.expr(node.left, env, pre)
        b = self.expr(node.right, env, pre)
        op = type(node.op)
        if op is ast.Add and isinstance(a.ty, tuple) and a.ty[0] == 'list':
            t = unify(a.ty, b.ty, node)
            return Val(f'({a.code} ++ {b.code})', t)
        if op is ast.Sub:
            if a.ty == NAT and b.ty == NAT:
                shl = isinstance(node.left, ast.BinOp) and isinstance(node.left.op, ast.LShift) \
                    and isinstance(node.left.left, ast.Constant) and node.left.left.value == 1
                if shl and getattr(b, 'lit', None) == 1:
                    return Val(f'({a.code} - 1)%N', NAT, maxpat=True)      # (1 << e) - 1 : exact in N
                if a.maxpat:
                    return Val(f'({a.code} - {b.code})%N', NAT)            # P - e : exact for e <= P (T5)
            if a.ty in (NAT, INT) and b.ty in (NAT, INT):
                return Val(f'({self.as_Z(a)} - {self.as_Z(b)})%Z', INT)
            fail(node, 'subtraction outside grammar')
        table = {ast.LShift: 'N.shiftl', ast.RShift: 'N.shiftr', ast.BitAnd: 'N.land', ast.BitOr: 'N.lor',
                 ast.BitXor: 'N.lxor', ast.Add: 'N.add'}
        if op in table and a.ty == NAT and b.ty == NAT:
            return Val(f'({table[op]} {atom(a.code)} {atom(b.code)})', NAT)
        if op is ast.Add and INT in (a.ty, b.ty) and a.ty in (NAT, INT) and b.ty in (NAT, INT):
            return Val(f'({self.as_Z(a)} + {self.as_Z(b)})%Z', INT)
        fail(node, f'operator outside grammar on {a.ty} / {b.ty}')

    def compare(self, node, env, pre):
        vals = [self.expr(node.left, env, pre)] + [self.expr(c, env, pre) for c in node.comparators]
        parts = []
        for op, a, b, bn in zip(node.ops, vals, vals[1:], node.comparators):
            parts.append(self.compare1(node, op, a, b, bn, env))
        return Val(parts[0] if len(parts) == 1 else '(' + ' && '.join(atom(p) for p in parts) + ')', BOOL)

    def compare1(self, node, op, a, b, bnode, env):
        neg = isinstance(op, (ast.NotIn, ast.NotEq, ast.IsNot))
        wrap = (lambda c: f'(negb {atom(c)})') if neg else (lambda c: c)
        if isinstance(op, (ast.In, ast.NotIn)):
            if isinstance(b.ty, tuple) and b.ty[0] in ('list', 'set') and b.ty[1] in (LABEL, GLABEL) \
                    and a.ty in (LABEL, GLABEL):
                return wrap(f'(memb {atom(a.code)} {atom(b.code)})')
            if isinstance(b.ty, tuple) and b.ty[0] == 'dict':
                if b.ty[1] == LABEL and a.ty in (LABEL, GLABEL):
                    return wrap(f'(dmem {atom(b.code)} {atom(a.code)})')
                if b.ty[1] == a.ty:
                    return wrap(f'(py_adict_mem {key_eqb(a.ty, node)} {atom(b.code)} {atom(a.code)})')
            fail(node, f'membership test {a.ty} in {b.ty} outside grammar')
        if isinstance(op, (ast.Eq, ast.NotEq)):
            if a.ty in (LABEL, GLABEL) and b.ty in (LABEL, GLABEL):
                return wrap(f'(String.eqb {atom(a.code)} {atom(b.code)})')
            if a.ty == NAT and b.ty == NAT:
                return wrap(f'(N.eqb {atom(a.code)} {atom(b.code)})')
            if a.ty == ST and b.ty == ST:
                return wrap(f'(st_beq {atom(a.code)} {atom(b.code)})')
            if a.ty == BOOL and b.ty == BOOL:
                return wrap(f'(Bool.eqb {atom(a.code)} {atom(b.code)})')
            fail(node, f'== on {a.ty} / {b.ty} outside grammar')
        order = {ast.Lt: '<?', ast.LtE: '<=?', ast.Gt: '>?', ast.GtE: '>=?'}
        if type(op) in order and a.ty in (NAT, INT) and b.ty in (NAT, INT):
            sym = order[type(op)]
            x, y = (a, b)
            if sym in ('>?', '>=?'):
                x, y, sym = b, a, {'>?': '<?', '>=?': '<=?'}[sym]
            if a.ty == NAT and b.ty == NAT:
                return f'({x.code} {sym} {y.code})%N'
            return f'({self.as_Z(x)} {sym} {self.as_Z(y)})%Z'
        fail(node, 'comparison outside grammar')

    def ifexp(self, node, env, pre):
        t = node.test
        # `a if p is None else b` on an Optional parameter p
        if isinstance(t, ast.Compare) and len(t.ops) == 1 and isinstance(t.ops[0], (ast.Is, ast.IsNot)) \
                and isinstance(t.left, ast.Name) and isinstance(t.comparators[0], ast.Constant) \
                and t.comparators[0].value is None and t.left.id in env and isinstance(env[t.left.id].ty, tuple) \
                and env[t.left.id].ty[0] == 'opt':
            var = env[t.left.id]
            none_br, some_br = (node.body, node.orelse) if isinstance(t.ops[0], ast.Is) else (node.orelse, node.body)
            env2 = dict(env)
            env2[t.left.id] = Var(var.code, var.ty[1])
            a = self.pure(none_br, env, 'a branch of a conditional expression')
            b = self.pure(some_br, env2, 'a branch of a conditional expression')
            ty = unify(a.ty, b.ty, node)
            return Val(f'(match {var.code} with None => {a.code} | Some {var.code} => {b.code} end)', ty)
        c = self.expr(t, env, pre)
        cc = self.truthy(c, pre, t)
        a = self.pure(node.body, env, 'a branch of a conditional expression')
        b = self.pure(node.orelse, env, 'a branch of a conditional expression')
        if {a.ty, b.ty} == {BOOL, TRI}:
            a = a if a.ty == TRI else Val(f'(Some {atom(a.code)})', TRI)
            b = b if b.ty == TRI else Val(f'(Some {atom(b.code)})', TRI)
        ty = unify(a.ty, b.ty, node)
        return Val(f'(if {cc} then {a.code} else {b.code})', ty)

    # ------------------------------------------------------------ comprehensions
    def target_pat(self, tgt, ety, env, node):
        """bind a loop / comprehension target of element type ety in env; returns the Coq pattern"""
        if isinstance(tgt, ast.Name):
            code = self.vname(tgt, tgt.id) if tgt.id != '_' else '_'
            if tgt.id != '_':
                env[tgt.id] = Var(code, ety)
                self.drop_guards(env, tgt.id)
            return code
        if isinstance(tgt, ast.Tuple) and len(tgt.elts) == 2 and isinstance(ety, tuple) and ety[0] == 'pair' \
                and all(isinstance(e, ast.Name) for e in tgt.elts):
            a = self.target_pat(tgt.elts[0], ety[1], env, node)
            b = self.target_pat(tgt.elts[1], ety[2], env, node)
            return f"'({a}, {b})"
        fail(node, f'loop target outside grammar for elements of type {ety}')

    def comp_source(self, node, env, pre):
        if len(node.generators) != 1 or node.generators[0].is_async:
            fail(node, 'comprehension with several generators')
        g = node.generators[0]
        it = self.iterable(g.iter, env, pre)
        env2 = dict(env)
        pat = self.target_pat(g.target, it.ty[1], env2, node)
        src = it.code
        self.root.nostate += 1
        try:
            for c in g.ifs:
                cv = self.pure(c, env2, 'the condition of a comprehension')
                p0 = []
                cc = self.truthy(cv, p0, c)
                if p0:
                    fail(c, 'the condition of a comprehension must not raise')
                src = f'(filter (fun {pat} => {cc}) {atom(src)})'
        finally:
            self.root.nostate -= 1
        return src, pat, env2

    def mapped(self, src, pat, body_pre, body_code, pre):
        if body_pre:
            body = '\n'.join(body_pre + [f'Ok {atom(body_code)}'])
            return self.hoist(pre, f'mapM (fun {pat} =>\n{ind(body, 4)}) {atom(src)}')
        return f'(map (fun {pat} => {body_code}) {atom(src)})'

    def listcomp(self, node, env, pre):
        src, pat, env2 = self.comp_source(node, env, pre)
        p2 = []
        self.root.nostate += 1
        try:
            e = self.expr(node.elt, env2, p2)
        finally:
            self.root.nostate -= 1
        return Val(self.mapped(src, pat, p2, e.code, pre), TL(e.ty))

    def dictcomp(self, node, env, pre):
        src, pat, env2 = self.comp_source(node, env, pre)
        p2 = []
        self.root.nostate += 1
        try:
            k = self.expr(node.key, env2, p2)
            v = self.expr(node.value, env2, p2)
        finally:
            self.root.nostate -= 1
        kty = LABEL if k.ty == GLABEL else k.ty
        pairs = self.mapped(src, pat, p2, f'({k.code}, {v.code})', pre)
        if kty == LABEL:
            return Val(f'(py_dict_of_pairs {atom(pairs)})', ('dict', LABEL, v.ty, None))
        return Val(f'(py_adict_of_pairs {key_eqb(kty, node)} {atom(pairs)})', ('dict', kty, v.ty, None))

    def iterable(self, node, env, pre):
        """-> Val of a list type: the elements in iteration order"""
        if isinstance(node, ast.Call) and isinstance(node.func, ast.Attribute) and node.func.attr == 'items' \
                and not node.args and not node.keywords:
            d = self.expr(node.func.value, env, pre)
            if isinstance(d.ty, tuple) and d.ty[0] == 'dict':
                return Val(d.code, TL(('pair', d.ty[1], d.ty[2])))
            fail(node, '.items() of something that is not a dict')
        v = self.expr(node, env, pre)
        return self.as_list(v, node)

    def lambda_keys(self, lam, xs, env, pre):
        """the list of keys  [lam(x) for x in xs]  of sorted / sort"""
        if not (isinstance(lam, ast.Lambda) and len(lam.args.args) == 1 and not lam.args.defaults
                and not lam.args.kwonlyargs and not lam.args.vararg and not lam.args.kwarg):
            fail(lam, 'key= must be a one-parameter lambda')
        p = lam.args.args[0].arg
        env2 = dict(env)
        env2[p] = Var(self.vname(lam, p), xs.ty[1])
        p2 = []
        self.root.nostate += 1
        try:
            k = self.expr(lam.body, env2, p2)
        finally:
            self.root.nostate -= 1
        if k.ty != NAT:
            fail(lam, 'sort keys must be ints')
        return self.mapped(xs.code, self.vname(lam, p), p2, k.code, pre)
