"""T3: cirbo/synthesis/circuit_search.py (+ the GateType registry of gate.py)
       -> Generated/SearchTables.v

Grammar accepted (anything else raises TranslatorError):
  class Operation(enum.Enum):  [docstring]  name_ = "dddd"  (d in 0/1, exactly four)
  class Basis(enum.Enum):      [docstring]  NAME = [Operation.x_, ...]
  _str_to_basis = {'NAME': Basis.NAME, ...}
  def resolve_basis(basis): if isinstance(basis, str): return _str_to_basis[basis.upper()] ; return basis
  _tt_to_gate_type[: ann] = {(d, d, d, d): GATETYPE, ...}   all 16 keys, GATETYPE imported
                                                            (without renaming) from cirbo.core.circuit
  def _get_GateType_by_tt(gate_tt): return _tt_to_gate_type[tuple(gate_tt)]
  gate.py:  NAME = GateType("NAME", op_ | None, bool)    (only to resolve "the operator an
            Operation is named after" to the gate type that carries that operator)
"""
import ast

from .common import TranslatorError, fail, parse, strip_docstring, top_level_assigns, top_level_functions, write_if_changed
from .t1_operators import GTYPES

SRC = 'cirbo/synthesis/circuit_search.py'


def _classes(mod):
    return {n.name: n for n in mod.body if isinstance(n, ast.ClassDef)}


def _enum_body(cls):
    if not (len(cls.bases) == 1 and isinstance(cls.bases[0], ast.Attribute) and cls.bases[0].attr == 'Enum'
            and isinstance(cls.bases[0].value, ast.Name) and cls.bases[0].value.id == 'enum') \
            or cls.keywords or cls.decorator_list:
        fail(cls, 'class must be a plain enum.Enum')
    out = []
    for st in strip_docstring(cls.body):
        if not (isinstance(st, ast.Assign) and len(st.targets) == 1 and isinstance(st.targets[0], ast.Name)):
            fail(st, 'enum body must consist of NAME = value')
        out.append((st.targets[0].id, st.value))
    return out


def _bits(s, node):
    if not (isinstance(s, str) and len(s) == 4 and set(s) <= {'0', '1'}):
        fail(node, 'operation value must be a string of four 0/1 characters')
    return tuple(c == '1' for c in s)


def coq_tt(bits):
    return '(' + ', '.join('true' if b else 'false' for b in bits) + ')'


def extract():
    mod = parse(SRC)
    classes = _classes(mod)
    assigns = top_level_assigns(mod)
    funcs = top_level_functions(mod)

    # ---- Operation
    if 'Operation' not in classes or 'Basis' not in classes:
        raise TranslatorError('Operation / Basis enum missing')
    ops = []
    for name, val in _enum_body(classes['Operation']):
        if not isinstance(val, ast.Constant):
            fail(val, 'Operation value')
        if not name.endswith('_'):
            fail(val, 'Operation member names must end in _')
        ops.append((name, _bits(val.value, val)))
    names = [n for n, _ in ops]
    if len(set(names)) != len(names):
        raise TranslatorError('duplicate Operation member')
    # enum aliasing: two members with one value would make the second an alias of the first
    if len({b for _, b in ops}) != len(ops):
        raise TranslatorError('two Operation members share a value (enum alias)')

    # ---- Basis
    bases = []
    for name, val in _enum_body(classes['Basis']):
        if not isinstance(val, ast.List):
            fail(val, 'Basis value must be a list literal')
        members = []
        for e in val.elts:
            if not (isinstance(e, ast.Attribute) and isinstance(e.value, ast.Name) and e.value.id == 'Operation'
                    and e.attr in names):
                fail(e, 'Basis element must be Operation.<member>')
            members.append(e.attr)
        bases.append((name, members))
    if len({tuple(m) for _, m in bases}) != len(bases):
        raise TranslatorError('two Basis members share a value (enum alias)')

    # ---- _str_to_basis / resolve_basis
    d = assigns.get('_str_to_basis')
    if not isinstance(d, ast.Dict):
        fail(d, '_str_to_basis must be a dict literal')
    str2basis = []
    for k, v in zip(d.keys, d.values):
        if not (isinstance(k, ast.Constant) and isinstance(k.value, str) and isinstance(v, ast.Attribute)
                and isinstance(v.value, ast.Name) and v.value.id == 'Basis' and v.attr in [b for b, _ in bases]):
            fail(d, '_str_to_basis entry')
        if k.value != k.value.upper():
            fail(k, '_str_to_basis keys must be upper case (resolve_basis upper-cases its argument)')
        str2basis.append((k.value, v.attr))
    if len({k for k, _ in str2basis}) != len(str2basis):
        raise TranslatorError('duplicate _str_to_basis key')
    rb = funcs.get('resolve_basis')
    want = ['if isinstance(basis, str):\n    return _str_to_basis[basis.upper()]', 'return basis']
    if rb is None or [a.arg for a in rb.args.args] != ['basis'] or \
            _dump(strip_docstring(rb.body)) != want:
        fail(rb, 'resolve_basis outside grammar')

    # ---- _tt_to_gate_type / _get_GateType_by_tt
    imported = set()
    for n in mod.body:
        if isinstance(n, ast.ImportFrom) and n.module == 'cirbo.core.circuit':
            for a in n.names:
                if a.asname is not None:
                    fail(n, 'renaming import from cirbo.core.circuit')
                imported.add(a.name)
    t = assigns.get('_tt_to_gate_type')
    if not isinstance(t, ast.Dict):
        fail(t, '_tt_to_gate_type must be a dict literal')
    tt2g = {}
    for k, v in zip(t.keys, t.values):
        if not (isinstance(k, ast.Tuple) and len(k.elts) == 4
                and all(isinstance(e, ast.Constant) and type(e.value) is int and e.value in (0, 1) for e in k.elts)):
            fail(k, '_tt_to_gate_type key must be a 4-tuple of 0/1')
        key = tuple(bool(e.value) for e in k.elts)
        if key in tt2g:
            fail(k, 'duplicate _tt_to_gate_type key')
        if not (isinstance(v, ast.Name) and v.id in imported and v.id in GTYPES):
            fail(v, '_tt_to_gate_type value must be a gate type imported from cirbo.core.circuit')
        tt2g[key] = v.id
    if len(tt2g) != 16:
        raise TranslatorError(f'_tt_to_gate_type has {len(tt2g)} keys, not 16 (a missing key is a KeyError at decode time)')
    gb = funcs.get('_get_GateType_by_tt')
    want = ['return _tt_to_gate_type[tuple(gate_tt)]']
    if gb is None or [a.arg for a in gb.args.args] != ['gate_tt'] or _dump(strip_docstring(gb.body)) != want:
        fail(gb, '_get_GateType_by_tt outside grammar')

    # ---- which gate type carries the operator an Operation is named after
    gmod = parse('cirbo/core/circuit/gate.py')
    op2type = {}
    for name, val in top_level_assigns(gmod).items():
        if isinstance(val, ast.Call) and isinstance(val.func, ast.Name) and val.func.id == 'GateType':
            if len(val.args) != 3 or val.keywords:
                fail(val, 'GateType(...) must have three positional arguments')
            op = val.args[1]
            if isinstance(op, ast.Name):
                if name not in GTYPES:
                    fail(val, 'unknown gate type')
                if op.id in op2type:
                    fail(val, 'two gate types share an operator')
                op2type[op.id] = name
    named = {}
    for name, _ in ops:
        if name not in op2type:
            raise TranslatorError(f'Operation.{name}: no gate type carries an operator of that name')
        named[name] = op2type[name]
    return ops, bases, str2basis, tt2g, named


def _dump(nodes):
    return [ast.unparse(n) for n in nodes]


def translate():
    ops, bases, str2basis, tt2g, named = extract()
    o = ['(* GENERATED by translator/t3_search.py from cirbo/synthesis/circuit_search.py. DO NOT EDIT. *)',
         'Require Import Cirbo.Model.Base Cirbo.Model.Gate Cirbo.Model.Search.', '',
         '(* class Operation(enum.Enum) *)',
         'Inductive operation : Type :=', '| ' + ' | '.join(f'op_{n}' for n, _ in ops) + '.', '',
         'Definition all_operations : list operation :=', '  [' + '; '.join(f'op_{n}' for n, _ in ops) + '].', '',
         '(* Operation.value: character i is the value on (p, q) = (i // 2, i % 2) *)',
         'Definition op_table (o : operation) : tt4 :=', '  match o with']
    for n, b in ops:
        o.append(f'  | op_{n} => {coq_tt(b)}')
    o += ['  end.', '', 'Definition op_name (o : operation) : string :=', '  match o with']
    for n, _ in ops:
        o.append(f'  | op_{n} => "{n}"')
    o += ['  end.', '',
          '(* the gate type whose operator (gate.py registry) is the function the member is named after *)',
          'Definition op_named_type (o : operation) : gtype :=', '  match o with']
    for n, _ in ops:
        o.append(f'  | op_{n} => {named[n]}')
    o += ['  end.', '', '(* class Basis(enum.Enum) *)']
    for bn, members in bases:
        o.append(f'Definition basis_{bn} : list operation :=')
        o.append('  [' + '; '.join(f'op_{m}' for m in members) + '].')
    o += ['', 'Definition all_bases : list (string * list operation) :=',
          '  [' + '; '.join(f'("{bn}", basis_{bn})' for bn, _ in bases) + '].', '',
          '(* _str_to_basis (resolve_basis upper-cases a str argument before the lookup) *)',
          'Definition str_to_basis : list (string * list operation) :=',
          '  [' + '; '.join(f'("{k}", basis_{v})' for k, v in str2basis) + '].', '',
          '(* _tt_to_gate_type, keyed by (f 0 0, f 0 1, f 1 0, f 1 1) *)',
          'Definition tt_to_gate_type (t : tt4) : gtype :=', '  match t with']
    for key in sorted(tt2g):
        o.append(f'  | {coq_tt(key)} => {tt2g[key]}')
    o += ['  end.', '']
    changed = write_if_changed('Generated/SearchTables.v', '\n'.join(o))
    return {'Generated/SearchTables.v': changed}


if __name__ == '__main__':
    print(translate())
