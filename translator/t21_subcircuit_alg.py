"""T21: cirbo/minimization/subcircuit.py  ->  Generated/SubcircuitAlgGen.v

A statement-level imperative-to-functional translation of the pure parts of the subcircuit minimisation (C04) that
T5 (eval_pattern / max_pattern / _generate_inputs_tt) leaves to the hand model:

  class _Subcircuit            __init__ -> the record gen_Subcircuit + gen_Subcircuit_init,
                               evaluate_truth_table_with_dont_cares -> gen_Subcircuit_evaluate_truth_table_with_dont_cares
  _get_subcircuits             the whole function (cut filtering, filling of the node sets, the per-cut simulation)
  _eval_dont_cares, _get_internal_gates
  minimize_subcircuits         ONLY the classification of the outputs of one subcircuit (a contiguous block of statements
                               of the main loop, see `The slice`) -> gen_classify_outputs

Proofs/SubcircuitAlgGen*.v prove the generated definitions equal to the hand model (Model/PatternSim.v; for the parts
that had none: Model/SubcircuitAlg.v).  Anything outside the grammar raises TranslatorError (fail closed).  The Gallina
is built from the statements of the source; the translator knows the names of COVERED only to select what is emitted.

Values.  str / Label -> string (label); int -> N, the result of a subtraction -> Z (exact), except `(1 << e) - 1`
(exact in N) and `P - e` for a variable P bound to such a value (N, truncated at 0: exact for e <= P, the convention of
T5); list / tuple[T, ...] / deque -> list; set[str] -> list label (distinct elements in order of first insertion);
dict[Label, V] -> Base.dict V; dict with int / Cut keys -> association list (py_adict functions); GateState -> st;
TriValue -> option bool (None = DontCare); a Gate obtained from circuit.get_gate -> gate; an element of
circuit.top_sort(...) -> its label; Circuit -> circuit; _PatternOperations(n) -> its attribute max_pattern (T5);
an object of _Subcircuit -> the record of the attributes __init__ assigns.

Conventions (each is a trusted reading of Python, stated here and in the generated file):
  sets        A set is the list of its distinct elements in order of first insertion; `x in s` is memb.  The ITERATION
              order of a set (list(s), for x in s, a comprehension over s) is `set_iter s` for a Section variable
              set_iter : list label -> list label of the generated file, about which the definitions assume nothing
              (CPython's order depends on the string hashes); sorted(<set of strings>) does not go through set_iter.
  defaultdict d[k] on a missing key reads the default value; the insertion of k that Python performs is not modelled.
              This is accepted only if (i) every occurrence of the variable in the function is a subscript (read,
              store, d[k].append / add / update) or the constructor argument of a record field that is itself only
              read through subscripts in the whole module - then no statement can observe the key set - or (ii) the
              read is guarded by `if k in d` with the same key text and no store in between.
  aliasing    `y = x` for a list / set / dict / object freezes both names (no in-place update afterwards); a variable
              that is updated in place may be stored / passed on only after its last update and must have been created
              in the enclosing loop body; a loop may change the list it iterates over only by `l[j] <op>= e` for the
              enumerate index j of the current iteration.  The in-place effects of _get_subcircuits on its ARGUMENTS
              (cuts is sorted, cut_nodes gets keys and larger sets) are not part of the generated result.
  objects     `for o in objs: ... o.attr = e` rebuilds the list objs (the list holds references; the objects of the
              list are assumed pairwise distinct, as _get_subcircuits creates them).
  generators  circuit.top_sort(...) / itertools.product / more_itertools.powerset / enumerate are run to completion
              before their consumer starts (differs from Python only in which exception is seen first).
  Circuit     get_gate, get_gate_users, top_sort, evaluate_full_circuit, inputs, outputs are the functions of
              Model/Circuit.v / Traverse.v / Eval.v (regenerated from circuit.py by T9 / T10 and proved equal there);
              their parameter lists are compared with circuit.py.
  loops       `for` without break / return -> foldM, with break -> loopB, with return -> loopM; every loop body is a
              separate definition gen_<function>_for<k> / _while<k> (k numbers the loops of a function in source order)
              whose parameters are the variables the body reads (in order of definition), the tuple of the variables it
              changes, and the element; `while` runs on explicit fuel (a parameter fuel<k> of the function).
  errors      every generated function returns `res`; sub-expressions that can raise are bound in Python's left-to-right
              order; UnsupportedOperationError is GenerationError as in T5.

Grammar.
  <stmt> ::= <name>[: T] = <expr> | <name>[k] = <expr> | <obj loop variable>.<attr> = <expr>
           | <name> <op>= <expr> | <list>[j] <op>= <expr>            (+ on ints, - on Z, >> << & | ^)
           | <place>.append(e) | <place>.add(e) | <place>.update(s) | <list>.sort(key=lambda x: e)
             (<place> ::= <name> | <name>[k])
           | if / elif / else | for <target> in <iterable> (continue, break, return in the body) | while <expr>
           | def <closure>(<annotated params>) -> T   (captures variables, never changes them)
           | return [<expr>] | pass | logger.<level>(<f-string over harmless expressions>)
  <expr> ::= names, True / False, non-negative int and str literals, DontCare, Undefined,
           x.inputs / x.outputs (circuit), g.operands, g.gate_type.name, n.label, <object>.<attr>,
           l[i], d[k], l[::-1], + on lists, << >> & | ^ + - on ints, comparisons (chains), in / not in, == != on
           strings / ints / states / bools, not / and / or, a if c else b, `a if p is None else b` (Optional parameter),
           len range enumerate list tuple set sorted bool int str, ''.join(l), tp.cast(T, x) = x, collections.defaultdict(T),
           collections.deque(), itertools.product(xs, repeat=n), more_itertools.powerset(l), x.pop(), q.popleft(),
           [e for t in it if c], {k: v for t in it}, d.items() (as an iterable), tuples of expressions of one type,
           calls of closures, of <record class>(...), _PatternOperations(n), .eval_pattern(ops, name),
           _generate_inputs_tt(n), circuit.get_gate / get_gate_users / top_sort(inverse=b) / evaluate_full_circuit.

The slice.  In minimize_subcircuits the (unique) top-level `for` over enumerate(<list of record objects>) is the main
loop.  The slice is the maximal run of consecutive statements of its body that starts at the first statement whose value
is `collections.defaultdict(Label)` and stops before the first statement that mentions a variable annotated `Circuit`.
Its free variables (typed by the annotations / loop targets that precede it) are the parameters of
gen_classify_outputs, the variables it binds at its top level (in order of first binding) are the result tuple.
"""
import ast

from .common import TranslatorError, fail, guard_module, repo_root, strip_docstring, write_if_changed
from . import t5_patterns
from .t9_circuit_core import Unit as CoreUnit
from .t15_passes import Sources
from .t21_calls import CIRCUIT_METHODS, CallMixin
from .t21_expr import ExprMixin, known, unify
from .t21_stmt import Flow, StmtMixin
from .t21_types import (CIRCUIT, FUEL, LABEL, NAT, TL, Fn, Val, Var, assigned_names, atom, base_name, coq_ty, ind,
                        loaded_names, pty, tuple_code, tuple_ty, walk_no_defs, MUTATORS)

OUT = 'Generated/SubcircuitAlgGen.v'
MOD = 'cirbo.minimization.subcircuit'
RECORD_CLASSES = ['_Subcircuit']
# (kind, qualified name, Coq name): ALL of them must translate, emitted in this order
COVERED = [
    ('method', '_Subcircuit.evaluate_truth_table_with_dont_cares', None),
    ('function', '_get_subcircuits', None),
    ('function', '_eval_dont_cares', None),
    ('function', '_get_internal_gates', None),
    ('slice', 'minimize_subcircuits', 'gen_classify_outputs'),
]
BUILTINS_USED = ('len', 'range', 'enumerate', 'list', 'tuple', 'set', 'sorted', 'bool', 'int', 'str')

HEADER = '''(* GENERATED by translator/t21_subcircuit_alg.py from cirbo/minimization/subcircuit.py.  DO NOT EDIT.
   Proofs/SubcircuitAlgGen*.v prove the gen_<name> equal to the hand model (Model/PatternSim.v, Model/SubcircuitAlg.v).

   Conventions (see the header of the translator and Model/SubcircuitPrims.v, the fixed prelude):
   - int -> N (a subtraction yields Z, except (1 << e) - 1 and P - e for such a P: N); str -> string; list / tuple -> list;
     GateState -> st; TriValue -> option bool; dict[Label, V] -> dict V; other dicts -> association lists;
   - a set is the list of its distinct elements in order of first insertion; ITERATING over a set (list(s), for x in s)
     yields `set_iter s` for the Section variable set_iter, about which nothing is assumed here;
   - d[k] on a collections.defaultdict reads the default for a missing key; the key insertion is not modelled (accepted
     only where no statement can observe the key set, or under a guard `k in d`);
   - every loop body is a definition of its own: gen_<f>_for<k> / gen_<f>_while<k> (captured variables, the tuple of the
     variables the body changes, the element); `while` runs on the fuel parameter fuel<k>;
   - the Circuit methods are the functions of Model/Circuit.v / Traverse.v / Eval.v; eval_pattern_str / max_pattern /
     generate_inputs_tt are those of Generated/PatternOps.v (translator T5). *)
Require Import Cirbo.Model.Base Cirbo.Model.Gate Cirbo.Model.Circuit Cirbo.Model.Traverse Cirbo.Model.Eval.
Require Import Cirbo.Generated.GateTypes Cirbo.Generated.PatternOps.
Require Import Cirbo.Model.SubcircuitPrims.
'''


# ---------------------------------------------------------------------------------------------- module context
class ModCtx:
    def __init__(self, src, dotted):
        self.src, self.dotted = src, dotted
        self.tree, _ = src.mod(dotted)
        self.bind = src.bindings(dotted)
        self.classes = {n.name: n for n in self.tree.body if isinstance(n, ast.ClassDef)}
        self.funcs = {n.name: n for n in self.tree.body if isinstance(n, ast.FunctionDef)}
        self.shadowed_builtins = {b for b in BUILTINS_USED if b in self.bind}
        # names bound anywhere below module level by `global` would escape guard_module
        for n in ast.walk(self.tree):
            if isinstance(n, (ast.Global, ast.Nonlocal)):
                fail(n, 'global / nonlocal statement in the module')

    def is_module(self, name, module):
        return self.bind.get(name) == ('module', module)

    def is_imported(self, name, module, orig):
        b = self.bind.get(name)
        if b is None or b[0] != 'import':
            return False
        return self.src.resolve(self.dotted, name) in (('def', module, orig),)

    def is_label(self, name):
        if self.src.resolve(self.dotted, name) != ('def', 'cirbo.core.circuit.gate', 'Label'):
            return False
        b = self.src.bindings('cirbo.core.circuit.gate').get('Label')
        return b is not None and b[0] == 'def' and isinstance(b[1], ast.Assign) \
            and isinstance(b[1].value, ast.Name) and b[1].value.id == 'str'

    def is_cut_alias(self, name):
        b = self.bind.get(name)
        return (b is not None and b[0] == 'def' and isinstance(b[1], ast.Assign)
                and ast.unparse(b[1].value).replace(' ', '') == 'tuple[Label,...]' and self.is_label('Label'))

    def is_circuit_class(self, name):
        return self.src.resolve(self.dotted, name) == ('def', 'cirbo.core.circuit.circuit', 'Circuit')

    def is_logger(self, name):
        b = self.bind.get(name)
        return (b is not None and b[0] == 'def' and isinstance(b[1], ast.Assign)
                and ast.unparse(b[1].value) == 'logging.getLogger(__name__)' and self.is_module('logging', 'logging'))

    def is_local_class(self, name):
        c = self.classes.get(name)
        return c is not None and self.bind.get(name) == ('def', c)

    def is_local_function(self, name):
        f = self.funcs.get(name)
        return f is not None and self.bind.get(name) == ('def', f)


class Record:
    def __init__(self, cname):
        self.cname = cname
        self.fields = {}        # attribute -> type, in the order of __init__
        self.ctor = None
        self.text = ''

    @property
    def short(self):
        return self.cname.lstrip('_')

    def proj(self, attr):
        return f'{self.short}_{attr}'

    def setter(self, attr):
        return f'set_{self.short}_{attr}'


# ---------------------------------------------------------------------------------------------- functions
class FnTr(ExprMixin, CallMixin, StmtMixin):
    def __init__(self, unit, src, coqname, kind, outer=None, cls=None):
        self.u, self.m, self.src, self.kind, self.cls = unit, unit.m, src, kind, cls
        self.root = outer.root if outer is not None else self
        self.coqname = coqname
        if outer is None:
            self.tmp = 0
            self.loopno = 0
            self.nostate = 0
            self.bools_are_states = False
            self.defs = []
            self.uses_set_iter = False
            self.obj_loop_vars = set()
            self.frozen = set()
            self.ret_ty = None
        self.local_names = set()

    # ---- analyses on the whole (outermost) function
    def analyse(self, stmts, params):
        self.local_names = assigned_names(stmts) | set(params)
        parents = {}
        for st in stmts:
            for n in ast.walk(st):
                for c in ast.iter_child_nodes(n):
                    parents[id(c)] = n
        self.parents = parents
        self.mutated, self.mutation_lines = set(), {}
        for st in stmts:
            for n in ast.walk(st):
                b = None
                if isinstance(n, (ast.Subscript, ast.Attribute)) and isinstance(n.ctx, (ast.Store, ast.Del)):
                    b = base_name(n)
                elif isinstance(n, ast.Call) and isinstance(n.func, ast.Attribute) and n.func.attr in MUTATORS:
                    b = base_name(n.func.value)
                if b is not None:
                    self.mutated.add(b)
                    self.mutation_lines.setdefault(b, []).append(n.lineno)
        # variables whose key set is observed: an occurrence that is not the container of a subscript
        self.observed = set()
        rec_calls = set()
        for st in stmts:
            for n in ast.walk(st):
                if isinstance(n, ast.Call) and isinstance(n.func, ast.Name) and n.func.id in self.u.records:
                    rec_calls |= {id(k.value) for k in n.keywords} | {id(a) for a in n.args}
        for st in stmts:
            for n in ast.walk(st):
                if isinstance(n, ast.Name) and isinstance(n.ctx, ast.Load):
                    p = parents.get(id(n))
                    if isinstance(p, ast.Subscript) and p.value is n:
                        continue
                    if id(n) in rec_calls:
                        continue
                    self.observed.add(n.id)
        self.fuel_of = {}
        k = 0
        for st in stmts:
            for n in ast.walk(st):
                if isinstance(n, ast.While):
                    k += 1
                    self.fuel_of[id(n)] = f'fuel{k}'
        return [f'fuel{i + 1}' for i in range(k)]

    def escape(self, value, node):
        """a value handed to a constructor / appended to a list / returned: a variable in it that is updated in place
        must not be updated after this statement and, inside a loop, must have been created by an assignment in
        the body of the innermost enclosing loop (so that the next iteration works on a fresh object)"""
        root = self.root
        for n in ast.walk(value):
            if not (isinstance(n, ast.Name) and n.id in root.mutated):
                continue
            sites = root.mutation_lines.get(n.id, [])
            if any(ln > node.lineno for ln in sites):
                fail(node, f'{n.id!r} is updated in place after it was stored / passed on')
            loop = root.parents.get(id(node))
            while loop is not None and not isinstance(loop, (ast.For, ast.While)):
                loop = root.parents.get(id(loop))
            if loop is not None:
                made = any(isinstance(s, (ast.Assign, ast.AnnAssign)) and s.lineno < node.lineno and any(
                    isinstance(t, ast.Name) and t.id == n.id
                    for t in (s.targets if isinstance(s, ast.Assign) else [s.target])) for s in loop.body)
                if not made:
                    fail(node, f'{n.id!r} is updated in place and stored / passed on inside a loop that does not create it')

    # ---- signature
    def param_types(self, f, skip_self):
        a = f.args
        if a.posonlyargs or a.vararg or a.kwarg or a.kwonlyargs or a.defaults or f.decorator_list:
            fail(f, 'signature outside grammar')
        args = list(a.args)
        if skip_self:
            if not args or args[0].arg != 'self':
                fail(f, 'method without self')
            args = args[1:]
        out = []
        for p in args:
            if p.annotation is None:
                fail(p, 'parameter without annotation')
            out.append((p.arg, self.ann_type(p.annotation, p)))
        if len({p for p, _ in out}) != len(out):
            fail(f, 'parameter bound twice')
        return out

    def translate_def(self, params, body, ret_ty, self_ty=None, result_names=None):
        """params: [(python name, type)]; -> Fn; the text of the definition goes to self.u.out"""
        body = strip_docstring(body)
        fuels = self.analyse(body, [p for p, _ in params] + (['self'] if self_ty else []))
        self.ret_ty = ret_ty
        env = {}
        for f in fuels:
            env['<' + f + '>'] = Var(f, FUEL)
        binders = ''.join(f' ({f} : nat)' for f in fuels)
        if self_ty is not None:
            env['self'] = Var('v_self', self_ty)
            binders += f' (v_self : {coq_ty(self_ty)})'
        for p, ty in params:
            env[p] = Var(self.vname(self.src, p), ty, observed=p in self.observed)
            binders += f' ({env[p].code} : {coq_ty(ty)})'
        if result_names is None:
            def fall(e):
                if ret_ty == 'unit':
                    return 'Ok tt'
                fail(self.src, 'a path reaches the end of the function without return')

            def ret(v, pre):
                if ret_ty != 'unit':
                    unify(ret_ty, v.ty, self.src)
                return '\n'.join(pre + [f'Ok {atom(v.code)}'])
            fl = Flow(fall, None, None, ret)
        else:
            types = {}

            def fall(e):
                for n in result_names:
                    if n not in e:
                        fail(self.src, f'{n!r} is not bound at the end of the slice')
                    types[n] = e[n].ty
                return f'Ok {tuple_code([e[n].code for n in result_names])}'
            fl = Flow(fall, None, None, None)
        code = self.block(body, env, fl)
        if result_names is not None:
            ret_ty = tuple_ty([types[n] for n in result_names])
            rty = ret_ty
        else:
            rty = pty(ret_ty)
        text = '\n\n'.join(self.defs + [f'Definition {self.coqname}{binders} : res ({rty}) :=\n{ind(code)}.'])
        return Fn(self.coqname, params, ret_ty, fuels=fuels), text

    # a nested def: a function of the captured variables it reads and its parameters
    def closure(self, s, env):
        if s.name in env:
            fail(s, f'{s.name!r} is bound twice')
        sub = FnTr(self.u, s, f'{self.root.coqname}_{s.name.lstrip("_")}', 'closure', outer=self)
        sub.local_names = assigned_names(s.body) | {a.arg for a in s.args.args}
        params = sub.param_types(s, False)
        if s.returns is None:
            fail(s, 'closure without return annotation')
        ret_ty = self.ann_type(s.returns, s)
        body = strip_docstring(s.body)
        inner = sub.local_names
        if any(isinstance(n, ast.While) for st in body for n in ast.walk(st)):
            fail(s, 'while loop inside a closure')
        used = loaded_names(body)
        caps = [n for n in env if not n.startswith('<') and n in used and n not in inner and env[n].fn is None]
        if assigned_names(body) & set(caps):
            fail(s, 'a closure changes a captured variable')
        cenv = {n: env[n] for n in env if n.startswith('<')}
        for n in caps:
            cenv[n] = env[n]
        for p, ty in params:
            if p in env:
                fail(s, f'closure parameter {p!r} shadows a variable')
            cenv[p] = Var(self.vname(s, p), ty)
        saved = self.root.ret_ty
        self.root.ret_ty = ret_ty

        def ret(v, pre):
            unify(ret_ty, v.ty, s)
            return '\n'.join(pre + [f'Ok {atom(v.code)}'])

        def fall(e):
            fail(s, 'a path reaches the end of the closure without return')
        # loops of the closure are numbered with the closure's own name
        root = self.root
        keep_name, keep_no = root.coqname, root.loopno
        root.coqname, root.loopno = sub.coqname, 0
        try:
            code = sub.block(body, cenv, Flow(fall, None, None, ret))
        finally:
            root.coqname, root.loopno = keep_name, keep_no
            self.root.ret_ty = saved
        binders = ''.join(f' ({env[n].code} : {coq_ty(env[n].ty)})' for n in caps)
        binders += ''.join(f' ({cenv[p].code} : {coq_ty(ty)})' for p, ty in params)
        self.root.defs.append(f'Definition {sub.coqname}{binders} : res ({pty(ret_ty)}) :=\n{ind(code)}.')
        env[s.name] = Var(sub.coqname, None, fn=Fn(sub.coqname, params, ret_ty, captures=caps))


# ---------------------------------------------------------------------------------------------- unit
class Unit:
    def __init__(self):
        self.src = Sources()
        self.m = ModCtx(self.src, MOD)
        self.core = CoreUnit()      # checks the trivial properties Circuit.inputs / outputs, Gate.label / gate_type / operands
        self.core.trivial_getter('GateType', 'name', '_name')
        self.check_circuit_methods()
        self.check_t5()
        self.records = {}
        self.out = []
        for c in RECORD_CLASSES:
            self.records[c] = None
        for c in RECORD_CLASSES:
            self.records[c] = self.record(c)
        self.check_defaultdict_fields()

    def check_circuit_methods(self):
        cm = self.core.circuit_methods
        for name, (_model, params, _ret) in CIRCUIT_METHODS.items():
            m = cm.get(name)
            if m is None or m.decorator_list:
                raise TranslatorError(f'Circuit.{name}: not a single plain method')
            a = m.args
            got = [x.arg for x in a.args[1:]]
            if a.posonlyargs or a.vararg or a.kwarg or a.kwonlyargs or a.defaults or got != params:
                raise TranslatorError(f'Circuit.{name}: parameters {got} differ from {params}')
        ts = cm.get('top_sort')
        if ts is None or ts.decorator_list or [x.arg for x in ts.args.args] != ['self'] \
                or [x.arg for x in ts.args.kwonlyargs] != ['inverse'] or ts.args.vararg or ts.args.kwarg:
            raise TranslatorError('Circuit.top_sort: signature must be (self, *, inverse=...)')

    def check_t5(self):
        """the pattern primitives are those of T5: the class consists of __init__(self, n) / eval_pattern(self,
        operands, oper_type) and _generate_inputs_tt(size) translates (T5 raises otherwise)"""
        tr = t5_patterns.PatternTranslator(self.m.tree)
        tr.max_pattern()
        tr.eval_pattern()
        t5_patterns.generate_inputs_tt(self.m.tree)
        self.patops_class = tr.cls.name
        self.eval_pattern_name = 'eval_pattern'
        self.inputs_tt_fn = '_generate_inputs_tt'
        if not self.m.is_local_class(self.patops_class) or not self.m.is_local_function(self.inputs_tt_fn):
            raise TranslatorError('_PatternOperations / _generate_inputs_tt are not plain module-level definitions')

    def module_function(self, name, node):
        return None

    def method(self, cname, attr, node):
        fail(node, f'call of the method {cname}.{attr} outside grammar')

    # ---- classes as records
    def record(self, cname):
        m = self.m
        cls = m.classes.get(cname)
        if cls is None or not m.is_local_class(cname) or cls.bases or cls.keywords or cls.decorator_list:
            raise TranslatorError(f'{cname}: not a plain module-level class')
        for n in cls.body:
            if not isinstance(n, ast.FunctionDef) and not (isinstance(n, ast.Expr) and isinstance(n.value, ast.Constant)):
                fail(n, f'{cname}: class body outside grammar')
            if isinstance(n, ast.FunctionDef) and n.decorator_list:
                fail(n, f'{cname}: decorated method')
        names = [n.name for n in cls.body if isinstance(n, ast.FunctionDef)]
        if len(set(names)) != len(names) or '__init__' not in names:
            raise TranslatorError(f'{cname}: methods {names}')
        if any(x.startswith('__') and x != '__init__' for x in names):
            raise TranslatorError(f'{cname}: special methods are not modelled')
        init = next(n for n in cls.body if isinstance(n, ast.FunctionDef) and n.name == '__init__')
        a = init.args
        if a.posonlyargs or a.vararg or a.kwarg or a.kwonlyargs or not a.args or a.args[0].arg != 'self':
            fail(init, '__init__ signature outside grammar')
        pnames = [x.arg for x in a.args[1:]]
        if len(a.defaults) != len(pnames):
            fail(init, 'every __init__ parameter must have a default')
        rec = Record(cname)
        tr = FnTr(self, init, f'gen_{rec.short}_init', 'init')
        ptypes, lines, defaults = {}, [], {}
        for st in strip_docstring(init.body):
            ok = (isinstance(st, ast.AnnAssign) and st.value is not None and isinstance(st.target, ast.Attribute)
                  and isinstance(st.target.value, ast.Name) and st.target.value.id == 'self')
            if not ok:
                fail(st, '__init__ must consist of `self.<attr>: T = <expr>`')
            attr = st.target.attr
            if attr in rec.fields:
                fail(st, f'attribute {attr} assigned twice')
            fty = tr.ann_type(st.annotation, st)
            v = st.value
            # `E if p is None else p`  or  `p`
            if isinstance(v, ast.Name) and v.id in pnames:
                p, ety = v.id, None
            elif (isinstance(v, ast.IfExp) and isinstance(v.test, ast.Compare) and len(v.test.ops) == 1
                  and isinstance(v.test.ops[0], ast.Is) and isinstance(v.test.left, ast.Name)
                  and v.test.left.id in pnames and isinstance(v.test.comparators[0], ast.Constant)
                  and v.test.comparators[0].value is None and isinstance(v.orelse, ast.Name)
                  and v.orelse.id == v.test.left.id):
                p, ety = v.test.left.id, v.body
            else:
                fail(st, '__init__ value must be `<param>` or `<expr> if <param> is None else <param>`')
            if p in ptypes:
                fail(st, f'parameter {p} used twice')
            d = a.defaults[pnames.index(p)]
            if ety is None:
                ptypes[p] = fty
                if not (isinstance(d, ast.Constant) and type(d.value) is int and d.value >= 0 and fty == NAT):
                    fail(st, 'default of a directly stored parameter must be a non-negative int literal')
                defaults[p] = f'{d.value}%N'
                lines.append(f'let self_{attr} := v_{p} in')
            else:
                if not (isinstance(d, ast.Constant) and d.value is None):
                    fail(st, 'default of an optional parameter must be None')
                ptypes[p] = ('opt', fty)
                defaults[p] = 'None'
                tr.local_names = set()
                ev = tr.pure(ety, {}, 'the default of an attribute')
                fty = unify(fty, ev.ty, st)
                lines.append(f'let self_{attr} := match v_{p} with None => {ev.code} | Some v_{p} => v_{p} end in')
            rec.fields[attr] = fty
        if set(ptypes) != set(pnames):
            fail(init, 'an __init__ parameter is not stored')
        params = [(p, ptypes[p]) for p in pnames]
        rname = f'gen_{rec.short}'
        flds = '; '.join(f'{rec.proj(f)} : {coq_ty(t)}' for f, t in rec.fields.items())
        text = [f'Record {rname} : Type := mk_{rname} {{ {flds} }}.']
        binders = ''.join(f' (v_{p} : {coq_ty(t)})' for p, t in params)
        body = '\n'.join(lines + [f'mk_{rname} ' + ' '.join(f'self_{f}' for f in rec.fields)])
        text.append(f'Definition {rname}_init{binders} : {rname} :=\n{ind(body)}.')
        for f in rec.fields:
            args = ' '.join('v' if g == f else f'({rec.proj(g)} o)' for g in rec.fields)
            text.append(f'Definition {rec.setter(f)} (o : {rname}) (v : {coq_ty(rec.fields[f])}) : {rname} :=\n'
                        f'  mk_{rname} {args}.')
        rec.ctor = Fn(f'{rname}_init', params, ('obj', cname), raises=False, defaults=defaults)
        rec.text = '\n\n'.join(text)
        self.out.append(rec.text)
        return rec

    def check_defaultdict_fields(self):
        """a record field that is a defaultdict is only ever read through subscripts, in the whole module"""
        fields = {f for r in self.records.values() for f, t in r.fields.items()
                  if isinstance(t, tuple) and t[0] == 'dict' and t[3] is not None}
        parents = {}
        for n in ast.walk(self.m.tree):
            for c in ast.iter_child_nodes(n):
                parents[id(c)] = n
        for n in ast.walk(self.m.tree):
            if isinstance(n, ast.Attribute) and n.attr in fields:
                p = parents.get(id(n))
                if isinstance(n.ctx, ast.Store) and isinstance(p, ast.AnnAssign):
                    continue
                if isinstance(p, ast.Subscript) and p.value is n and isinstance(p.ctx, ast.Load):
                    continue
                fail(n, f'the defaultdict attribute .{n.attr} is used other than by a subscript read')

    # ---- covered definitions
    def function(self, qual):
        f = self.m.funcs.get(qual)
        if f is None or not self.m.is_local_function(qual):
            raise TranslatorError(f'{qual}: not a plain module-level function')
        tr = FnTr(self, f, 'gen_' + qual.lstrip('_'), 'function')
        params = tr.param_types(f, False)
        if f.returns is None:
            fail(f, 'function without return annotation')
        fn, text = tr.translate_def(params, f.body, tr.ann_type(f.returns, f))
        self.out.append(text)
        return tr

    def method_def(self, qual):
        cname, mname = qual.split('.')
        cls = self.m.classes[cname]
        f = next((n for n in cls.body if isinstance(n, ast.FunctionDef) and n.name == mname), None)
        if f is None:
            raise TranslatorError(f'{qual} not found')
        tr = FnTr(self, f, f'gen_{cname.lstrip("_")}_{mname}', 'method', cls=cls)
        params = tr.param_types(f, True)
        if f.returns is None:
            fail(f, 'method without return annotation')
        fn, text = tr.translate_def(params, f.body, tr.ann_type(f.returns, f), self_ty=('obj', cname))
        self.out.append(text)
        return tr

    def slice_def(self, qual, coqname):
        f = self.m.funcs.get(qual)
        if f is None or not self.m.is_local_function(qual):
            raise TranslatorError(f'{qual}: not a plain module-level function')
        tr = FnTr(self, f, coqname, 'slice')
        tr.local_names = set()
        ctx = {}        # name -> type, from the annotations that precede the slice
        circuits = set()
        for a in list(f.args.args) + list(f.args.kwonlyargs):
            if a.annotation is not None and ast.unparse(a.annotation) == 'Circuit' and self.m.is_circuit_class('Circuit'):
                circuits.add(a.arg)
        for n in ast.walk(f):
            if isinstance(n, ast.AnnAssign) and isinstance(n.target, ast.Name) \
                    and ast.unparse(n.annotation) == 'Circuit' and self.m.is_circuit_class('Circuit'):
                circuits.add(n.target.id)

        def note(stmts):
            for st in stmts:
                if isinstance(st, ast.AnnAssign) and isinstance(st.target, ast.Name):
                    try:
                        ctx[st.target.id] = tr.ann_type(st.annotation, st)
                    except TranslatorError:
                        ctx.pop(st.target.id, None)
                elif isinstance(st, ast.Assign):
                    # a rebinding keeps the declared type only when the value is a call of a module-level
                    # function whose return annotation is that type
                    rty = None
                    v = st.value
                    if isinstance(v, ast.Call) and isinstance(v.func, ast.Name) and self.m.is_local_function(v.func.id) \
                            and self.m.funcs[v.func.id].returns is not None:
                        try:
                            rty = tr.ann_type(self.m.funcs[v.func.id].returns, st)
                        except TranslatorError:
                            rty = None
                    for t in st.targets:
                        if isinstance(t, ast.Name) and ctx.get(t.id) != rty:
                            ctx.pop(t.id, None)
        body = strip_docstring(f.body)
        loops = []
        for i, st in enumerate(body):
            if isinstance(st, ast.For) and isinstance(st.iter, ast.Call) and isinstance(st.iter.func, ast.Name) \
                    and st.iter.func.id == 'enumerate' and len(st.iter.args) == 1 \
                    and isinstance(st.iter.args[0], ast.Name):
                note(body[:i])
                lty = ctx.get(st.iter.args[0].id)
                if isinstance(lty, tuple) and lty[0] == 'list' and isinstance(lty[1], tuple) and lty[1][0] == 'obj':
                    loops.append((st, lty[1]))
        if len(loops) != 1:
            fail(f, 'the main loop (for .. in enumerate(<list of record objects>)) is not unique')
        loop, oty = loops[0]
        if not (isinstance(loop.target, ast.Tuple) and len(loop.target.elts) == 2
                and all(isinstance(e, ast.Name) for e in loop.target.elts)):
            fail(loop, 'target of the main loop outside grammar')
        ctx.pop(loop.target.elts[0].id, None)
        ctx[loop.target.elts[1].id] = oty
        start = next((i for i, st in enumerate(loop.body) if isinstance(st, (ast.Assign, ast.AnnAssign))
                      and st.value is not None and ast.unparse(st.value) == 'collections.defaultdict(Label)'), None)
        if start is None:
            fail(loop, 'start of the classification slice not found')
        note(loop.body[:start])
        stop = start
        while stop < len(loop.body) and not (loaded_names([loop.body[stop]]) & circuits):
            stop += 1
        stmts = loop.body[start:stop]
        if not any(isinstance(s, ast.For) for s in stmts):
            fail(loop, 'the classification slice contains no loop')
        bound = []
        for st in stmts:
            names = []
            if isinstance(st, (ast.Assign, ast.AnnAssign)):
                for t in (st.targets if isinstance(st, ast.Assign) else [st.target]):
                    if isinstance(t, ast.Name):
                        names.append(t.id)
            for n in names:
                if n not in bound:
                    bound.append(n)
        used = loaded_names(stmts)
        params = [(n, t) for n, t in ctx.items() if n in used and n not in bound and known(t)]
        fn, text = tr.translate_def(params, stmts, None, result_names=bound)
        self.slice_info = (params, bound)
        self.out.append(text)
        return tr


def generate():
    u = Unit()
    uses_iter = False
    for kind, qual, coqname in COVERED:
        if kind == 'function':
            tr = u.function(qual)
        elif kind == 'method':
            tr = u.method_def(qual)
        else:
            tr = u.slice_def(qual, coqname)
        uses_iter = uses_iter or tr.uses_set_iter
    body = '\n\n'.join(u.out)
    sec = ('Section SetIter.\n(* the iteration order of a Python set: see the header *)\n'
           'Variable set_iter : list label -> list label.\n\n')
    return HEADER + '\n' + sec + body + '\n\nEnd SetIter.\n'


def translate():
    return {OUT: write_if_changed(OUT, generate())}


if __name__ == '__main__':
    print(translate())
