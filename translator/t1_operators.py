"""T1: cirbo/core/circuit/operators.py + gate.py -> Generated/Operators.v, GateTypes.v

Grammar accepted (anything else raises TranslatorError):
  tables:   _name: list[GateState] = [True|False|Undefined, ...]
  GateStateNumber: int = 3 ; _state_to_index_map = {False:0, True:1, Undefined:2}
  operator bodies (single `return <expr>`), <expr> one of
     True | False | Undefined | <param>
     _tbl[<idx>]             <idx> ::= index_from_state(<e>) | <idx> * GateStateNumber + <idx>
     op_(<e>, ...) | op_(arg1, arg2, *args)
     functools.reduce(lambda p1, p2: <expr over p1,p2>, (arg1, arg2, *args))
  gate.py:  NAME = GateType("NAME", op_ | None, True|False)
"""
import ast

from .common import TranslatorError, fail, parse, strip_docstring, top_level_assigns, top_level_functions, write_if_changed

ST = {True: 'T', False: 'F'}


def _const_state(node):
    if isinstance(node, ast.Constant) and node.value is True:
        return 'T'
    if isinstance(node, ast.Constant) and node.value is False:
        return 'F'
    if isinstance(node, ast.Name) and node.id == 'Undefined':
        return 'U'
    return None


class OpTranslator:
    def __init__(self, mod):
        self.mod = mod
        self.assigns = top_level_assigns(mod)
        self.funcs = top_level_functions(mod)
        self.tables = {}
        self.ops = {}  # name -> (npos, has_varargs)

    def check_index_map(self):
        n = self.assigns.get('GateStateNumber')
        if not (isinstance(n, ast.Constant) and n.value == 3):
            fail(n, 'GateStateNumber must be the literal 3')
        m = self.assigns.get('_state_to_index_map')
        if not isinstance(m, ast.Dict) or len(m.keys) != 3:
            fail(m, '_state_to_index_map shape')
        got = {}
        for k, v in zip(m.keys, m.values):
            s = _const_state(k)
            if s is None or not isinstance(v, ast.Constant) or not isinstance(v.value, int):
                fail(m, '_state_to_index_map entry')
            got[s] = v.value
        self.index = got
        if sorted(got.values()) != [0, 1, 2]:
            fail(m, '_state_to_index_map must be a bijection onto 0..2')
        f = self.funcs.get('index_from_state')
        body = strip_docstring(f.body) if f else None
        ok = (body and len(body) == 1 and isinstance(body[0], ast.Return)
              and isinstance(body[0].value, ast.Subscript)
              and isinstance(body[0].value.value, ast.Name)
              and body[0].value.value.id == '_state_to_index_map'
              and isinstance(body[0].value.slice, ast.Name)
              and body[0].value.slice.id == f.args.args[0].arg)
        if not ok:
            fail(f, 'index_from_state must return _state_to_index_map[state]')

    def collect_tables(self):
        for name, val in self.assigns.items():
            if isinstance(val, ast.List) and val.elts and all(_const_state(e) for e in val.elts):
                self.tables[name] = [_const_state(e) for e in val.elts]

    def expr(self, node, env):
        s = _const_state(node)
        if s is not None:
            return s
        if isinstance(node, ast.Name):
            if node.id in env:
                return env[node.id]
            fail(node, 'unknown name')
        if isinstance(node, ast.Subscript) and isinstance(node.value, ast.Name):
            t = node.value.id
            if t not in self.tables:
                fail(node, 'subscript of something that is not a state table')
            return f'(tbl_get tbl{t} {self.idx(node.slice, env)})'
        if isinstance(node, ast.Call):
            fn = node.func
            if isinstance(fn, ast.Attribute) and isinstance(fn.value, ast.Name) and fn.value.id == 'functools' and fn.attr == 'reduce':
                if len(node.args) != 2 or node.keywords:
                    fail(node, 'reduce arity')
                lam, seq = node.args
                if not (isinstance(lam, ast.Lambda) and len(lam.args.args) == 2 and not lam.args.vararg):
                    fail(lam, 'reduce lambda')
                p1, p2 = (a.arg for a in lam.args.args)
                body = self.expr(lam.body, {p1: 'p1', p2: 'p2'})
                head, rest = self.argseq(seq.elts if isinstance(seq, ast.Tuple) else fail(seq, 'reduce sequence'), env)
                if not head:
                    fail(seq, 'reduce over possibly empty sequence')
                return f'(fold_left (fun p1 p2 => {body}) ({self.cons(head[1:], rest)}) {head[0]})'
            if isinstance(fn, ast.Name) and fn.id in self.funcs and fn.id != 'index_from_state':
                if node.keywords:
                    fail(node, 'keyword call')
                head, rest = self.argseq(node.args, env)
                npos, var = self.signature(fn.id)
                if len(head) < npos or (len(head) > npos and not var) or (rest and not var):
                    fail(node, 'call does not match callee signature')
                pos = ' '.join(head[:npos])
                if var:
                    return f'(op{fn.id} {pos} ({self.cons(head[npos:], rest)}))'.replace('  ', ' ')
                return f'(op{fn.id} {pos})'
        fail(node, 'expression outside grammar')

    def cons(self, items, rest):
        tail = rest if rest else '[]'
        for it in reversed(items):
            tail = f'{it} :: {tail}'
        return tail

    def argseq(self, elts, env):
        head, rest = [], None
        for i, e in enumerate(elts):
            if isinstance(e, ast.Starred):
                if i != len(elts) - 1 or not isinstance(e.value, ast.Name) or e.value.id not in env:
                    fail(e, 'starred argument must be last and a parameter')
                rest = env[e.value.id]
            else:
                head.append(self.expr(e, env))
        return head, rest

    def idx(self, node, env):
        if isinstance(node, ast.Call) and isinstance(node.func, ast.Name) and node.func.id == 'index_from_state' and len(node.args) == 1:
            return f'(index_from_state {self.expr(node.args[0], env)})'
        if isinstance(node, ast.BinOp) and isinstance(node.op, ast.Add):
            return f'({self.idx(node.left, env)} + {self.idx(node.right, env)})'
        if isinstance(node, ast.BinOp) and isinstance(node.op, ast.Mult):
            l, r = node.left, node.right
            if isinstance(r, ast.Name) and r.id == 'GateStateNumber':
                return f'({self.idx(l, env)} * 3)'
            if isinstance(l, ast.Name) and l.id == 'GateStateNumber':
                return f'(3 * {self.idx(r, env)})'
        fail(node, 'index expression outside grammar')

    def signature(self, name):
        f = self.funcs[name]
        a = f.args
        if a.posonlyargs or a.kwonlyargs or a.kwarg or a.defaults or a.kw_defaults:
            fail(f, 'operator signature outside grammar')
        return len(a.args), a.vararg is not None

    def operator(self, name):
        f = self.funcs[name]
        npos, var = self.signature(name)
        body = strip_docstring(f.body)
        if len(body) != 1 or not isinstance(body[0], ast.Return) or body[0].value is None:
            fail(f, 'operator body must be a single return')
        env = {a.arg: a.arg for a in f.args.args}
        if var:
            env[f.args.vararg.arg] = f.args.vararg.arg
        e = self.expr(body[0].value, env)
        params = ' '.join(f'({a.arg} : st)' for a in f.args.args)
        if var:
            params += f' ({f.args.vararg.arg} : list st)'
        return f'Definition op{name} {params} : st :=\n  {e}.\n'


def order_ops(tr, names):
    """topological order by call dependency (callee first)."""
    deps = {}
    for n in names:
        deps[n] = {c.func.id for c in ast.walk(tr.funcs[n]) if isinstance(c, ast.Call)
                   and isinstance(c.func, ast.Name) and c.func.id in names and c.func.id != n}
    out, seen = [], set()

    def visit(n, stack=()):
        if n in seen:
            return
        if n in stack:
            raise TranslatorError(f'recursive operator {n}')
        for d in sorted(deps[n]):
            visit(d, stack + (n,))
        seen.add(n)
        out.append(n)
    for n in names:
        visit(n)
    return out


GTYPES = ['INPUT', 'ALWAYS_TRUE', 'ALWAYS_FALSE', 'AND', 'GEQ', 'GT', 'IFF', 'LEQ', 'LIFF', 'LNOT',
          'LT', 'NAND', 'NOR', 'NOT', 'NXOR', 'OR', 'RIFF', 'RNOT', 'XOR']


def translate():
    mod = parse('cirbo/core/circuit/operators.py')
    tr = OpTranslator(mod)
    tr.check_index_map()
    tr.collect_tables()
    opnames = [n for n in tr.funcs if n.endswith('_') and n != 'index_from_state']
    out = ['(* GENERATED by translator/t1_operators.py from cirbo/core/circuit/operators.py. DO NOT EDIT. *)',
           'Require Import Cirbo.Model.Base Cirbo.Model.Gate.', '',
           'Definition index_from_state (s : st) : nat :=',
           f"  match s with F => {tr.index['F']} | T => {tr.index['T']} | U => {tr.index['U']} end.", '',
           '(* Python list indexing; an out-of-range index would raise IndexError: every table has',
           '   its length checked below, so the default is never returned. *)',
           'Definition tbl_get (t : list st) (i : nat) : st := nth i t U.', '']
    for name, vals in tr.tables.items():
        out.append(f'Definition tbl{name} : list st := [{"; ".join(vals)}].')
    out.append('')
    for n in order_ops(tr, opnames):
        out.append(tr.operator(n))
    changed1 = write_if_changed('Generated/Operators.v', '\n'.join(out) + '\n')

    # ---- gate.py registry
    gmod = parse('cirbo/core/circuit/gate.py')
    reg = {}
    for name, val in top_level_assigns(gmod).items():
        if isinstance(val, ast.Call) and isinstance(val.func, ast.Name) and val.func.id == 'GateType':
            if len(val.args) != 3 or val.keywords:
                fail(val, 'GateType(...) must have three positional arguments')
            nm, op, sym = val.args
            if not (isinstance(nm, ast.Constant) and isinstance(nm.value, str)):
                fail(val, 'GateType name')
            if isinstance(op, ast.Constant) and op.value is None:
                opn = None
            elif isinstance(op, ast.Name) and op.id in tr.funcs:
                opn = op.id
            else:
                fail(val, 'GateType operator')
            if not (isinstance(sym, ast.Constant) and isinstance(sym.value, bool)):
                fail(val, 'GateType is_symmetric')
            reg[name] = (nm.value, opn, sym.value)
    if sorted(reg) != sorted(GTYPES):
        raise TranslatorError(f'gate.py registry differs from the 19 modelled types: {sorted(reg)}')
    g = ['(* GENERATED by translator/t1_operators.py from cirbo/core/circuit/gate.py. DO NOT EDIT. *)',
         'Require Import Cirbo.Model.Base Cirbo.Model.Gate Cirbo.Generated.Operators.', '',
         '(* Gate.operator applied to the operand values: TypeError when the positional arity does not match. *)',
         'Definition operator_of (g : gtype) (args : list st) : res st :=', '  match g with']
    for t in GTYPES:
        nm, opn, sym = reg[t]
        if opn is None:
            g.append(f'  | {t} => Err GateTypeNoOperatorError')
            continue
        npos, var = tr.signature(opn)
        names = [f'a{i}' for i in range(npos)]
        if var:
            pat = ' :: '.join(names + ['rest'])
            call = f'op{opn} {" ".join(names)} rest'.replace('  ', ' ')
        else:
            pat = '[' + '; '.join(names) + ']'
            call = f'op{opn} {" ".join(names)}'
        if var and npos == 0:
            g.append(f'  | {t} => Ok (op{opn} args)')
        else:
            g.append(f'  | {t} => match args with {pat} => Ok ({call}) | _ => Err PyTypeError end')
    g += ['  end.', '', 'Definition is_symmetric (g : gtype) : bool :=', '  match g with']
    for t in GTYPES:
        g.append(f'  | {t} => {"true" if reg[t][2] else "false"}')
    g += ['  end.', '', 'Definition gname (g : gtype) : string :=', '  match g with']
    for t in GTYPES:
        g.append(f'  | {t} => "{reg[t][0]}"')
    g += ['  end.', '']
    changed2 = write_if_changed('Generated/GateTypes.v', '\n'.join(g))
    return {'Generated/Operators.v': changed1, 'Generated/GateTypes.v': changed2}


if __name__ == '__main__':
    print(translate())
