"""T21 (part 3 of 4): calls.  See translator/t21_subcircuit_alg.py for the grammar and the conventions."""
import ast

from .common import fail
from .t21_expr import unify
from .t21_types import (BOOL, CIRCUIT, GATE, GLABEL, INT, LABEL, LABELS, NAT, PATOPS, ST, TRI, TL, Val, Var, atom,
                        key_eqb)

# Circuit methods -> (model function, parameters, result type); all of them can raise.
# Each is regenerated from circuit.py by T9 / T10 and proved equal to the model function there.
CIRCUIT_METHODS = {
    'get_gate': ('get_gate', ['label'], GATE),
    'get_gate_users': ('get_gate_users', ['label'], LABELS),
    'evaluate_full_circuit': ('evaluate_full_circuit', ['assignment'], ('dict', LABEL, ST, None)),
}


class CallMixin:
    def plain_args(self, node, n, what):
        if node.keywords or len(node.args) != n or any(isinstance(a, ast.Starred) for a in node.args):
            fail(node, f'{what} takes {n} positional argument(s)')
        return node.args

    def call(self, node, env, pre):
        f = node.func
        if isinstance(f, ast.Name):
            if f.id in env and env[f.id].fn is not None:
                return self.call_fn(env[f.id].fn, node, env, pre)
            if f.id in env or f.id in self.local_names:
                fail(node, f'call of the local variable {f.id!r}')
            if f.id in self.m.shadowed_builtins:
                fail(node, f'{f.id!r} is rebound in the module')
            return self.call_named(f.id, node, env, pre)
        if isinstance(f, ast.Attribute):
            return self.call_attr(f, node, env, pre)
        fail(node, 'call outside grammar')

    # ------------------------------------------------------------ builtins and module-level functions
    def call_named(self, name, node, env, pre):
        m = self.m
        if name == 'len':
            (a,) = self.plain_args(node, 1, 'len')
            v = self.expr(a, env, pre)
            if not (isinstance(v.ty, tuple) and v.ty[0] in ('list', 'set')):
                fail(node, 'len of something that is not a list / tuple / set')
            return Val(f'(py_len {atom(v.code)})', NAT)
        if name == 'range':
            if node.keywords or len(node.args) not in (1, 2):
                fail(node, 'range takes one or two arguments')
            vs = [self.expr(a, env, pre) for a in node.args]
            if any(v.ty != NAT for v in vs):
                fail(node, 'range over something that is not a non-negative int')
            if len(vs) == 1:
                return Val(f'(nrange {atom(vs[0].code)})', TL(NAT))
            return Val(f'(py_range {atom(vs[0].code)} {atom(vs[1].code)})', TL(NAT))
        if name == 'enumerate':
            (a,) = self.plain_args(node, 1, 'enumerate')
            v = self.iterable(a, env, pre)
            return Val(f'(py_enumerate {atom(v.code)})', TL(('pair', NAT, v.ty[1])))
        if name in ('list', 'tuple'):
            if not node.args and not node.keywords and name == 'list':
                return Val('[]', TL(None))
            (a,) = self.plain_args(node, 1, name)
            return self.iterable(a, env, pre)
        if name == 'set':
            if not node.args and not node.keywords:
                return Val('[]', ('set', None))
            (a,) = self.plain_args(node, 1, 'set')
            v = self.iterable(a, env, pre)
            if v.ty[1] not in (LABEL, GLABEL):
                fail(node, 'only sets of strings are modelled')
            return Val(f'(py_set_of_list {atom(v.code)})', ('set', LABEL))
        if name == 'sorted':
            return self.sorted_(node, env, pre)
        if name == 'bool':
            (a,) = self.plain_args(node, 1, 'bool')
            v = self.expr(a, env, pre)
            return Val(self.truthy(v, pre, node), BOOL)
        if name == 'int':
            (a,) = self.plain_args(node, 1, 'int')
            v = self.expr(a, env, pre)
            if v.ty == ST:
                return Val(self.hoist(pre, f'py_int_of_state {atom(v.code)}'), NAT)
            if v.ty == NAT:
                return v
            fail(node, f'int() of type {v.ty} outside grammar')
        if name == 'str':
            (a,) = self.plain_args(node, 1, 'str')
            v = self.expr(a, env, pre)
            if v.ty == NAT:
                return Val(f'(py_str_of_N {atom(v.code)})', LABEL)
            if v.ty == LABEL:
                return v
            fail(node, f'str() of type {v.ty} outside grammar')
        if name in self.u.records and m.is_local_class(name):
            return self.construct(name, node, env, pre)
        if name == self.u.patops_class and m.is_local_class(name):
            (a,) = self.plain_args(node, 1, name)
            v = self.expr(a, env, pre)
            if v.ty != NAT:
                fail(node, 'number of inputs must be an int')
            return Val(f'(max_pattern {atom(v.code)})', PATOPS)
        if name == self.u.inputs_tt_fn and m.is_local_function(name):
            (a,) = self.plain_args(node, 1, name)
            v = self.expr(a, env, pre)
            if v.ty != NAT:
                fail(node, 'size must be an int')
            return Val(f'(generate_inputs_tt {atom(v.code)})', TL(NAT))
        fn = self.u.module_function(name, node)
        if fn is not None:
            return self.call_fn(fn, node, env, pre)
        fail(node, f'call of {name!r} outside grammar')

    def sorted_(self, node, env, pre):
        if len(node.args) != 1 or any(k.arg != 'key' for k in node.keywords) or len(node.keywords) > 1:
            fail(node, 'sorted(xs) / sorted(xs, key=lambda ..) only')
        if not node.keywords:
            v = self.expr(node.args[0], env, pre)
            # the sorted list of the elements of a set does not depend on its iteration order
            if isinstance(v.ty, tuple) and v.ty[0] in ('list', 'set') and v.ty[1] == LABEL:
                return Val(f'(py_sorted_strs {atom(v.code)})', LABELS)
            fail(node, 'sorted() without key: strings only')
        xs = self.iterable(node.args[0], env, pre)
        x = Val(self.hoist(pre, xs.code, raises=False), xs.ty)
        ks = self.lambda_keys(node.keywords[0].value, x, env, pre)
        return Val(f'(py_sort_keyed {atom(ks)} {x.code})', xs.ty)

    # ------------------------------------------------------------ attribute calls
    def call_attr(self, f, node, env, pre):
        m = self.m
        recv = f.value
        # module functions
        if isinstance(recv, ast.Name) and recv.id not in env and recv.id not in self.local_names:
            mod = recv.id
            if mod == 'tp' and m.is_module('tp', 'typing') and f.attr == 'cast':
                a = self.plain_args(node, 2, 'tp.cast')
                return self.expr(a[1], env, pre)
            if mod == 'collections' and m.is_module('collections', 'collections'):
                if f.attr == 'defaultdict':
                    (a,) = self.plain_args(node, 1, 'collections.defaultdict')
                    if not isinstance(a, ast.Name):
                        fail(node, 'defaultdict factory outside grammar')
                    if a.id in ('int', 'bool', 'set', 'list') and a.id not in m.shadowed_builtins:
                        vty = {'int': NAT, 'bool': BOOL, 'set': ('set', None), 'list': TL(None)}[a.id]
                    elif a.id == 'Label' and m.is_label('Label'):
                        vty = LABEL
                    else:
                        fail(node, 'defaultdict factory outside grammar')
                    return Val('[]', ('dict', None, vty, self.default_of(vty, node)))
                if f.attr == 'deque':
                    self.plain_args(node, 0, 'collections.deque')
                    return Val('[]', TL(None))
            if mod == 'itertools' and m.is_module('itertools', 'itertools') and f.attr == 'product':
                if len(node.args) != 1 or len(node.keywords) != 1 or node.keywords[0].arg != 'repeat':
                    fail(node, 'itertools.product(xs, repeat=n) only')
                xs = self.iterable(node.args[0], env, pre)
                n = self.expr(node.keywords[0].value, env, pre)
                if n.ty != NAT:
                    fail(node, 'repeat= must be an int')
                return Val(f'(py_product {atom(xs.code)} {atom(n.code)})', TL(xs.ty))
            if mod == 'more_itertools' and m.is_module('more_itertools', 'more_itertools') and f.attr == 'powerset':
                (a,) = self.plain_args(node, 1, 'more_itertools.powerset')
                xs = self.iterable(a, env, pre)
                return Val(f'(py_powerset {atom(xs.code)})', TL(xs.ty))
            fail(node, f'call of {mod}.{f.attr} outside grammar')
        # ''.join(xs)
        if f.attr == 'join' and isinstance(recv, ast.Constant) and isinstance(recv.value, str):
            (a,) = self.plain_args(node, 1, 'join')
            xs = self.iterable(a, env, pre)
            if xs.ty[1] != LABEL:
                fail(node, 'join of something that is not a sequence of strings')
            sep = self.expr(recv, env, pre)
            return Val(f'(py_join {sep.code} {atom(xs.code)})', LABEL)
        # stateful list methods in expression position: x.pop() / x.popleft()
        if f.attr in ('pop', 'popleft') and isinstance(recv, ast.Name) and recv.id in env:
            var = env[recv.id]
            if not (isinstance(var.ty, tuple) and var.ty[0] == 'list') or node.args or node.keywords:
                fail(node, f'.{f.attr}() outside grammar')
            if self.root.nostate:
                fail(node, f'.{f.attr}() inside a comprehension / lambda')
            self.check_mutable(recv.id, node)
            t = self.fresh()
            pre.append(f"do ({t}, {var.code}) <- py_{f.attr} {var.code};")
            return Val(t, var.ty[1])
        v = self.expr(recv, env, pre)
        if v.ty == CIRCUIT:
            if f.attr == 'top_sort':
                if node.args or len(node.keywords) != 1 or node.keywords[0].arg != 'inverse' \
                        or not (isinstance(node.keywords[0].value, ast.Constant)
                                and isinstance(node.keywords[0].value.value, bool)):
                    fail(node, 'top_sort(inverse=<bool constant>) only')
                b = 'true' if node.keywords[0].value.value else 'false'
                return Val(self.hoist(pre, f'top_sort {b} {atom(v.code)}'), TL(GLABEL))
            if f.attr in CIRCUIT_METHODS:
                model, params, rty = CIRCUIT_METHODS[f.attr]
                args = self.place_args(node, params, {}, f'Circuit.{f.attr}')
                codes = []
                for a in args:
                    av = self.expr(a, env, pre)
                    codes.append(atom(av.code))
                return Val(self.hoist(pre, f'{model} {atom(v.code)} ' + ' '.join(codes)), rty)
            fail(node, f'Circuit.{f.attr} outside grammar')
        if v.ty == PATOPS and f.attr == self.u.eval_pattern_name:
            a = self.plain_args(node, 2, 'eval_pattern')
            ops = self.expr(a[0], env, pre)
            name = self.expr(a[1], env, pre)
            if ops.ty != TL(NAT) or name.ty != LABEL:
                fail(node, 'eval_pattern(<list of ints>, <str>)')
            return Val(self.hoist(pre, f'eval_pattern_str {atom(v.code)} {atom(ops.code)} {atom(name.code)}'), NAT)
        if isinstance(v.ty, tuple) and v.ty[0] == 'obj':
            fn = self.u.method(v.ty[1], f.attr, node)
            return self.call_fn(fn, node, env, pre, self_code=v.code)
        fail(node, f'method call .{f.attr} on type {v.ty} outside grammar')

    # ------------------------------------------------------------ translated functions, closures, constructors
    @staticmethod
    def place_args(node, params, defaults, what):
        """positional and keyword arguments in parameter order; a missing argument is None (use the default)"""
        if any(isinstance(a, ast.Starred) for a in node.args) or any(k.arg is None for k in node.keywords):
            fail(node, f'{what}: * / ** arguments')
        if len(node.args) > len(params):
            fail(node, f'{what}: too many arguments')
        out = list(node.args) + [None] * (len(params) - len(node.args))
        for k in node.keywords:
            if k.arg not in params:
                fail(node, f'{what}: unknown keyword {k.arg}')
            i = params.index(k.arg)
            if out[i] is not None:
                fail(node, f'{what}: argument {k.arg} given twice')
            out[i] = k.value
        for p, a in zip(params, out):
            if a is None and p not in defaults:
                fail(node, f'{what}: missing argument {p}')
        return out

    def call_fn(self, fn, node, env, pre, self_code=None):
        params = [p for p, _ in fn.params]
        args = self.place_args(node, params, fn.defaults, fn.coqname)
        codes = [f for f in fn.fuels]
        for c in fn.captures:
            if c not in env:
                fail(node, f'captured variable {c!r} is not bound at this call')
            codes.append(atom(env[c].code))
        if self_code is not None:
            codes.append(atom(self_code))
        for (p, ty), a in zip(fn.params, args):
            if a is None:
                codes.append(fn.defaults[p])
                continue
            v = self.expr(a, env, pre)
            if isinstance(ty, tuple) and ty[0] == 'opt' and not (isinstance(v.ty, tuple) and v.ty[0] == 'opt'):
                unify(ty[1], v.ty, node)
                codes.append(f'(Some {atom(v.code)})')
            else:
                unify(ty, v.ty, node)
                codes.append(atom(v.code))
        code = fn.coqname + ''.join(' ' + c for c in codes)
        if fn.raises:
            return Val(self.hoist(pre, code), fn.ret)
        return Val(f'({code})', fn.ret)

    def construct(self, cname, node, env, pre):
        rec = self.u.records[cname]
        return self.call_fn(rec.ctor, node, env, pre)
