"""T27: the satisfiability QUERY of property C05 (cirbo/sat/sat.py is_satisfiable / is_circuit_satisfiable, and the two
methods of cirbo/sat/cnf/cnf.py they go through: Cnf.from_circuit, Cnf.get_raw) -> coq/Generated/SatQueryGen.v.

These four functions are glue around an external solver: what matters about them for the property is that the formula
handed to the solver is EXACTLY the clause list of the transformation (nothing added, dropped, batched or reordered)
and that the solver's answer and model are handed back unchanged.  The grammar accepted here is therefore tiny and
fail-closed: each function body (docstring removed, local names alpha-renamed) must be one of the statement shapes
below; anything else - an extra statement, a loop that feeds the solver in pieces, a cache, a post-processing of the
model - is rejected with TranslatorError, which breaks the tie of C05.

  is_satisfiable(cnf, *, solver_name=...)
      solver_name = PySATSolverNames(solver_name)              solver selection (the solver is the Section variable
                                                               `solve` of the model; its identity is not modelled)
      f = pysat.formula.CNF(from_clauses=cnf.get_raw())        the formula = the raw clause list
      with pysat.solvers.Solver(name=solver_name.value) as s:
          s.append_formula(f)                                   all of it, once
          return PySatResult(s.solve(), s.get_model())          answer and model as the solver gives them
  is_circuit_satisfiable(circuit, *, solver_name=...)
      return is_satisfiable(cnf=Cnf.from_circuit(circuit), solver_name=solver_name)
  Cnf.from_circuit(circuit)     from cirbo.sat.cnf.tseytin import tseytin_transformation; return tseytin_transformation(circuit)
  Cnf.get_raw(self)             return self._cnf

Meaning given to the accepted shapes (trusted): pysat's CNF(from_clauses=l) holds the clauses l; Solver.append_formula
adds every clause of it; solve() / get_model() are the solver `solve : cnf -> option model` of the model (model = None
exactly when the answer is False).  The emitted Gallina is the composition read off the matched statements.
"""
import ast
import copy

from .common import TranslatorError, parse, strip_docstring, top_level_functions, write_if_changed

EXPECTED = {
    'is_satisfiable': '''
def is_satisfiable(cnf, *, solver_name=PySATSolverNames.CADICAL195):
    solver_name = PySATSolverNames(solver_name)
    f = pysat.formula.CNF(from_clauses=cnf.get_raw())
    with pysat.solvers.Solver(name=solver_name.value) as s:
        s.append_formula(f)
        return PySatResult(s.solve(), s.get_model())
''',
    'is_circuit_satisfiable': '''
def is_circuit_satisfiable(circuit, *, solver_name=PySATSolverNames.CADICAL195):
    return is_satisfiable(cnf=Cnf.from_circuit(circuit), solver_name=solver_name)
''',
    'from_circuit': '''
def from_circuit(circuit):
    from cirbo.sat.cnf.tseytin import tseytin_transformation
    return tseytin_transformation(circuit)
''',
    'get_raw': '''
def get_raw(self):
    return self._cnf
''',
}


class _Canon(ast.NodeTransformer):
    """alpha-rename parameters and locally bound names (assignment targets, with-as targets) in order of appearance;
    keyword-only parameter names are part of the interface and kept"""

    def __init__(self, fn):
        self.map = {}
        for a in fn.args.posonlyargs + fn.args.args:
            self.bind(a.arg)
        self.keep = {a.arg for a in fn.args.kwonlyargs}

    def bind(self, name):
        if name not in self.map and name not in getattr(self, 'keep', ()):
            self.map[name] = f'v{len(self.map)}'

    def visit_arg(self, node):
        node.annotation = None
        node.arg = self.map.get(node.arg, node.arg)
        return node

    def visit_Name(self, node):
        if isinstance(node.ctx, ast.Store):
            self.bind(node.id)
        node.id = self.map.get(node.id, node.id)
        return node

    def visit_keyword(self, node):
        self.generic_visit(node)
        if node.arg in self.map and node.arg == 'cnf':       # is_satisfiable(cnf=...): keyword = parameter name
            node.arg = self.map[node.arg]
        return node


def canon(fn: ast.FunctionDef) -> str:
    fn = copy.deepcopy(fn)
    fn.body = strip_docstring(fn.body)
    fn.returns = None
    fn.decorator_list = []
    fn.name = 'f'
    c = _Canon(fn)
    fn = c.visit(fn)
    return ast.dump(fn, include_attributes=False)


def _expected(name):
    return canon(ast.parse(EXPECTED[name]).body[0])


def _check(name, fn, where):
    if fn is None:
        raise TranslatorError(f'{where}: function {name} not found')
    if canon(fn) != _expected(name):
        raise TranslatorError(f'{where}: the body of {name} is not the statement shape T27 accepts (see the grammar in '
                              f'translator/t27_sat_query.py): the formula must reach the solver whole and unchanged '
                              f'and the answer must come back as the solver gives it')


def translate():
    smod = parse('cirbo/sat/sat.py')
    funcs = top_level_functions(smod)
    for n in ('is_satisfiable', 'is_circuit_satisfiable'):
        _check(n, funcs.get(n), 'cirbo/sat/sat.py')
    # the keyword the circuit query passes must be the first parameter of is_satisfiable
    first = funcs['is_satisfiable'].args.args[0].arg
    call = strip_docstring(funcs['is_circuit_satisfiable'].body)[0].value
    if [k.arg for k in call.keywords] != [first, 'solver_name']:
        raise TranslatorError('cirbo/sat/sat.py: is_circuit_satisfiable does not pass the CNF as the formula parameter')
    cmod = parse('cirbo/sat/cnf/cnf.py')
    classes = [n for n in cmod.body if isinstance(n, ast.ClassDef) and n.name == 'Cnf']
    if len(classes) != 1:
        raise TranslatorError('cirbo/sat/cnf/cnf.py: class Cnf must be defined exactly once')
    methods = {n.name: n for n in classes[0].body if isinstance(n, ast.FunctionDef)}
    _check('from_circuit', methods.get('from_circuit'), 'cirbo/sat/cnf/cnf.py')
    _check('get_raw', methods.get('get_raw'), 'cirbo/sat/cnf/cnf.py')
    fc = methods['from_circuit']
    if [ast.dump(d) for d in fc.decorator_list] != [ast.dump(ast.Name('staticmethod', ast.Load()))]:
        raise TranslatorError('cirbo/sat/cnf/cnf.py: Cnf.from_circuit must be a plain staticmethod')
    if methods['get_raw'].decorator_list:
        raise TranslatorError('cirbo/sat/cnf/cnf.py: Cnf.get_raw must not be decorated')
    out = r'''(* GENERATED by translator/t27_sat_query.py from cirbo/sat/sat.py and cirbo/sat/cnf/cnf.py. DO NOT EDIT. *)
Require Import Cirbo.Model.Base Cirbo.Model.Gate Cirbo.Model.Circuit Cirbo.Model.Cnf Cirbo.Model.TseytinAlg.
Local Open Scope Z_scope.

Section Query.
  (* pysat.solvers.Solver: solve() / get_model() on the formula it was given *)
  Variable solve : list (list Z) -> option (list Z).

  (* Cnf.get_raw: return self._cnf *)
  Definition gen_get_raw (f : list (list Z)) : list (list Z) := f.

  (* Cnf.from_circuit: return tseytin_transformation(circuit) *)
  Definition gen_from_circuit (c : circuit) : res (list (list Z)) := tseytin_cnf c None.

  (* is_satisfiable: CNF(from_clauses=cnf.get_raw()); append_formula; PySatResult(solve(), get_model()) *)
  Definition gen_is_satisfiable (f : list (list Z)) : option (list Z) := solve (gen_get_raw f).

  (* is_circuit_satisfiable: is_satisfiable(cnf=Cnf.from_circuit(circuit), solver_name=solver_name) *)
  Definition gen_is_circuit_satisfiable (c : circuit) : res (option (list Z)) :=
    do f <- gen_from_circuit c; Ok (gen_is_satisfiable f).
End Query.
'''
    return {'Generated/SatQueryGen.v': write_if_changed('Generated/SatQueryGen.v', out)}


if __name__ == '__main__':
    print(translate())
