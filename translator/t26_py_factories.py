"""T26: the closure-building part of cirbo/core/python_function.py  ->  Generated/PyFactoriesGen.v

T11 regenerates the constructors and protocol methods of PyFunction / PyFunctionModel and leaves out what builds and
returns closures.  This translator closes that gap, statement by statement, with T11's machinery (subclassing; T11 got
three hooks - FnTr.FORBIDDEN_NODES, Stmts.st_other - and its output is byte-identical):

    PyFunction.from_int_unary_func, PyFunction.from_int_binary_func, PyFunction.from_positional,
    PyFunctionModel.from_positional, PyFunctionModel.define

A factory that builds a closure and passes it to a constructor becomes a Gallina function that takes the user's
callable and returns (in `res`) the record of the constructed object; its `func` field is the translated closure
(`let f_<name> := fun ... in <constructor call> f_<name> ...`).  The constructors, `input_to_canonical_index` and
`canonical_index_to_input` are CALLED as the gen_* of T11 (Generated/TruthTableCore.v is imported; nothing of it is
emitted again; the driver checks that everything else the bodies use is emitted by T11).

Additional grammar (on top of the header of translator/t11_truth_table.py).
  @staticmethod            a method without self: an ordinary function named gen_<Class>_<name>
  @functools.wraps(g)      on a closure, g a local callable: the identity on the behaviour of the closure (it copies
                           __name__ / __doc__ / __dict__ and sets __wrapped__, which only `inspect.signature` of the
                           closure would see; nothing translated looks at the closure's signature)
  <closure name>           as an argument of a call: the closure as a value of type Callable (closures capture only
                           variables that are never re-assigned, T11's discipline, so this is a plain function)
  assert <bool expr>       `if c then <rest> else Err PyAssertionError` (assertions enabled: no `python -O`)
  l[::-1]                  py_reversed l (= rev l);     l[:i]   py_slice_to l i (Python clamping, negative i from the end)
  d[k]                     on a Mapping: py_dict_get <equality of the key type> d k; KeyError when absent.  A Mapping is
                           the association list of its items (T11); the first item with the key answers (keys of a
                           dict are unique)
  tp.cast(Sequence[bool], x)   with x a list of TriValue cells: Python returns x unchanged.  A PyFunction's callable
                           is a function into lists of bools here, so the cast is py_cast_bools: a DontCare that is
                           still in the list is reported as GateStateError (as the hand model's tri_bool does; outside
                           the documented domain of `define`)
  Callable[[bool, Unpack[Ts]], R]   (FunctionTypeTs / FunctionModelTypeTs) a callable with positional parameters:
                           TWO parameters of the generated function: its behaviour on the LIST of the positional
                           arguments `v_<name> : list bool -> res R` (`f(*args)` is `v_<name> v_args`; a wrong number of
                           arguments is the callable's own TypeError) and what `inspect.signature(<name>)` reports,
                           `v_<name>__signature : list param_kind` - the kinds of its parameters in order.  This is an
                           EXPLICIT MODELLING PARAMETER: Python reads it off the function object.
  inspect.signature(f)     of such a parameter f: v_f__signature; `.parameters` is the ordered mapping of the
                           parameters (only len(.) and .values() are translated); a Parameter is its kind (only `.kind`
                           and the class constants `.POSITIONAL_ONLY`, ... are read); `!=` on kinds is param_kind_eqb
  raise X(f"...{a}...")    an f-string argument whose fields are local names / attributes of them (str() of a function
                           or of an enum member does not raise)
  BadCallableError         has no constructor in Base.err: PyTypeError (alias, as BadBooleanValue -> BadDefinitionError
                           in T11).  No other translated statement of these functions raises PyTypeError.
"""
import ast
import copy

from .common import TranslatorError, fail, write_if_changed
from . import t11_truth_table as t11
from .t11_truth_table import BOOL, INT, TRI, TL, Val, Var, paren, ind, seq, PF

OUT = 'Generated/PyFactoriesGen.v'

COVERED = [
    (PF, 'PyFunction.from_int_unary_func'), (PF, 'PyFunction.from_int_binary_func'),
    (PF, 'PyFunction.from_positional'),
    (PF, 'PyFunctionModel.from_positional'), (PF, 'PyFunctionModel.define'),
]

ERR_ALIAS = dict(t11.ERR_ALIAS)
ERR_ALIAS['BadCallableError'] = 'PyTypeError'

SIG, PARAMS, PARAM, PKIND = 'signature', 'sigparams', 'parameter', 'pkind'
t11.EXTRA_TY[SIG] = ('list param_kind', 'eqb_not_translated')
t11.EXTRA_TY[PARAMS] = ('list param_kind', 'eqb_not_translated')
t11.EXTRA_TY[PARAM] = ('param_kind', 'eqb_not_translated')
t11.EXTRA_TY[PKIND] = ('param_kind', 'param_kind_eqb')
KINDS = ('POSITIONAL_ONLY', 'POSITIONAL_OR_KEYWORD', 'VAR_POSITIONAL', 'KEYWORD_ONLY', 'VAR_KEYWORD')
TYPING_MODULES = ('typing', 'typing_extensions')

HEADER = '''(* GENERATED by translator/t26_py_factories.py from cirbo/core/python_function.py (the static factories of PyFunction /
   PyFunctionModel and PyFunctionModel.define, which build and return closures).  DO NOT EDIT.
   Proofs/PyFactoriesGen.v proves every gen_<name> equal to the hand model Model/FuncProto.v.

   Conventions (see the headers of translator/t26_py_factories.py and translator/t11_truth_table.py):
   - a factory takes the user's callable as a Gallina function into `res` and returns the record of the constructed
     object; the `func` field is the translated closure.  gen_PyFunction___init__, gen_PyFunctionModel___init__,
     gen_input_to_canonical_index, gen_canonical_index_to_input are the functions regenerated by T11;
   - functools.wraps is the identity on the behaviour of the closure it decorates; assertions are enabled;
   - a callable with positional parameters (from_positional) is TWO parameters: its behaviour on the list of the
     positional arguments and `<name>__signature`, the parameter kinds inspect.signature reports (an explicit
     modelling parameter); BadCallableError is PyTypeError (Base.err has no constructor for it);
   - tp.cast(Sequence[bool], <TriValue cells>) is py_cast_bools (a remaining DontCare: GateStateError). *)
Require Import Cirbo.Model.Base Cirbo.Model.Eval Cirbo.Model.FuncProto Cirbo.Generated.TruthTableCore.

(* ---- fixed prelude (not derived from the source) ---- *)
Definition py_reversed {A} (l : list A) : list A := rev l.                       (* l[::-1] *)
Definition py_slice_to {A} (l : list A) (i : Z) : list A :=                     (* l[:i] *)
  firstn (Z.to_nat (Z.max 0 (py_pos (py_len l) i))) l.
Definition pair_eqb {A B} (ea : A -> A -> bool) (eb : B -> B -> bool) (p q : A * B) : bool :=
  ea (fst p) (fst q) && eb (snd p) (snd q).
Fixpoint py_dict_get {K V} (eqb : K -> K -> bool) (d : list (K * V)) (k : K) : res V :=      (* d[k] *)
  match d with
  | [] => Err PyKeyError
  | (k', v) :: d' => if eqb k k' then Ok v else py_dict_get eqb d' k
  end.
Definition py_cast_bools (l : list tri) : res (list bool) :=
  mapM (fun c => match c with Def b => Ok b | DontCare => Err GateStateError end) l.
(* inspect.Parameter.kind *)
Inductive param_kind : Type := POSITIONAL_ONLY | POSITIONAL_OR_KEYWORD | VAR_POSITIONAL | KEYWORD_ONLY | VAR_KEYWORD.
Definition param_kind_eqb (a b : param_kind) : bool :=
  match a, b with
  | POSITIONAL_ONLY, POSITIONAL_ONLY | POSITIONAL_OR_KEYWORD, POSITIONAL_OR_KEYWORD
  | VAR_POSITIONAL, VAR_POSITIONAL | KEYWORD_ONLY, KEYWORD_ONLY | VAR_KEYWORD, VAR_KEYWORD => true
  | _, _ => false
  end.

(* ---- generated from the source ---- *)
'''


def undecorated(node):
    n = copy.copy(node)
    n.decorator_list = []
    return n


def key_eqb(t, node):
    if isinstance(t, tuple) and t[0] == 'tuple' and len(t[1]) == 2:
        return f'(pair_eqb {key_eqb(t[1][0], node)} {key_eqb(t[1][1], node)})'
    return t11.eqb_of(t, node)


# ---------------------------------------------------------------------------------------------- the unit
class FacUnit(t11.Unit):
    def __init__(self):
        super().__init__()
        self.mine = set()           # id of the (undecorated) nodes translated by FacTr

    def is_covered(self, mod, node, cls):
        return cls is not None and (mod.dotted, cls.name + '.' + node.name) in COVERED

    def is_static(self, mod, node):
        d = node.decorator_list
        return len(d) == 1 and isinstance(d[0], ast.Name) and d[0].id == 'staticmethod' \
            and 'staticmethod' not in mod.bind

    def make_tr(self, mod, node, cls, coqname, inst, outer=None):
        if outer is not None and isinstance(outer, FacTr):
            return FacTr(self, mod, node, cls, coqname, inst, outer=outer)
        if outer is None and self.is_covered(mod, node, cls):
            if inst:
                fail(node, 'a factory instantiated at another cell type')
            if self.is_static(mod, node):
                return FacTr(self, mod, undecorated(node), None, coqname, inst)
            return FacTr(self, mod, node, cls, coqname, inst)
        return super().make_tr(mod, node, cls, coqname, inst, outer=outer)

    def exception_kind(self, mod, node):
        target = node.func if isinstance(node, ast.Call) else node
        if isinstance(node, ast.Call):
            for a in list(node.args) + [k.value for k in node.keywords]:
                if isinstance(a, ast.Constant) and isinstance(a.value, str):
                    continue
                if not isinstance(a, ast.JoinedStr):
                    fail(node, 'exception arguments must be string constants / f-strings of local names')
                for part in a.values:
                    if isinstance(part, ast.Constant) and isinstance(part.value, str):
                        continue
                    v = part.value if isinstance(part, ast.FormattedValue) else None
                    if isinstance(v, ast.Attribute):
                        v = v.value
                    if not (isinstance(part, ast.FormattedValue) and part.format_spec is None and part.conversion == -1
                            and isinstance(v, ast.Name)):
                        fail(node, 'f-string field that is not a local name / an attribute of one')
        if not isinstance(target, ast.Name):
            fail(node, 'raise of something that is not a named exception class')
        r = self.resolve(mod, target.id, node)
        if r is None or r[0] != 'class' or r[1].dotted not in t11.EXC_MODULES:
            fail(node, f'{target.id} is not an exception class of cirbo.core.exceptions')
        name = ERR_ALIAS.get(r[2].name, r[2].name)
        if name not in self.errs:
            fail(node, f'exception {name} has no constructor in Base.err')
        return name

    # ---- Callable[[bool, Unpack[Ts]], R]
    def variadic_callable(self, node, mod, depth=0):
        """-> the result type R when the annotation is a callable with positional bool parameters, else None"""
        if node is None or depth > 3:
            return None
        if isinstance(node, ast.Name):
            r = self.resolve(mod, node.id, node)
            if r is not None and r[0] == 'assign':
                return self.variadic_callable(r[2], r[1], depth + 1)
            return None
        if not (isinstance(node, ast.Subscript) and self.typing_head(node.value, mod) == 'Callable'):
            return None
        sl = node.slice
        if not (isinstance(sl, ast.Tuple) and len(sl.elts) == 2 and isinstance(sl.elts[0], ast.List)):
            return None
        ps = sl.elts[0].elts
        if not any(isinstance(p, ast.Subscript) and isinstance(p.value, ast.Attribute) and p.value.attr == 'Unpack'
                   for p in ps):
            return None
        if len(ps) != 2 or self.ann(ps[0], mod, []) != BOOL:
            fail(node, 'Callable[[bool, Unpack[Ts]], R] expected')
        u = ps[1]
        ok = isinstance(u.value.value, ast.Name) and self.resolve(mod, u.value.value.id, u) in \
            [('module', m) for m in TYPING_MODULES] and isinstance(u.slice, ast.Name)
        if ok:
            r = self.resolve(mod, u.slice.id, u)
            c = r[2] if r is not None and r[0] == 'assign' else None
            ok = isinstance(c, ast.Call) and isinstance(c.func, ast.Attribute) and c.func.attr == 'TypeVarTuple' \
                and isinstance(c.func.value, ast.Name) \
                and self.resolve(r[1], c.func.value.id, c) in [('module', m) for m in TYPING_MODULES]
        if not ok:
            fail(node, 'Unpack[...] of something that is not a TypeVarTuple')
        return self.ann(sl.elts[1], mod, [])


# ---------------------------------------------------------------------------------------------- one definition
class FacTr(t11.FnTr):            # t11.FnTr is the full translator (FnTr + Stmts + Exprs)
    FORBIDDEN_NODES = tuple(c for c in t11.FnTr.FORBIDDEN_NODES if c is not ast.Assert)

    def __init__(self, unit, mod, node, cls, coqname, inst, outer=None):
        self.wraps = None
        if outer is not None and node.decorator_list:
            d = node.decorator_list
            ok = len(d) == 1 and isinstance(d[0], ast.Call) and isinstance(d[0].func, ast.Attribute) \
                and d[0].func.attr == 'wraps' and isinstance(d[0].func.value, ast.Name) \
                and unit.resolve(mod, d[0].func.value.id, node) == ('module', 'functools') \
                and len(d[0].args) == 1 and not d[0].keywords and isinstance(d[0].args[0], ast.Name)
            if not ok:
                fail(node, 'closure decorator other than @functools.wraps(<local callable>)')
            self.wraps = d[0].args[0].id
            node = undecorated(node)
        super().__init__(unit, mod, node, cls, coqname, dict(inst), outer=outer)
        self.variadic = {}          # parameter name -> code of its signature

    def root(self):
        tr = self
        while tr.outer is not None:
            tr = tr.outer
        return tr

    # ---- signature: a callable with positional parameters is two parameters
    def signature(self):
        a = self.node.args
        params = list(a.args) + list(a.kwonlyargs)
        if self.cls is not None:
            params = params[1:]
        var = {}
        for i, p in enumerate(params):
            r = self.u.variadic_callable(p.annotation, self.mod) if i not in self.inst else None
            if r is not None:
                self.inst[i] = ('fun', (TL(BOOL),), r)
                var[p.arg] = i
        env = super().signature()
        fn = self.fn
        for name in var:
            k = [n for n, _, _ in fn.params].index(name)
            fn.params.insert(k + 1, (name + '__signature', SIG, None))
            self.variadic[name] = 'v_' + name + '__signature'
        return env

    def translate_closure(self, outer_env):
        if self.wraps is not None:
            w = outer_env.get(self.wraps)
            if w is None or not (isinstance(w.ty, tuple) and w.ty[0] == 'fun') or self.wraps in self.outer.mutated \
                    or self.outer.store_count.get(self.wraps, 0) > (0 if w.kind == 'param' else 1):
                fail(self.node, '@functools.wraps of something that is not a local callable')
        return super().translate_closure(outer_env)

    # ---- statements
    def st_other(self, s, env, ctx, cont):
        if isinstance(s, ast.Assert):
            if s.msg is not None:
                fail(s, 'assert with a message')
            pre = []
            c = self.pexpr(s.test, env, pre)
            if c.ty != BOOL:
                fail(s, 'assert of a value that is not a bool')
            return seq(pre, f'if {c.code} then\n{ind(cont(env))}\nelse\n  Err PyAssertionError')
        return super().st_other(s, env, ctx, cont)

    # ---- expressions
    def expr(self, node, env, pre, alias_ok=False, want_name=None):
        if isinstance(node, ast.Name) and node.id in env and env[node.id].kind == 'closure':
            fn = env[node.id].ty[1]
            if fn.ret_ty is None:
                fail(node, 'a closure of unknown result type used as a value')
            return Val(env[node.id].code, ('fun', tuple(t for _, t, _ in fn.params), fn.ret_ty))
        return super().expr(node, env, pre, alias_ok, want_name)

    def local_of_type(self, node, env, ty):
        return isinstance(node, ast.Name) and node.id in env and env[node.id].kind in ('local', 'param') \
            and env[node.id].ty == ty

    def attribute(self, node, env, pre):
        if self.local_of_type(node.value, env, SIG) and node.attr == 'parameters':
            return Val(env[node.value.id].code, PARAMS)
        if self.local_of_type(node.value, env, PARAM):
            if node.attr == 'kind':
                return Val(env[node.value.id].code, PKIND)
            if node.attr in KINDS:
                return Val(node.attr, PKIND)
            fail(node, f'attribute {node.attr} of an inspect.Parameter')
        return super().attribute(node, env, pre)

    def subscript(self, node, env, pre):
        sl = node.slice
        if isinstance(sl, ast.Slice):
            minus_one = isinstance(sl.step, ast.UnaryOp) and isinstance(sl.step.op, ast.USub) \
                and isinstance(sl.step.operand, ast.Constant) and type(sl.step.operand.value) is int \
                and sl.step.operand.value == 1
            if sl.lower is None and sl.upper is None and minus_one:
                a = self.pexpr(node.value, env, pre, alias_ok=True)
                if not (isinstance(a.ty, tuple) and a.ty[0] == 'list'):
                    fail(node, 'x[::-1] of a value that is not a list')
                return Val(f'py_reversed {paren(a.code)}', a.ty, False, 1)
            if sl.lower is None and sl.upper is not None and sl.step is None:
                a = self.pexpr(node.value, env, pre, alias_ok=True)
                i = self.pexpr(sl.upper, env, pre)
                if i.ty != INT or not (isinstance(a.ty, tuple) and a.ty[0] == 'list'):
                    fail(node, 'x[:i]: list / int expected')
                return Val(f'py_slice_to {paren(a.code)} {paren(i.code)}', a.ty, False, 1)
            return super().subscript(node, env, pre)
        if isinstance(node.value, ast.Name) and node.value.id in env and isinstance(env[node.value.id].ty, tuple) \
                and env[node.value.id].ty[0] == 'map':
            d = self.pexpr(node.value, env, pre)
            k = self.pexpr(sl, env, pre)
            if not t11.same_ty(k.ty, d.ty[1]) or k.ty is None:
                fail(node, f'key of type {k.ty} for a mapping with keys {d.ty[1]}')
            return Val(f'py_dict_get {key_eqb(d.ty[1], node)} {paren(d.code)} {paren(k.code)}', d.ty[2], True)
        return super().subscript(node, env, pre)

    def call(self, node, env, pre, want_name=None):
        f = node.func
        if isinstance(f, ast.Name) and f.id in env and f.id in self.root().variadic:
            # f(*args) on a callable with positional parameters
            if node.keywords or len(node.args) != 1 or not isinstance(node.args[0], ast.Starred):
                fail(node, 'a callable with positional parameters is called as f(*args)')
            var = env[f.id]
            a = self.pexpr(node.args[0].value, env, pre, alias_ok=True)
            if a.ty != TL(BOOL):
                fail(node, 'f(*args): args must be a sequence of bools')
            return Val(f'{var.code} {paren(a.code)}', var.ty[2], True)
        if isinstance(f, ast.Attribute):
            m = self.ext_module(f.value, env)
            if m == 'inspect' and f.attr == 'signature':
                ok = len(node.args) == 1 and not node.keywords and isinstance(node.args[0], ast.Name) \
                    and node.args[0].id in env and node.args[0].id in self.root().variadic
                if not ok:
                    fail(node, 'inspect.signature of something that is not a callable parameter with positional parameters')
                return Val(self.root().variadic[node.args[0].id], SIG)
            if m == 'typing' and f.attr == 'cast' and len(node.args) == 2 and not node.keywords:
                want = self.u.ann(node.args[0], self.mod, [])
                v = self.expr(node.args[1], env, pre, alias_ok=self.ret_pos)
                if want == TL(BOOL) and v.ty == TL(TRI):
                    v = self.pure(v, pre)
                    return Val(f'py_cast_bools {paren(v.code)}', TL(BOOL), True, 1)
                return v
            if m is None and f.attr == 'values' and not node.args and not node.keywords:
                p2 = []
                a = self.pexpr(f.value, env, p2)
                if a.ty == PARAMS:
                    pre.extend(p2)
                    return Val(a.code, TL(PARAM))
                fail(node, '.values() of something that is not the parameters of a signature')
        return super().call(node, env, pre, want_name)

    def builtin(self, node, name, env, pre):
        if name == 'len' and len(node.args) == 1 and not node.keywords and isinstance(node.args[0], ast.Attribute) \
                and node.args[0].attr == 'parameters':
            a = self.pexpr(node.args[0], env, pre)
            if a.ty != PARAMS:
                fail(node, 'len of .parameters of something that is not a signature')
            return Val(f'py_len {paren(a.code)}', INT)
        return super().builtin(node, name, env, pre)


# ---------------------------------------------------------------------------------------------- driver
def generate():
    u = FacUnit()
    keys = []
    for dotted, qual in COVERED:
        mod = u.mod(dotted)
        cname, mname = qual.split('.')
        r = u.resolve(mod, cname)
        if r is None or r[0] != 'class' or r[1] is not mod:
            raise TranslatorError(f'class {cname} not found in {dotted}')
        cls = u.classinfo(mod, r[2])
        u.function(mod, cls.method(mname, r[2]), cls)
        keys.append((dotted, qual, ''))
    shared = {(m, q) for m, q in t11.COVERED}
    parts = [HEADER]
    emitted = []
    for kind, item in u.items:
        if kind == 'record':
            continue                # records of classes whose __init__ T11 emits (checked through the fn items)
        key = [k for k, fn in u.done.items() if fn is item]
        if len(key) != 1:
            raise TranslatorError(f'internal: {item.coqname}')
        if key[0] in keys:
            parts.append(item.text)
            emitted.append(key[0])
        elif (key[0][0], key[0][1]) in shared and not key[0][2]:
            continue                # emitted by T11 into Generated/TruthTableCore.v
        else:
            raise TranslatorError(f'{item.coqname}: neither a factory nor a function emitted by T11')
    if emitted != keys:
        raise TranslatorError('internal: not every factory was emitted')
    for (m, c), info in u.classes.items():
        if info.fields is not None and (m, c + '.__init__') not in shared:
            raise TranslatorError(f'class {c}: its record is not emitted by T11')
    return '\n'.join(p.rstrip('\n') + '\n' for p in parts)


def translate():
    return {OUT: write_if_changed(OUT, generate())}


if __name__ == '__main__':
    print(generate())
