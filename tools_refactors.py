#!/usr/bin/env python3
"""Run the checks against HARMLESS refactorings kept under /verif/refactors/<id>/ (patch.diff, equiv.py, meta.json):
scratch worktree of /repo HEAD, apply, pinned test suite, equiv.py digest on both trees, `./check <prop> --tier quick`
with CIRBO_REPO=<scratch>.  Outcome per refactoring: 'pass' (exit 0), 'broken tie' (VIOLATION ... no-failing-input-found:
allowed by the brief for a harmless rewrite) or 'FALSE ALARM' (a VIOLATION with a failing input: the machinery is wrong).
Results go to refactors/RESULTS.json.   usage: tools_refactors.py [id ...]"""
import json
import os
import pathlib
import re
import subprocess
import sys
import time

VERIF = pathlib.Path(__file__).resolve().parent
SCRATCH = pathlib.Path('/tmp/verif-refactors')


def sh(cmd, **kw):
    return subprocess.run(cmd, capture_output=True, text=True, **kw)


def run_one(d):
    meta = json.loads((d / 'meta.json').read_text())
    props = meta.get('properties') or [meta['property']]
    wt = SCRATCH / d.name
    sh(['git', '-C', '/repo', 'worktree', 'remove', '--force', str(wt)])
    SCRATCH.mkdir(parents=True, exist_ok=True)
    r = sh(['git', '-C', '/repo', 'worktree', 'add', '--detach', str(wt), 'HEAD'])
    assert r.returncode == 0, r.stderr
    out = {'id': d.name, 'checks': {}}
    try:
        r = sh(['git', '-C', str(wt), 'apply', str(d / 'patch.diff')])
        if r.returncode != 0:
            out['error'] = 'patch does not apply: ' + r.stderr[:300]
            return out
        t = sh(['/venv/bin/python', '-m', 'pytest', '-q', '-p', 'no:cacheprovider', '--timeout=900',
                '--continue-on-collection-errors'], cwd=str(wt))
        m = re.search(r'(\d+) passed.*?(\d+) errors', t.stdout)
        out['tests'] = m.group(0) if m else t.stdout[-200:]
        if (d / 'equiv.py').exists():
            a = sh(['/venv/bin/python', str(d / 'equiv.py'), str(wt)])
            b = sh(['/venv/bin/python', str(d / 'equiv.py'), '/repo'])
            out['equiv_same_digest'] = (a.returncode == b.returncode == 0 and a.stdout == b.stdout)
        for prop in props:
            env = dict(os.environ, CIRBO_REPO=str(wt), VERIF_EVIDENCE_DIR=str(SCRATCH / 'evidence'),
                       VERIF_REPLAY_DIR=str(SCRATCH / 'replays'))
            t0 = time.time()
            r = sh([str(VERIF / 'check'), prop, '--tier', 'quick'], env=env)
            res = {'exit': r.returncode, 'wall_s': round(time.time() - t0, 1)}
            m = re.search(r'VIOLATION property=(\S+) replay=(\S+)(.*)', r.stdout)
            if not m:
                res['outcome'] = 'pass' if r.returncode == 0 else 'exit %d without VIOLATION line' % r.returncode
            elif 'no-failing-input-found' in m.group(3):
                res['outcome'] = 'broken tie'
                res['what'] = [l.strip() for l in r.stdout.splitlines() if 'no longer checks' in l][:2]
            else:
                res['outcome'] = 'FALSE ALARM'
                res['message'] = r.stdout[m.end():m.end() + 400].strip().splitlines()[:1]
            out['checks'][prop] = res
    finally:
        sh(['git', '-C', '/repo', 'worktree', 'remove', '--force', str(wt)])
        sh(['git', '-C', str(VERIF), 'checkout', '--', 'coq/Generated'])
    return out


def main():
    ids = sys.argv[1:]
    dirs = sorted(p for p in (VERIF / 'refactors').iterdir() if p.is_dir() and (p / 'patch.diff').exists()
                  and (not ids or p.name in ids))
    rf = VERIF / 'refactors' / 'RESULTS.json'
    results = json.loads(rf.read_text()) if rf.exists() else {}
    for d in dirs:
        res = run_one(d)
        results[d.name] = res
        print(json.dumps(res), flush=True)
        rf.write_text(json.dumps(results, indent=1, sort_keys=True))


if __name__ == '__main__':
    main()
