"""Correspondence and direct oracle for the Tseytin reduction (C05).

Correspondence: exact clause-list equality between the Coq model (Model/TseytinAlg.v over the
regenerated templates) and tseytin_transformation(c, outs).get_raw(), and the generated
templates against the live `_process_*` functions on literal vectors.

Oracle (the property itself, on the implementation only): for every total input assignment the
CNF plus the input units is satisfiable exactly when all selected outputs evaluate to True; every
satisfying extension gives every encoded gate its evaluated value; input i is variable i+1;
is_circuit_satisfiable answers True exactly when some assignment makes all outputs True and its
model satisfies the CNF and projects onto such an assignment.
"""
import itertools

from . import coqterm as ct
from . import evalcorr
from . import gen

HEADER = ('Require Import Cirbo.Model.Base Cirbo.Model.Gate Cirbo.Model.Circuit Cirbo.Model.History '
          'Cirbo.Model.Cnf Cirbo.Model.TseytinAlg Cirbo.Model.TseytinCases.')
CASE_TYPE = 'tseytin_case'
TEMPLATE_CASE_TYPE = 'template_case'
MAX_ENUM_AUX = 14
MAX_INPUTS = 8
SEMANTIC_KEYS = ('satisfiability', 'gate value')


# ------------------------------------------------------------------ running the implementation
def tseytin_mod():
    import cirbo.sat.cnf.tseytin as m
    return m


def run_tseytin(dump, outs, capture=False):
    """-> ('ok', raw) | ('err', name)   [+ saved_lits dict when capture]"""
    m = tseytin_mod()
    c = ct.build_circuit(dump)
    created = []
    real = getattr(m, 'collections', None)
    if real is None or not hasattr(real, 'defaultdict'):
        capture_possible = False        # the module no longer goes through collections.defaultdict: nothing to observe
    else:
        capture_possible = True
    if not capture_possible:
        try:
            raw = m.tseytin_transformation(c, None if outs is None else list(outs)).get_raw()
            r = ('ok', [list(cl) for cl in raw])
        except RecursionError:
            r = ('err', 'OutOfFuel')
        except Exception as e:  # noqa: BLE001
            r = ('err', ct.err_name(e))
        return (r, None) if capture else r

    class _DD(real.defaultdict):
        def __init__(self, *a, **k):
            super().__init__(*a, **k)
            created.append(self)

    class _Proxy:
        def __getattr__(self, n):
            return _DD if n == 'defaultdict' else getattr(real, n)
    if capture:
        m.collections = _Proxy()
    try:
        try:
            raw = m.tseytin_transformation(c, None if outs is None else list(outs)).get_raw()
            r = ('ok', [list(cl) for cl in raw])
        except RecursionError:
            # CPython's recursion limit on a cyclic netlist; the model's recursion runs out of fuel
            r = ('err', 'OutOfFuel')
        except Exception as e:  # noqa: BLE001
            r = ('err', ct.err_name(e))
    finally:
        m.collections = real
    if capture:
        saved = dict(created[0]) if len(created) == 1 else None
        labels = {g[0] for g in dump['gates']}
        if saved is not None and not all(isinstance(v, int) and not isinstance(v, bool) and v > 0 for v in saved.values()):
            saved = None                # not a label -> variable map
        if saved is not None:
            saved = {k: v for k, v in saved.items() if k in labels}     # auxiliary keys are not encoded gates
        return r, saved
    return r


# ------------------------------------------------------------------ case generation
def random_selection(rng, n_out, p_invalid=0.08):
    """the `outputs` argument: None (default) or an explicit index list"""
    r = rng.random()
    if r < 0.45:
        return None
    if n_out == 0:
        return [] if rng.random() < 0.8 else [0]
    k = rng.choice([0, 1, 1, 1, 2, 2, 3, n_out, n_out + 1])
    sel = [rng.randrange(n_out) for _ in range(k)]
    if rng.random() < p_invalid:
        sel.append(rng.choice([n_out, n_out + 3, -1, -n_out, -n_out - 1]))
        rng.shuffle(sel)
    return sel


def malform(rng, dump):
    """a netlist outside the well-formed domain: dangling operand, too few / too many operands, an INPUT gate
    missing from / repeated in the input list, a cycle (RecursionError in Python = OutOfFuel in the model)"""
    gates = [list(g) for g in dump['gates']]
    d = dict(dump)
    kind = rng.choice(['dangling', 'short', 'long', 'empty', 'hidden_input', 'dup_input', 'cycle'])
    if kind in ('hidden_input', 'dup_input'):
        if not d['inputs']:
            return dump
        i = rng.choice(d['inputs'])
        ins = list(d['inputs'])
        if kind == 'hidden_input':
            ins.remove(i)
        else:
            ins.insert(rng.randrange(len(ins) + 1), i)
        d['inputs'] = ins
        return d
    cand = [g for g in gates if g[1] != 'INPUT']
    if not cand:
        return dump
    g = rng.choice(cand)
    if kind == 'dangling':
        g[2] = list(g[2]) + ['no_such_gate']
        if rng.random() < 0.5:
            rng.shuffle(g[2])
    elif kind == 'short':
        g[2] = list(g[2])[:-1]
    elif kind == 'empty':
        g[2] = []
    elif kind == 'cycle':
        # g becomes its own (transitive) operand: through itself or through one of its users
        users = [u for u in gates if g[0] in u[2] and u[1] != 'INPUT']
        via = rng.choice(users)[0] if users and rng.random() < 0.6 else g[0]
        g[2] = list(g[2]) + [via]
        if rng.random() < 0.5:
            rng.shuffle(g[2])
    else:
        # an extra operand that cannot close a cycle: an input (or a repetition of an own operand)
        g[2] = list(g[2]) + [rng.choice(list(dump['inputs']) or list(g[2]) or ['no_such_gate'])]
    d['gates'] = [tuple(x) for x in gates]
    if not d['outputs'] or rng.random() < 0.7:
        d['outputs'] = list(d['outputs']) + [g[0]]
    return d


def fixed_corpus():
    """small circuits that every run includes: one gate of every type at every accepted arity up to 5
    (incl. repeated operands), constants with operands, outputs that are inputs"""
    out = []
    ins = ['a', 'b', 'c', 'd', 'e']

    def circ(t, ops, outs=None):
        gs = [(i, 'INPUT', []) for i in ins] + [('g', t, list(ops))]
        users = {}
        for o in ops:
            users.setdefault(o, []).append('g')
        return {'inputs': list(ins), 'outputs': outs or ['g'], 'gates': gs,
                'users': list(users.items()), 'blocks': []}
    for t in gen.NARY:
        for k in (2, 3, 4, 5):
            out.append(circ(t, ins[:k]))
        out.append(circ(t, ['a', 'a', 'b']))
        out.append(circ(t, ['b', 'a', 'b', 'a']))
    for t in gen.UNARY:
        out.append(circ(t, ['b']))
    for t in gen.BINARY:
        out.append(circ(t, ['b', 'd']))
        out.append(circ(t, ['c', 'c']))
    for t in gen.CONST:
        out.append(circ(t, []))
        out.append(circ(t, ['a', 'c']))
    out.append(circ('AND', ['a', 'b'], outs=['a', 'g', 'a', 'g', 'e']))
    # wide gates: 9-12 operands over 8 inputs (an encoder may treat wide parity gates specially); next to a
    # second wide gate of the complementary type so that a wrong polarity shows in the output pair
    ins8 = ['a', 'b', 'c', 'd', 'e', 'f', 'g0', 'h']

    def wide(t, t2, k):
        ops = [ins8[i % 8] for i in range(k)]
        gs = [(i, 'INPUT', []) for i in ins8] + [('g', t, list(ops)), ('k', t2, list(reversed(ops)))]
        users = {}
        for l, _, o in gs:
            for x in o:
                users.setdefault(x, []).append(l)
        return {'inputs': list(ins8), 'outputs': ['g', 'k'], 'gates': gs, 'users': list(users.items()), 'blocks': []}
    wides = [wide(t, t2, k) for t, t2 in (('XOR', 'NXOR'), ('NXOR', 'NXOR'), ('AND', 'NAND'), ('NOR', 'OR'))
             for k in (9, 10, 11, 12)]
    return [{'circuit': d, 'outs': None} for d in out] + [{'circuit': d, 'outs': [0]} for d in wides] + \
           [{'circuit': d, 'outs': [1]} for d in wides[:8]]


def _gate_choices(avail, nary_arities):
    out = []
    for t in gen.NARY:
        for k in nary_arities:
            out += [(t, list(ops)) for ops in itertools.product(avail, repeat=k)]
    for t in gen.UNARY:
        out += [(t, [o]) for o in avail]
    for t in gen.BINARY:
        out += [(t, list(ops)) for ops in itertools.product(avail, repeat=2)]
    for t in gen.CONST:
        out.append((t, []))
    return out


def exhaustive_small(two_gates):
    """ALL netlists over inputs a, b with one gate g1 (n-ary arity 2..3), or with g1 (n-ary arity 2) and
    g2 over {a, b, g1} (n-ary arity 2..3); output = the last gate"""
    ins = ['a', 'b']
    base = [(i, 'INPUT', []) for i in ins]

    def dump(gs):
        users = {}
        for l, _, ops in gs:
            for o in ops:
                users.setdefault(o, []).append(l)
        return {'inputs': list(ins), 'outputs': [gs[-1][0]], 'gates': base + gs,
                'users': list(users.items()), 'blocks': []}
    if not two_gates:
        for t, ops in _gate_choices(ins, (2, 3)):
            yield {'circuit': dump([('g1', t, ops)]), 'outs': None}
        return
    for t1, ops1 in _gate_choices(ins, (2,)):
        for t2, ops2 in _gate_choices(ins + ['g1'], (2, 3)):
            yield {'circuit': dump([('g1', t1, ops1), ('g2', t2, ops2)]), 'outs': None}


def make_case(rng, dump, outs):
    raw, saved = run_tseytin(dump, outs, capture=True)
    return {'circuit': dump, 'outs': outs, 'raw': list(raw),
            'saved': None if (saved is None or raw[0] != 'ok') else [[k, v] for k, v in saved.items()]}


def random_case(rng, p_malformed=0.08):
    dump = gen.random_circuit(rng, with_blocks=False)
    if rng.random() < p_malformed:
        dump = malform(rng, dump)
    return make_case(rng, dump, random_selection(rng, len(dump['outputs'])))


# ------------------------------------------------------------------ Coq terms
def z(n):
    return str(n) if n >= 0 else f'({n})'


def zlist(l):
    return ct.lst(z(x) for x in l) + '%Z'


def cnf_term(raw):
    # one scope delimiter for the whole nested list: numerals inside are read in Z_scope
    return ct.lst(ct.lst(z(x) for x in cl) for cl in raw) + '%Z'


def case_term(case):
    saved = ct.opt(case.get('saved'), lambda d: ct.lst(f'({ct.s(k)}, {z(v)})' for k, v in d) + '%Z')
    return (f'({ct.circuit(case["circuit"])}, {ct.opt(case["outs"], zlist)}, '
            f'{ct.res(tuple(case["raw"]), cnf_term)}, {saved})')


def template_cases(rng, n_per_template):
    """live `_process_*` functions on random literal vectors (lengths 0..6, negative and repeated literals)"""
    m = tseytin_mod()
    names = sorted(n for n in dir(m) if n.startswith('_process_') and callable(getattr(m, n)))
    cases = []
    for name in names:
        f = getattr(m, name)
        for j in range(n_per_template):
            k = j % 7 if j < 14 else rng.randint(0, 6)
            lits = [rng.choice([-1, 1]) * rng.randint(1, 9) for _ in range(k)]
            top = rng.choice([-1, 1]) * rng.randint(1, 12)
            cnf = []
            try:
                f(cnf, top, list(lits))
                r = ('ok', [list(c) for c in cnf])
            except Exception as e:  # noqa: BLE001
                r = ('err', ct.err_name(e))
            cases.append({'name': name, 'top': top, 'lits': lits, 'res': r})
    return cases


def template_case_term(tc):
    return f'({ct.s(tc["name"])}, {z(tc["top"])}%Z, {zlist(tc["lits"])}, {ct.res(tuple(tc["res"]), cnf_term)})'


# ------------------------------------------------------------------ the direct oracle
def selected_labels(dump, outs):
    if outs is not None and any((not isinstance(i, int)) or isinstance(i, bool) or i < 0 for i in outs):
        return None                     # "a selection of outputs" = positions 0 .. m-1; anything else is not promised
    return _selected_labels(dump, outs)


def _selected_labels(dump, outs):
    """labels of the selected outputs; None when the selection itself is invalid"""
    o = dump['outputs']
    if outs is None:
        return list(o)
    sel = []
    for i in outs:
        if not isinstance(i, int) or i >= len(o) or i < -len(o):
            return None
        sel.append(o[i])
    return sel


def acyclic(dump):
    gates = {k: ops for k, _, ops in dump['gates']}
    state = {}
    for root in gates:
        stack = [(root, iter(gates[root]))]
        if root in state:
            continue
        state[root] = 1
        while stack:
            l, it = stack[-1]
            nxt = next(it, None)
            if nxt is None:
                state[l] = 2
                stack.pop()
            elif nxt in gates:
                if state.get(nxt) == 1:
                    return False
                if nxt not in state:
                    state[nxt] = 1
                    stack.append((nxt, iter(gates[nxt])))
    return True


def _unit_propagate(clauses, units):
    """-> None on conflict, else dict var -> bool of everything implied"""
    val = {}
    for l in units:
        v, b = abs(l), l > 0
        if val.setdefault(v, b) != b:
            return None
    cls = []
    for c in clauses:
        c = list(dict.fromkeys(c))
        if not any(-l in c for l in c):
            cls.append(c)
    changed = True
    while changed:
        changed = False
        for c in cls:
            sat = False
            free = []
            for l in c:
                v = abs(l)
                if v in val:
                    if val[v] == (l > 0):
                        sat = True
                        break
                else:
                    free.append(l)
            if sat:
                continue
            if not free:
                return None
            if len(free) == 1:
                val[abs(free[0])] = free[0] > 0
                changed = True
    return val


def _models_by_enumeration(clauses, fixed, free_vars):
    """bit-parallel enumeration of all extensions over free_vars (<= MAX_ENUM_AUX):
    -> (mask of satisfying extensions, {var: mask where var is True}, full mask)"""
    k = len(free_vars)
    width = 1 << k
    full = (1 << width) - 1
    masks = {}
    for j, v in enumerate(free_vars):
        # bit e of the mask = value of v in extension number e  (bit j of e)
        block = (1 << (1 << j)) - 1            # 2^j ones
        period = 1 << (j + 1)
        m = 0
        for start in range(1 << j, width, period):
            m |= block << start
        masks[v] = m
    sat = full
    for c in clauses:
        cm = 0
        for l in c:
            v = abs(l)
            if v in fixed:
                if fixed[v] == (l > 0):
                    cm = full
                    break
            else:
                cm |= masks[v] if l > 0 else (full & ~masks[v])
        sat &= cm
        if not sat:
            break
    return sat, masks, full


def check_assignment(raw, nvars, n_in, asg_bits, expect_sat, expected_vals, solver=True):
    """raw + units for the inputs.  expected_vals: {var: bool} for every encoded gate.
    -> None | failure text"""
    units = [(i + 1) if b else -(i + 1) for i, b in enumerate(asg_bits)]
    fixed = {i + 1: b for i, b in enumerate(asg_bits)}
    aux = [v for v in range(n_in + 1, nvars + 1)]
    if len(aux) <= MAX_ENUM_AUX:
        sat, masks, full = _models_by_enumeration(raw, fixed, aux)
        if bool(sat) != expect_sat:
            return (f'satisfiability: CNF + input units {units} is {"SAT" if sat else "UNSAT"} '
                    f'(all {1 << len(aux)} extensions enumerated) but the selected outputs evaluate to '
                    f'{"all True" if expect_sat else "not all True"}')
        for v in aux:
            want = expected_vals.get(v)
            if want is None:
                continue
            wrong = sat & ((full & ~masks[v]) if want else masks[v])
            if wrong:
                return (f'gate value: a satisfying extension of {units} gives variable {v} the value '
                        f'{not want}, evaluation gives {want}')
        return None
    up = _unit_propagate(raw, units)
    if up is None:
        if expect_sat:
            return f'satisfiability: CNF + input units {units} is UNSAT (unit propagation) but all selected outputs are True'
        return None
    if all(v in up for v in aux):
        # every variable is forced: the unique candidate extension
        ok = all(any(up[abs(l)] == (l > 0) for l in c) for c in raw)
        if ok != expect_sat:
            return (f'satisfiability: CNF + input units {units} is {"SAT" if ok else "UNSAT"} (forced extension) '
                    f'but the selected outputs evaluate to {"all True" if expect_sat else "not all True"}')
        if ok:
            for v, want in expected_vals.items():
                if up[v] != want:
                    return f'gate value: the forced extension of {units} gives variable {v} = {up[v]}, evaluation gives {want}'
        return None
    if not solver:
        return None
    import pysat.solvers
    with pysat.solvers.Solver(bootstrap_with=[list(c) for c in raw] + [[u] for u in units]) as s:
        ans = s.solve()
        model = s.get_model()
    if ans != expect_sat:
        return (f'satisfiability: CNF + input units {units} is {"SAT" if ans else "UNSAT"} (solver) but the selected '
                f'outputs evaluate to {"all True" if expect_sat else "not all True"}')
    if ans:
        mv = {abs(l): l > 0 for l in model}
        for v, want in expected_vals.items():
            if v in mv and mv[v] != want and v in up and up[v] != want:
                return f'gate value: variable {v} is forced to {up[v]}, evaluation gives {want}'
    return None


def oracle(case, check_circuit_sat=True):
    if 'large' in case:
        return oracle_large(case)
    dump, outs = case['circuit'], case.get('outs')
    if not evalcorr.well_formed_for_eval(dump):
        return None
    if len(set(dump['inputs'])) != len(dump['inputs']) or len({g[0] for g in dump['gates']}) != len(dump['gates']):
        return None
    sel = selected_labels(dump, outs)
    if sel is None or not acyclic(dump):
        return None
    ins = list(dump['inputs'])
    if len(ins) > MAX_INPUTS:
        return None
    (kind, raw), saved = run_tseytin(dump, outs, capture=True)
    if kind != 'ok':
        return f'exception: tseytin_transformation raised {raw} on a well-formed circuit with a valid output selection'
    # What the property fixes: input i is variable i + 1; CNF + input units is satisfiable iff the selected
    # outputs are all True; a satisfying extension gives every ENCODED GATE its value.  It does not forbid
    # auxiliary variables or gaps in the numbering, so none of that is demanded here.  The label -> variable map is
    # observed from outside (the defaultdict the function builds); if it cannot be observed, only the first two
    # clauses are checked (inputs are then taken to be variables 1..n, which the satisfiability check exercises).
    if saved is None:
        saved = {l: i + 1 for i, l in enumerate(ins)}
    for i, l in enumerate(ins):
        if saved.get(l) != i + 1:
            return f'input numbering: input {i} ({l}) is variable {saved.get(l)}, not {i + 1}'
    used = {abs(l) for c in raw for l in c}
    if 0 in used:
        return 'encoding: the CNF contains the literal 0'
    nvars = max([len(ins)] + list(saved.values()) + list(used))
    any_sat = False
    for bits in itertools.product([False, True], repeat=len(ins)):
        ref = evalcorr.ref_eval(dump, dict(zip(ins, bits)))
        expect = all(ref[o] for o in sel)
        any_sat = any_sat or expect
        vals = {v: ref[l] for l, v in saved.items() if v > len(ins)}
        msg = check_assignment(raw, nvars, len(ins), bits, expect, vals)
        if msg:
            return msg + f' [inputs {dict(zip(ins, bits))}]'
    msg = oracle_from_circuit_fresh(dump)
    if msg:
        return msg
    if check_circuit_sat and outs is None:
        return oracle_circuit_sat(dump, ins, raw_default=raw, expect=any_sat)
    return None


def oracle_from_circuit_fresh(dump):
    """the CNF of a circuit depends on the circuit only: edit the clauses of one Cnf.from_circuit result in
    place (flip every literal - what a caller does to ask the opposite question), then ask again for an equal
    circuit built anew: the answer must be the original one"""
    from cirbo.sat.cnf import Cnf
    try:
        first = Cnf.from_circuit(ct.build_circuit(dump))
        raw1 = first.get_raw()
        snap = [list(c) for c in raw1]
        for c in raw1:
            for i in range(len(c)):
                c[i] = -c[i]
        raw1.append([1, -1])
        again = [list(c) for c in Cnf.from_circuit(ct.build_circuit(dump)).get_raw()]
    except Exception as e:  # noqa: BLE001
        return f'exception: Cnf.from_circuit raised {type(e).__name__}'
    if again == snap:
        return None
    # another clause order or another numbering of auxiliary variables is legal: the second CNF must be EXACT
    ins = list(dump['inputs'])
    outs = list(dump['outputs'])
    used = {abs(l) for c in again for l in c}
    if 0 in used:
        return 'state: after an earlier result was edited in place, Cnf.from_circuit returns a CNF with the literal 0'
    nvars = max([len(ins)] + list(used))
    for bits in itertools.product([False, True], repeat=len(ins)):
        ref = evalcorr.ref_eval(dump, dict(zip(ins, bits)))
        msg = check_assignment(again, nvars, len(ins), bits, all(ref[o] for o in outs), {})
        if msg:
            return ('state: Cnf.from_circuit of an equal circuit is no longer exact after the clauses of an earlier '
                    'result were edited in place (the results share mutable state): ' + msg)
    return None


def oracle_circuit_sat(dump, ins, raw_default, expect):
    from cirbo.sat import is_circuit_satisfiable
    c = ct.build_circuit(dump)
    try:
        r = is_circuit_satisfiable(c)
    except Exception as e:  # noqa: BLE001
        return f'exception: is_circuit_satisfiable raised {ct.err_name(e)}'
    if bool(r.answer) != expect:
        return (f'circuit-sat answer: is_circuit_satisfiable says {r.answer} but '
                f'{"some" if expect else "no"} assignment makes all outputs True')
    if not r.answer:
        if r.model is not None:
            return 'circuit-sat model: answer False with a model'
        return None
    if r.model is None:
        return 'circuit-sat model: answer True without a model'
    mv = {abs(l): l > 0 for l in r.model}
    # the model belongs to the CNF the query built itself; what the property promises of it: it projects onto an
    # assignment of the inputs (variables 1..n) that makes all outputs True
    bits = [mv.get(i + 1, False) for i in range(len(ins))]
    ref = evalcorr.ref_eval(dump, dict(zip(ins, bits)))
    bad = [o for o in dump['outputs'] if not ref[o]]
    if bad:
        return (f'circuit-sat model: the returned model projects to inputs {dict(zip(ins, bits))} '
                f'under which output {bad[0]} evaluates to False')
    return None


# ------------------------------------------------------------------ large formulas through the query
# The query hands the CNF to the solver: every clause has to arrive, whatever the size of the formula (a solver
# front end that feeds clauses in batches must not lose the last, incomplete batch).  Formulas whose satisfiability
# is known by construction and in which EVERY clause matters:
#   chain    x1, x1 -> x2, ..., x(k-1) -> xk            satisfiable, only by all-True
#   chain-   the same plus the unit clause -xk           unsatisfiable, and satisfiable as soon as any clause is lost
#   and-row  y_i = AND(x_i, x_i+1) all outputs           satisfiable only by all-True inputs (circuit query)
#   and-row- the same plus the output NOT(x_mid)         unsatisfiable (circuit query)
#   deep     g_i = AND(g_(i-1), x_i), output g_n         a cone of depth n = 250..400 (an encoder that treats deep cones
#   deep-    the same plus the output NOT(x_0)             differently from shallow ones); satisfiable only by all-True / not at all
LARGE_SIZES = (1000, 1025, 4097, 8200, 8300, 9000, 16400, 16500, 33000)


DEEP_SIZES = (250, 320, 400)       # depth of an AND chain (well inside CPython's default recursion limit)


def large_cases():
    return [{'large': {'kind': k, 'n': n}} for n in LARGE_SIZES for k in ('chain', 'chain-', 'and-row', 'and-row-')] \
        + [{'large': {'kind': k, 'n': n}} for n in DEEP_SIZES for k in ('deep', 'deep-')]


def _deep(n, sat):
    """g_i = AND(g_(i-1), x_i): a cone of depth n that only all-True inputs satisfy; with the output NOT(x_0) none"""
    ins = [f'x{i}' for i in range(n + 1)]
    gs = [(i, 'INPUT', []) for i in ins]
    prev = ins[0]
    for i in range(1, n + 1):
        gs.append((f'g{i}', 'AND', [prev, ins[i]]))
        prev = f'g{i}'
    outs = [prev]
    if not sat:
        gs.append(('z', 'NOT', [ins[0]]))
        outs.append('z')
    users = {}
    for l, _, ops in gs:
        for o in ops:
            users.setdefault(o, []).append(l)
    return {'inputs': ins, 'outputs': outs, 'gates': gs, 'users': list(users.items()), 'blocks': []}


def _and_row(n, sat):
    ins = [f'x{i}' for i in range(n)]
    gs = [(i, 'INPUT', []) for i in ins]
    outs = []
    for i in range(n - 1):
        gs.append((f'y{i}', 'AND', [ins[i], ins[i + 1]]))
        outs.append(f'y{i}')
    if not sat:
        gs.append(('z', 'NOT', [ins[n // 2]]))
        outs.append('z')
    users = {}
    for l, _, ops in gs:
        for o in ops:
            users.setdefault(o, []).append(l)
    return {'inputs': ins, 'outputs': outs, 'gates': gs, 'users': list(users.items()), 'blocks': []}


def oracle_large(case):
    from cirbo.sat import is_circuit_satisfiable, is_satisfiable
    from cirbo.sat.cnf import Cnf
    kind, n = case['large']['kind'], case['large']['n']
    expect = not kind.endswith('-')
    try:
        if kind.startswith('chain'):
            raw = [[1]] + [[-i, i + 1] for i in range(1, n)] + ([] if expect else [[-n]])
            r = is_satisfiable(Cnf(raw))
            nin = n
        elif kind.startswith('deep'):
            dump = _deep(n, expect)
            r = is_circuit_satisfiable(ct.build_circuit(dump))
            nin = len(dump['inputs'])
        else:
            dump = _and_row(max(3, n // 4), expect)          # about n clauses
            r = is_circuit_satisfiable(ct.build_circuit(dump))
            nin = len(dump['inputs'])
    except Exception as e:  # noqa: BLE001
        return f'exception: the satisfiability query raised {ct.err_name(e)} on a {kind} formula of size {n}'
    if bool(r.answer) != expect:
        return (f'circuit-sat answer: the query says {r.answer} on a {kind} formula of about {n} clauses that is '
                f'{"satisfiable" if expect else "unsatisfiable"} by construction')
    if not r.answer:
        return 'circuit-sat model: answer False with a model' if r.model is not None else None
    if r.model is None:
        return 'circuit-sat model: answer True without a model'
    mv = {abs(l): l > 0 for l in r.model}
    bad = [i for i in range(1, nin + 1) if not mv.get(i, False)]
    if bad:
        return (f'circuit-sat model: on a {kind} formula of about {n} clauses whose only satisfying input assignment is '
                f'all-True, the returned model makes variable {bad[0]} False ({len(bad)} such variables)')
    return None


# ------------------------------------------------------------------ shrinking a failing case
def _restrict(dump, keep_outputs):
    gates = {k: (t, ops) for k, t, ops in dump['gates']}
    need, todo = set(), list(keep_outputs)
    while todo:
        l = todo.pop()
        if l in need or l not in gates:
            continue
        need.add(l)
        todo += gates[l][1]
    need |= set(dump['inputs'])
    gs = [(k, t, list(ops)) for k, t, ops in dump['gates'] if k in need]
    users = {}
    for k, t, ops in gs:
        for o in ops:
            users.setdefault(o, []).append(k)
    return {'inputs': list(dump['inputs']), 'outputs': list(keep_outputs), 'gates': gs,
            'users': list(users.items()), 'blocks': []}


def _drop_input(dump, i):
    if any(i in ops for _, _, ops in dump['gates']) or i in dump['outputs']:
        return None
    d = dict(dump)
    d['inputs'] = [x for x in dump['inputs'] if x != i]
    d['gates'] = [g for g in dump['gates'] if g[0] != i]
    d['users'] = [(k, v) for k, v in dump['users'] if k != i]
    return d


def shrink(case, msg):
    if 'large' in case:
        return case, msg
    key = msg.split(':')[0]

    def fails(c):
        try:
            m = oracle(c)
        except Exception:  # noqa: BLE001
            return None
        # any semantic failure of the property is accepted while shrinking (a wrong gate value inside the cone
        # is the same defect seen earlier); exceptions / observation problems only if that was the failure
        if not m:
            return None
        k = m.split(':')[0]
        return m if (k == key or (k in SEMANTIC_KEYS and key in SEMANTIC_KEYS)) else None
    dump, outs = case['circuit'], case.get('outs')
    sel = selected_labels(dump, outs) or []
    best, best_msg = case, msg
    # one selected output, the cone of it
    for o in list(dict.fromkeys(sel)):
        c = {'circuit': _restrict(dump, [o]), 'outs': None}
        m = fails(c)
        if m:
            best, best_msg = c, m
            break
    else:
        c = {'circuit': _restrict(dump, sel), 'outs': None}
        m = fails(c)
        if m:
            best, best_msg = c, m
    # bypass gates: make an operand of the output cone the output instead; drop unused inputs
    changed = True
    rounds = 0
    while changed and rounds < 200:
        rounds += 1
        changed = False
        d = best['circuit']
        gates = {k: (t, ops) for k, t, ops in d['gates']}
        for o in d['outputs']:
            for op in gates.get(o, ('', []))[1]:
                c = {'circuit': _restrict(d, [op]), 'outs': None}
                m = fails(c)
                if m:
                    best, best_msg, changed = c, m, True
                    break
            if changed:
                break
        if changed:
            continue
        for i in list(d['inputs']):
            d2 = _drop_input(d, i)
            if d2 is not None:
                c = {'circuit': d2, 'outs': None}
                m = fails(c)
                if m:
                    best, best_msg, changed = c, m, True
                    break
    return best, best_msg
