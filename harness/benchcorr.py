"""Correspondence and direct oracle for the bench printer / parser (C11).

Case kinds (all JSON-serialisable):
  {'kind': 'format', 'circuit': dump, 'text': str}                 format_circuit() byte for byte
  {'kind': 'parse',  'text': str, 'via_file': bool, 'result': r}   from_bench_string / from_bench_file
  {'kind': 'layout', 'items': [...], 'fin': bool, 'text': str, 'result': r}
  {'kind': 'eq',     'a': dump, 'b': dump, 'result': bool}         Circuit.__eq__
  {'kind': 'okb',    'circuit': dump, 'result': bool}              hypotheses of the round trip (oracle's guard)
r = ('ok', dump) | ('err', kind).
"""
import itertools
import locale
import os
import pathlib
import shutil
import tempfile

from . import coqterm as ct
from . import evalcorr, gen

HEADER = ('Require Import Cirbo.Model.Base Cirbo.Model.Gate Cirbo.Model.Circuit Cirbo.Model.History '
          'Cirbo.Model.Bench Cirbo.Model.BenchLayout.')

SEPARATORS = ' (),=\n'


# ------------------------------------------------------------------ labels
def label_ok(l: str) -> bool:
    """Python mirror of Bench.label_ok (bench identifier as far as the round trip needs)"""
    return bool(l) and l[0] != '#' and not any(ch in SEPARATORS for ch in l)


KEYWORDISH = ['input', 'INPUT', 'Input', 'output', 'OUTPUT', 'OutPut', 'vdd', 'VDD', 'gnd', 'GND', 'buff', 'BUFF',
              'and', 'AND', 'not', 'NOT', 'or', 'xor', 'always_true', 'ALWAYS_FALSE', 'iff', 'nand', 'inputs',
              'outputs', 'in', 'out']
TAILS = ['', '', '_x', 'y', '1', '_7', '.a', '[3]', '#', '-n', '0', 'X']
PLAIN = ['x', 'g', 'n', 'w', 'z_', 'T', 'a', 'q', 'N', 'net', '_', '1', '42', 'G', 'sum.', 'c[0]']
BAD = [' a', 'a ', 'a b', 'a(b', 'a)', 'a,b', 'a=b', '#c', '', '(', ')x', 'p =', '= q']


def ident_label(rng, used, kind_hist=None):
    """identifier grammar: letters, digits, _ . [ ] # - ; deliberately keyword-prefixed in ~40 %"""
    for _ in range(1000):
        r = rng.random()
        if r < 0.42:
            l = rng.choice(KEYWORDISH) + rng.choice(TAILS)
            kind = 'keyword-prefixed'
        elif r < 0.5:
            l = rng.choice(TAILS[2:]).lstrip('#') + rng.choice(KEYWORDISH)
            kind = 'keyword-suffixed'
        else:
            l = rng.choice(PLAIN) + str(rng.randint(0, 99))
            kind = 'plain'
        if l and l not in used and label_ok(l):
            if kind_hist is not None:
                kind_hist(kind)
            return l
    raise RuntimeError('label space exhausted')


UNICODE = ['\u0131nput_x', 'outp\u00fct', '\u00b5', '\u00e91', 'vdd\u00df', '\u017fum', 'INPUT\u0130', 'x\u2028y', 'a\x0bb', 'n\x85',
           '\u03bb', '\u4e2d', 'buff\U0001f600']


def unicode_variant(rng, dump):
    """the same circuit with some labels outside ASCII (direct oracle only: the model is about ASCII text)"""
    keys = [k for k, _, _ in dump['gates']]
    if not keys:
        return None
    mapping = {}
    pool = [u for u in UNICODE if u not in keys]
    rng.shuffle(pool)
    for k in rng.sample(keys, min(len(keys), rng.randint(1, 3))):
        if pool:
            mapping[k] = pool.pop()
    return relabel(dump, mapping)


def relabel(dump, mapping):
    f = lambda l: mapping.get(l, l)
    return {'inputs': [f(l) for l in dump['inputs']], 'outputs': [f(l) for l in dump['outputs']],
            'gates': [(f(k), t, [f(o) for o in ops]) for k, t, ops in dump['gates']],
            'users': [(f(k), [f(u) for u in us]) for k, us in dump['users']],
            'blocks': []}


def random_bench_circuit(rng, bad_label_p=0.0, kind_hist=None, max_gates=None):
    """a well-formed circuit dump whose labels come from the identifier grammar"""
    ng = None
    if max_gates is not None:
        ng = rng.randint(0, max_gates)
    d = gen.random_circuit(rng, with_blocks=False, n_gates=ng)
    used = set()
    mapping = {}
    for k, _, _ in d['gates']:
        if rng.random() < bad_label_p:
            l = rng.choice(BAD)
            if l in used:
                l = ident_label(rng, used, kind_hist)
        else:
            l = ident_label(rng, used, kind_hist)
        used.add(l)
        mapping[k] = l
    return relabel(d, mapping)


def accepted_arity(t, n):
    """the arities of the property: those the operator of the type accepts"""
    if t == 'INPUT':
        return n == 0
    return evalcorr.ref_bool(t, [False] * n) is not None


def bench_ok(dump) -> bool:
    """Python mirror of Bench.bench_ok: the circuits the round trip is claimed for"""
    keys = [k for k, _, _ in dump['gates']]
    if len(set(keys)) != len(keys):
        return False
    gates = {k: (t, ops) for k, t, ops in dump['gates']}
    for k, (t, ops) in gates.items():
        if not label_ok(k) or not all(label_ok(o) and o in gates for o in ops):
            return False
        if not accepted_arity(t, len(ops)):
            return False
    if not all(label_ok(l) for l in dump['inputs'] + dump['outputs']):
        return False
    ins = [k for k, (t, _) in gates.items() if t == 'INPUT']
    return set(ins) == set(dump['inputs']) and all(l in gates and gates[l][0] == 'INPUT' for l in dump['inputs'])


# ------------------------------------------------------------------ running the implementation
def run_parse(text, via_file=False, tmpdir=None):
    from cirbo.core.circuit import Circuit
    try:
        if via_file:
            p = pathlib.Path(tmpdir) / 'in.bench'
            with open(p, 'w', newline='') as f:     # the bytes of `text`, no translation on write
                f.write(text)
            c = Circuit.from_bench_file(str(p))
        else:
            c = Circuit.from_bench_string(text)
    except RecursionError:
        raise
    except Exception as e:  # noqa: BLE001
        return ('err', ct.err_name(e))
    return ('ok', ct.dump_circuit(c))


class TempDir:
    """a scratch directory outside /repo and /verif, removed on exit"""

    def __enter__(self):
        base = os.environ.get('TMPDIR', '/tmp')
        self.path = tempfile.mkdtemp(prefix='c11_bench_', dir=base)
        rp = os.path.realpath(self.path)
        assert not rp.startswith('/repo') and not rp.startswith('/verif'), rp
        return self.path

    def __exit__(self, *a):
        shutil.rmtree(self.path, ignore_errors=True)


# ------------------------------------------------------------------ layouts
ALIASES = {'IFF': ['IFF', 'BUFF', 'BUFF']}


def rand_case(rng, s):
    m = rng.random()
    if m < 0.3:
        return s
    if m < 0.5:
        return s.lower()
    if m < 0.6:
        return s.capitalize()
    return ''.join(ch.lower() if rng.random() < 0.5 else ch.upper() for ch in s)


def sp(rng, canonical=0):
    r = rng.random()
    if r < 0.55:
        return canonical
    if r < 0.8:
        return 1 - canonical if canonical in (0, 1) else 0
    return rng.randint(0, 4)


def layout_of(rng, dump, hist=None):
    """a random layout (list of items, fin) of the netlist of a bench_ok dump"""
    gates = {k: (t, ops) for k, t, ops in dump['gates']}
    items = []
    for l in dump['inputs']:
        items.append(['in', rand_case(rng, 'INPUT'), l, sp(rng), sp(rng), sp(rng)])
    for k, (t, ops) in gates.items():
        if t == 'INPUT':
            continue
        if t == 'ALWAYS_TRUE' and not ops and rng.random() < 0.5:
            items.append(['vdd', k, sp(rng, 1), sp(rng, 1), rand_case(rng, 'VDD'), sp(rng)])
            if hist:
                hist('alias vdd')
            continue
        name = rng.choice(ALIASES.get(t, [t]))
        if hist and name != t:
            hist('alias ' + name)
        items.append(['gate', k, sp(rng, 1), sp(rng, 1), rand_case(rng, name), sp(rng), t,
                      [[sp(rng, 0 if i == 0 else 1), o, sp(rng)] for i, o in enumerate(ops)], sp(rng), sp(rng)])
    for l in dump['outputs']:
        items.append(['out', rand_case(rng, 'OUTPUT'), l, sp(rng), sp(rng), sp(rng)])
    m = rng.random()
    if m < 0.5:
        rng.shuffle(items)                       # any order, use before definition included
        if hist:
            hist('order: shuffled')
    elif m < 0.7:
        items.reverse()
        if hist:
            hist('order: reversed')
    elif hist:
        hist('order: inputs, gates, outputs')
    # comments and blank lines
    out = []
    for it in items:
        while rng.random() < 0.2:
            out.append(rng.choice([['blank'], ['comment', rng.choice(['', ' a comment', 'x = AND(a, b)',
                                                                     ' INPUT(q)', '#', ' =('])]]))
        out.append(it)
    while rng.random() < 0.3:
        out.append(rng.choice([['blank'], ['comment', ' end']]))
    fin = rng.random() < 0.5
    if hist:
        hist('final newline' if fin else 'no final newline')
    return out, fin


def print_item(it):
    k = it[0]
    S = lambda n: ' ' * n
    if k in ('in', 'out'):
        _, kw, l, s1, s2, s3 = it
        return f'{kw}({S(s1)}{l}{S(s2)}){S(s3)}'
    if k == 'gate':
        _, l, s1, s2, opn, s3, _t, ops, s4, s5 = it
        args = ','.join(S(a) + o + S(b) for a, o, b in ops) if ops else S(s4)
        return f'{l}{S(s1)}={S(s2)}{opn}{S(s3)}({args}){S(s5)}'
    if k == 'vdd':
        _, l, s1, s2, kw, s3 = it
        return f'{l}{S(s1)}={S(s2)}{kw}{S(s3)}'
    if k == 'comment':
        return '#' + it[1]
    if k == 'blank':
        return ''
    raise ValueError(k)


def print_items(items, fin):
    if fin:
        return ''.join(print_item(it) + '\n' for it in items)
    return '\n'.join(print_item(it) for it in items)


def netlist_of(items):
    """the netlist a list of layout lines denotes, as a dump (gate map in definition order)"""
    gates, inputs, outputs = {}, [], []
    for it in items:
        if it[0] == 'in':
            gates[it[2]] = ('INPUT', [])
            inputs.append(it[2])
        elif it[0] == 'out':
            outputs.append(it[2])
        elif it[0] == 'gate':
            gates[it[1]] = (it[6], [o for _, o, _ in it[7]])
        elif it[0] == 'vdd':
            gates[it[1]] = ('ALWAYS_TRUE', [])
    return {'inputs': inputs, 'outputs': outputs, 'gates': [(k, t, ops) for k, (t, ops) in gates.items()],
            'users': [], 'blocks': []}


# ------------------------------------------------------------------ text mutations (not confined to the grammar)
def mutate_text(rng, text, hist=None):
    kinds = ['spaces', 'tab', 'crlf', 'cr', 'trailing comment', 'lower', 'upper', 'delete char', 'dup line',
             'drop line', 'swap lines', 'leading space', 'input space', 'gnd', 'strip final', 'add newlines',
             'unknown op', 'extra operand', 'no paren', 'no eq', 'insert char']
    k = rng.choice(kinds)
    if hist:
        hist(k)
    ls = text.split('\n')
    pos = rng.randrange(len(text) + 1)
    li = rng.randrange(len(ls))
    if k == 'spaces':
        for _ in range(rng.randint(1, 4)):
            pos = rng.randrange(len(text) + 1)
            text = text[:pos] + ' ' * rng.randint(1, 2) + text[pos:]
        return text
    if k == 'tab':
        return text[:pos] + '\t' + text[pos:]
    if k == 'crlf':
        return text.replace('\n', '\r\n')
    if k == 'cr':
        return text[:pos] + '\r' + text[pos:]
    if k == 'trailing comment':
        ls[li] += ' # note'
    elif k == 'lower':
        return text.lower()
    elif k == 'upper':
        return text.upper()
    elif k == 'delete char':
        return text[:pos] + text[pos + 1:]
    elif k == 'dup line':
        ls.insert(li, ls[li])
    elif k == 'drop line':
        del ls[li]
    elif k == 'swap lines':
        lj = rng.randrange(len(ls))
        ls[li], ls[lj] = ls[lj], ls[li]
    elif k == 'leading space':
        ls[li] = ' ' + ls[li]
    elif k == 'input space':
        return text.replace('INPUT(', 'INPUT (', 1).replace('OUTPUT(', 'OUTPUT (', 1 if rng.random() < 0.5 else 0)
    elif k == 'gnd':
        ls.insert(li, 'gnd_%d = gnd' % rng.randint(0, 9))
    elif k == 'strip final':
        return text.rstrip('\n')
    elif k == 'add newlines':
        return text + '\n' * rng.randint(1, 3)
    elif k == 'unknown op':
        return text.replace('AND(', 'FOO(', 1) if 'AND(' in text else text + '\nq = FOO(a)'
    elif k == 'extra operand':
        return text.replace(')', ', zz)', 1)
    elif k == 'no paren':
        return text.replace(')', '', 1) if rng.random() < 0.5 else text.replace('(', '', 1)
    elif k == 'no eq':
        return text.replace('=', '', 1)
    elif k == 'insert char':
        return text[:pos] + rng.choice('=(),#)x') + text[pos:]
    return '\n'.join(ls)


MALFORMED = [
    '', '\n', '\n\n', '#', '# only a comment', ' ', '  \n', '\t\n', 'x', 'x\n', '=', 'x =', 'x = ', 'x = y',
    'x = AND', 'x = AND(', 'x = AND)', 'x = AND)(', 'x = AND()', 'x = AND(a)', 'x = AND(a, b)', 'INPUT(a)\nx = AND(a, a)',
    'INPUT(a)\nx = NOT(a, a)', 'INPUT(a)\nx = NOT()', 'INPUT(a)\nx = FOO(a)', 'INPUT(a)\nx = vdd', 'x = vddfoo(',
    'x = VDD(a)', 'x = vd', 'x = ALWAYS_TRUE()', 'x = ALWAYS_TRUE( )', 'x = always_false', 'x = ALWAYS_FALSE(a)',
    'INPUT(a)\nx = ALWAYS_FALSE(a)', 'INPUT(a)\nx = ALWAYS_TRUE(a, a)', 'INPUT(a)\nx = ALWAYS_TRUE(a,)',
    'INPUT(a)\nx = ALWAYS_TRUE(,)', 'INPUT(a)\nx = AND(a,,a)', 'INPUT(a)\nx = AND(a a, a)', 'INPUT(a)\nINPUT(a)',
    'INPUT(a)\na = NOT(a)', 'INPUT(a)\nx = NOT(a)\nx = IFF(a)', 'OUTPUT(z)', 'OUTPUT(z)\nOUTPUT(z)', 'INPUT', 'INPUT(',
    'INPUT()', 'INPUTa', 'INPUTS(a)', 'input(a)', 'InPuT( a )', 'INPUT (a)', 'INPUT((a))', 'INPUT(a)) )', 'OUTPUT',
    'OUTPUT()', 'output(a', 'INPUT(a)\ninput_x = NOT(a)\nOUTPUT(input_x)', 'INPUT(a)\nOUTPUTy = NOT(a)',
    'INPUT(a)\nINPUT = NOT(a)', 'INPUT(a)\nOUTPUT = NOT(a)\nOUTPUT(OUTPUT)', 'INPUT(a=b)', 'OUTPUT(a=b)',
    'INPUT(a)\nx = NOT(a) = 3', 'INPUT(a)\nx == NOT(a)', 'INPUT(a)\n= NOT(a)', 'INPUT(a)\n#x = NOT(a)\nOUTPUT(a)',
    'INPUT(a)\nx = NOT(a) # c', 'INPUT(a) # c', 'INPUT(a)\r\nx = NOT(a)\r\n', 'INPUT(a)\rOUTPUT(a)',
    'INPUT(a)\nx = NOT(a)junk', 'INPUT(a)\nx = NOT(a))))', 'INPUT(a)\nx = N OT(a)', 'INPUT(a)\nx = (a)',
    'INPUT(a)\nx = not(a)\ny = Buff(x)\nz = buff(y)\nOUTPUT(z)', 'INPUT(a)\nx y = NOT(a)\nOUTPUT(x y)',
    'INPUT(a)\nx = XOR(a, a, a)', 'INPUT(a)\nx = GT(a, a, a)', 'INPUT(a)\nx = GT(a)', 'INPUT(a)\nx = IFF(a, a)',
    'INPUT(a)\nx = OR(b, a)', 'INPUT(a)\nx = OR(a, x)', 'x = OR(y, y)\ny = OR(x, x)', 'INPUT(a)\n\n\n\nOUTPUT(a)\n',
    'INPUT(a)\nx = NOT( a )  \nOUTPUT(  x  )', 'INPUT(a)\nx = NOT(a\nOUTPUT(x)', 'INPUT(a)\nx = NOT\n(a)',
]


# ------------------------------------------------------------------ Coq terms
def text_term(x: str) -> str:
    parts, cur = [], ''
    for ch in x:
        if 32 <= ord(ch) < 127:
            cur += '""' if ch == '"' else ch
        else:
            if ord(ch) > 255:
                raise ValueError('non-latin text')
            if cur:
                parts.append(f'"{cur}"')
                cur = ''
            parts.append('NL' if ch == '\n' else f'chr {ord(ch)}')
    if cur:
        parts.append(f'"{cur}"')
    if not parts:
        return '""'
    if len(parts) == 1 and parts[0].startswith('"'):
        return parts[0]
    return '(cat [' + '; '.join(parts) + '])'


def labels_term(ls):
    return ct.lst(text_term(x) for x in ls)


def circuit_term(d):
    """like coqterm.circuit, but labels may hold any 8-bit character (parsed from damaged texts)"""
    gates = ct.lst(f'({text_term(k)}, mkGate {t} {labels_term(ops)})' for k, t, ops in d['gates'])
    users = ct.lst(f'({text_term(k)}, {labels_term(v)})' for k, v in d['users'])
    assert not d['blocks']
    return f'(mkCircuit {labels_term(d["inputs"])} {labels_term(d["outputs"])} {gates} {users} [])'


def res_term(r):
    return ct.res(tuple(r), circuit_term)


def item_term(it):
    k = it[0]
    S = text_term
    if k in ('in', 'out'):
        _, kw, l, s1, s2, s3 = it
        return f'({"IInput" if k == "in" else "IOutput"} {S(kw)} {S(l)} {s1} {s2} {s3})'
    if k == 'gate':
        _, l, s1, s2, opn, s3, t, ops, s4, s5 = it
        o = ct.lst(f'({a}, {S(x)}, {b})' for a, x, b in ops)
        return f'(IGate {S(l)} {s1} {s2} {S(opn)} {s3} {t} {o} {s4} {s5})'
    if k == 'vdd':
        _, l, s1, s2, kw, s3 = it
        return f'(IVdd {S(l)} {s1} {s2} {S(kw)} {s3})'
    if k == 'comment':
        return f'(IComment {S(it[1])})'
    return 'IBlank'


def case_term(case):
    k = case['kind']
    if k == 'format':
        return f'({circuit_term(case["circuit"])}, {text_term(case["text"])})'
    if k == 'parse':
        return f'({text_term(case["text"])}, {ct.boolean(case["via_file"])}, {res_term(case["result"])})'
    if k == 'layout':
        return (f'({ct.lst(item_term(i) for i in case["items"])}, {ct.boolean(case["fin"])}, '
                f'{text_term(case["text"])}, {res_term(case["result"])})')
    if k == 'dispatch':
        rows = ct.lst(f'({text_term(a)}, {b}, {c}, {ct.boolean(d)})' for a, b, c, d in case['table'])
        return f'({rows}, {text_term(case["vdd"])}, {text_term(case["buff"])})'
    if k == 'fgate':
        return f'({text_term(case["label"])}, {case["type"]}, {labels_term(case["ops"])}, {text_term(case["text"])})'
    if k == 'okb':
        return f'({circuit_term(case["circuit"])}, {ct.boolean(case["result"])})'
    if k == 'eq':
        return f'({circuit_term(case["a"])}, {circuit_term(case["b"])}, {ct.boolean(case["result"])})'
    raise ValueError(k)


def live_dispatch():
    """the dispatch table as the running parser has it"""
    import inspect
    from cirbo.core.parser import bench
    rows = []
    for key, h in bench.BenchToCircuit()._processings.items():
        params = list(inspect.signature(h).parameters.values())
        named = [q for q in params[1:] if q.kind == q.POSITIONAL_OR_KEYWORD]
        var = any(q.kind == q.VAR_POSITIONAL for q in params)
        p = bench.BenchToCircuit()
        p._processings[key]('o', *(['a'] * len(named)))
        rows.append((key, p._circuit.get_gate('o').gate_type.name, len(named), var))
    return {'kind': 'dispatch', 'table': rows, 'vdd': bench.VDD_NAME, 'buff': bench.BUFF_NAME}


def live_format_gate():
    from cirbo.core.circuit import gate
    out = []
    for t in ct.GTYPES:
        for l, ops in (('g', []), ('input_x', ['a']), ('n.1', ['a', 'b#', 'c[2]'])):
            out.append({'kind': 'fgate', 'label': l, 'type': t, 'ops': ops,
                        'text': gate.Gate(l, getattr(gate, t), tuple(ops)).format_gate()})
    return out


CHECK = {'format': ('check_format_case', 'circuit * string'),
         'parse': ('check_parse_case', 'string * bool * res circuit'),
         'layout': ('check_layout_case', 'list item * bool * string * res circuit'),
         'eq': ('check_eq_case', 'circuit * circuit * bool'),
         'okb': ('check_okb_case', 'circuit * bool'),
         'dispatch': ('check_dispatch_case', 'list (string * gtype * nat * bool) * string * string'),
         'fgate': ('check_format_gate_case', 'string * gtype * list label * string')}


# ------------------------------------------------------------------ the direct oracle
def dict_of(dump):
    return {k: (t, tuple(ops)) for k, t, ops in dump['gates']}


def truth_table(dump, max_inputs=8):
    """outputs' truth table of a netlist dump by the reference semantics; None when not evaluable"""
    if not evalcorr.well_formed_for_eval(dump) or len(dump['inputs']) > max_inputs:
        return None
    rows = []
    try:
        for vec in itertools.product([False, True], repeat=len(dump['inputs'])):
            ref = evalcorr.ref_eval(dump, dict(zip(dump['inputs'], vec)))
            rows.append([ref[o] for o in dump['outputs']])
    except (RecursionError, KeyError, evalcorr.ArityError):
        return None
    return rows


def large_bench_circuit(rng, n_gates):
    """a netlist whose bench text is far larger than any I/O buffer (64 KiB and more): a few inputs, then
    n_gates bench gates over random earlier gates, several outputs at the end and in the middle"""
    order = [(f'x{i}', 'INPUT', []) for i in range(rng.randint(2, 6))]
    avail = [l for l, _, _ in order]
    for i in range(n_gates):
        t = rng.choice(['AND', 'OR', 'XOR', 'NAND', 'NOR', 'NXOR', 'NOT', 'IFF'])
        ops = [rng.choice(avail[-40:])] if t in ('NOT', 'IFF') else [rng.choice(avail), rng.choice(avail[-10:])]
        order.append((f'g{i}', t, ops))
        avail.append(f'g{i}')
    users = {}
    for l, t, ops in order:
        for o in ops:
            users.setdefault(o, []).append(l)
    outs = [avail[-1], avail[len(avail) // 2], avail[-2], avail[-1]] + [rng.choice(avail) for _ in range(5)]
    return {'inputs': [l for l, t, _ in order if t == 'INPUT'], 'outputs': outs, 'gates': order,
            'users': list(users.items()), 'blocks': []}


def oracle_roundtrip(dump):
    """Circuit.from_bench_string(c.format_circuit()) == c, also through save_to_file / from_bench_file"""
    from cirbo.core.circuit import Circuit
    if not bench_ok(dump):
        return None
    c = ct.build_circuit(dump)
    text = c.format_circuit()
    try:
        d = Circuit.from_bench_string(text)
    except Exception as e:  # noqa: BLE001
        return f'roundtrip-raises: from_bench_string(format_circuit(c)) raises {type(e).__name__}: {e}'
    if not (d == c):
        what = describe_difference(ct.dump_circuit(d), dump)
        return f'roundtrip-differs: from_bench_string(format_circuit(c)) != c: {what}'
    # Circuit.__eq__ ignores the users index: the parsed circuit must also BE the circuit (C02 well-formedness:
    # users = inverse operand multiset, both topological orders complete, copy works)
    from . import wforacle
    wf = wforacle.wf_violation(d) or wforacle.copy_violation(d)
    if wf:
        return f'parsed-not-well-formed: {wf}'
    if '\r' in text:
        return None         # a text-mode read turns "\r" into a newline: outside the file statement (labels_no_cr)
    try:
        text.encode(locale.getpreferredencoding(False))
    except UnicodeError:
        return None         # not representable in the locale's encoding: write_text cannot store it
    with TempDir() as tmp:
        p = os.path.join(tmp, 'c.bench')
        try:
            c.save_to_file(p)
            e = Circuit.from_bench_file(p)
        except Exception as ex:  # noqa: BLE001
            return f'file-raises: save_to_file / from_bench_file raises {type(ex).__name__}: {ex}'
        if not (e == c):
            return 'file-differs: from_bench_file(save_to_file(c)) != c: ' + describe_difference(ct.dump_circuit(e), dump)
        # "the file it was saved to" however the path is spelled: a bare file name in the working directory, a
        # ./name, a parent directory that does not exist yet (created by save_to_file); always a str, as annotated
        cwd = os.getcwd()
        try:
            os.chdir(tmp)
            for spelled in ('bare.bench', './dot.bench', os.path.join('new_a', 'new_b', 'n.bench')):
                try:
                    c.save_to_file(spelled)
                    e = Circuit.from_bench_file(spelled)
                except Exception as ex:  # noqa: BLE001
                    return (f'file-raises: save_to_file / from_bench_file raises {type(ex).__name__}: {ex} '
                            f'for the path spelled {str(spelled).replace(tmp, "<tmp>")!r}')
                if not (e == c):
                    return (f'file-differs: from_bench_file(save_to_file(c)) != c for the path spelled '
                            f'{str(spelled).replace(tmp, "<tmp>")!r}')
        finally:
            os.chdir(cwd)
    return None


def describe_difference(got, want):
    g, w = dict_of(got), dict_of(want)
    if got['inputs'] != want['inputs']:
        return f'inputs {got["inputs"]} instead of {want["inputs"]}'
    if got['outputs'] != want['outputs']:
        return f'outputs {got["outputs"]} instead of {want["outputs"]}'
    for k in w:
        if k not in g:
            return f'gate {k!r} is missing'
        if g[k] != w[k]:
            return f'gate {k!r} is {g[k][0]}{g[k][1]} instead of {w[k][0]}{w[k][1]}'
    for k in g:
        if k not in w:
            return f'extra gate {k!r}'
    return 'no difference found by the harness (Circuit.__eq__ itself disagrees)'


def layout_wellformed(items):
    """Python mirror of BenchLayout.text_ok"""
    net = netlist_of(items)
    defined = {k for k, _, _ in net['gates']}
    for it in items:
        if it[0] in ('in', 'out'):
            if it[1].upper() != ('INPUT' if it[0] == 'in' else 'OUTPUT') or not label_ok(it[2]):
                return False
        elif it[0] == 'gate':
            if not label_ok(it[1]) or not all(label_ok(o) and o in defined for _, o, _ in it[7]):
                return False
            if not accepted_arity(it[6], len(it[7])):
                return False
        elif it[0] == 'vdd':
            if not label_ok(it[1]) or it[4].upper() != 'VDD':
                return False
        elif it[0] == 'comment' and '\n' in it[1]:
            return False
    return True


def oracle_layout(items, fin):
    """the parsed circuit is the netlist the lines denote: same gates / inputs / outputs, and the same
    truth table (reference semantics of the netlist vs evaluation of the parsed circuit)"""
    from cirbo.core.circuit import Circuit
    if not layout_wellformed(items):
        return None
    net = netlist_of(items)
    keys = [it[2] if it[0] == 'in' else it[1] for it in items if it[0] in ('in', 'gate', 'vdd')]
    if len(set(keys)) != len(keys):
        return None                     # a label defined twice: not a netlist
    text = print_items(items, fin)
    try:
        c = Circuit.from_bench_string(text)
    except Exception as e:  # noqa: BLE001
        return f'layout-raises: a well-formed text is rejected with {type(e).__name__}: {e}'
    got = ct.dump_circuit(c)
    from . import wforacle
    wf = wforacle.wf_violation(c)
    if wf:
        return f'parsed-not-well-formed: {wf}'
    if dict_of(got) != dict_of(net) or got['inputs'] != net['inputs'] or got['outputs'] != net['outputs']:
        return 'layout-differs: parsed circuit is not the netlist of the text: ' + describe_difference(got, net)
    tt = truth_table(net)
    if tt is not None and net['outputs'] and all(o in dict_of(net) for o in net['outputs']):
        try:
            impl = c.get_truth_table()
        except Exception as e:  # noqa: BLE001
            return f'layout-eval-raises: parsed circuit cannot be evaluated: {type(e).__name__}: {e}'
        want = [[r[j] for r in tt] for j in range(len(net['outputs']))]
        if impl != want:
            return f'layout-function: truth table {impl} instead of {want}'
    return None


def oracle(case):
    if case.get('kind') == 'layout':
        return oracle_layout(case['items'], case['fin'])
    return oracle_roundtrip(case['circuit'])
