"""Direct oracle for C02 (and the well-formedness clauses of C10/C14/C19): the property text
evaluated on a live cirbo Circuit by independent Python code."""
import collections
import copy

from . import coqterm as ct


def wf_violation(c):
    """None if c is well formed in the sense of C02, else a description"""
    gates = c._gates
    for k, g in gates.items():
        if g.label != k:
            return f'gate stored under {k!r} carries label {g.label!r}'
        for o in g.operands:
            if o not in gates:
                return f'operand {o!r} of {k!r} names no gate'
    for o in c._outputs:
        if o not in gates:
            return f'output {o!r} names no gate'
    # users = inverse operand relation as a multiset (through the public accessor)
    inv = collections.defaultdict(collections.Counter)
    for k, g in gates.items():
        for o in g.operands:
            inv[o][k] += 1
    for k in gates:
        got = collections.Counter(c.get_gate_users(k))
        if got != inv[k]:
            return f'users of {k!r} are {sorted(got.elements())} but operands say {sorted(inv[k].elements())}'
    for k, us in c._gate_to_users.items():
        if k not in gates and us:
            return f'users index keeps {us} for {k!r} which is not a gate'
    ins = [k for k, g in gates.items() if g.gate_type.name == 'INPUT']
    if sorted(c._inputs) != sorted(ins) or len(set(c._inputs)) != len(c._inputs):
        return f'input list {c._inputs} is not exactly the INPUT gates {ins}'
    # acyclic + topological iteration both directions
    indeg = {k: len(g.operands) for k, g in gates.items()}
    ready = [k for k, d in indeg.items() if d == 0]
    seen = 0
    while ready:
        k = ready.pop()
        seen += 1
        for u in inv[k].elements():
            indeg[u] -= 1
            if indeg[u] == 0:
                ready.append(u)
    if seen != len(gates):
        return 'the operand graph has a cycle'
    for inverse in (True, False):
        order = [g.label for g in c.top_sort(inverse=inverse)]
        if sorted(order) != sorted(gates):
            return f'top_sort(inverse={inverse}) yields {len(order)} of {len(gates)} gates'
        pos = {l: i for i, l in enumerate(order)}
        for k, g in gates.items():
            for o in g.operands:
                if (pos[o] > pos[k]) == inverse:
                    return f'top_sort(inverse={inverse}) puts {k!r} on the wrong side of its operand {o!r}'
    for name, b in c._blocks.items():
        for l in list(b.gates) + list(b.inputs):
            if l not in gates:
                return f'block {name!r} mentions {l!r} which is not a gate'
    return None


def copy_violation(c):
    """a copy is equal to and shares no mutable state with its original"""
    before = ct.dump_circuit(c)
    try:
        k = copy.copy(c)
    except Exception as e:  # noqa: BLE001
        return f'copy raises {type(e).__name__}: {e}'
    if not (k == c):
        return 'copy != original'
    d = ct.dump_circuit(k)
    if sorted(map(repr, d['gates'])) != sorted(map(repr, before['gates'])) or d['inputs'] != before['inputs'] \
            or d['outputs'] != before['outputs']:
        return 'copy differs from original in gates / inputs / outputs'
    if sorted(repr((a, i, sorted(g), o)) for a, i, g, o in d['blocks']) != \
            sorted(repr((a, i, sorted(g), o)) for a, i, g, o in before['blocks']):
        return 'copy differs from original in blocks'
    # mutate the copy through several mutators, the original must not change
    from cirbo.core.circuit import gate as G
    try:
        k.emplace_gate('__fresh_in__', G.INPUT)
        labels = list(k._gates)
        k.emplace_gate('__fresh_g__', G.AND, (labels[0], labels[-1]))
        k.mark_as_output('__fresh_g__')
        k.rename_gate(labels[0], '__renamed__')
        for b in list(k._blocks.values()):
            b._gates.append('__x__')
            b._inputs.append('__x__')
            b._outputs.append('__x__')
        k.order_outputs([])
        k.make_block('__blk__', ['__fresh_g__'], [])
    except Exception as e:  # noqa: BLE001
        return f'mutating the copy raised {type(e).__name__}: {e}'
    if ct.dump_circuit(c) != before:
        return 'mutating the copy changed the original'
    return None


def observations(c):
    """what the public read-only entry points answer for this object (exceptions by name)"""
    out = {}

    def rec(key, fn):
        try:
            out[key] = fn()
        except RecursionError:
            out[key] = 'RecursionError'
        except Exception as e:  # noqa: BLE001
            out[key] = 'raises ' + type(e).__name__
    n = len(c._inputs)
    for inv in (False, True):
        rec(f'top_sort(inverse={inv})', lambda inv=inv: [g.label for g in c.top_sort(inverse=inv)])
    vecs = [[False] * n, [True] * n, [bool(i % 2) for i in range(n)]]
    for v in vecs:
        rec(f'evaluate({v})', lambda v=v: list(c.evaluate(list(v))))
    rec('evaluate_full_circuit(all False)',
        lambda: [(k, str(x)) for k, x in c.evaluate_full_circuit({i: False for i in c._inputs}).items()])
    if n <= 4:
        rec('get_truth_table()', lambda: [list(r) for r in c.get_truth_table()])
    return out


def stale_violation(c):
    """the object must answer exactly like a FRESH circuit object that has the same state: anything else means that
    answers depend on the history of calls (a cache or a flag that a mutator forgot to reset)"""
    from . import coqterm as ct
    live = observations(c)
    fresh = observations(ct.build_circuit(ct.dump_circuit(c)))
    for k in live:
        if live[k] != fresh[k]:
            return (f'{k} answers {str(live[k])[:120]} on this object but {str(fresh[k])[:120]} on a fresh circuit '
                    f'with the same state (the answer depends on earlier calls)')
    return None
