"""Correspondence (netlist equality) and direct oracle for the summation generators of C07.

A case is JSON:  {'host': circuit dump, 'k0': first uuid number, 'call': [kind, args...]}
or, for the generate_* wrappers, {'gen': [kind, args...], 'k0': ...}.

  ['cell', name, xs]                     add_sum2 add_sum3 add_stockmeyer_block add_mdfa add_simplified_mdfa
                                         add_sum2_aig add_sum3_aig
  ['nbits', basis, big_endian, xs]       add_sum_n_bits
  ['easy', big_endian, xs]               add_sum_n_bits_easy
  ['pow2', basis, big_endian, xs]        add_sum_pow2_m1
  ['weighted', basis, [[w, label]...]]   add_sum_n_weighted_bits
  ['naive', basis, [[w, label]...]]      add_sum_n_weighted_bits_naive
  ['sum2', a, b, big_endian]             add_sum_two_numbers
  ['shift', shift, a, b, big_endian]     add_sum_two_numbers_with_shift
  basis = ['enum', 'XAIG' | 'AIG'] | ['str', <any string>]

Labels: the implementation names fresh gates 'new_%032x' % j (j = patched uuid counter).  The
weighted sums order their work lists by label STRING, so both sides are compared after the
order-preserving renaming 'new_%032x' % j -> 'new_%04x' % j (Model/SumCases.v hex_label); every
other label is kept, and hosts never contain another label starting with 'new_'.
"""
import itertools
import re

from . import arithcorr as ac
from . import gen
from . import coqterm as ct
from . import env

HEADER = ('Require Import Cirbo.Model.Base Cirbo.Model.Gate Cirbo.Model.Circuit Cirbo.Model.History '
          'Cirbo.Model.Builder Cirbo.Generated.ArithTables Cirbo.Model.ArithSumN Cirbo.Model.ArithSumW '
          'Cirbo.Model.SumCases.')
CASE_TYPE = 'sum_case'
GEN_CASE_TYPE = 'sgen_case'

NEW_RE = ac.NEW_RE
CELLS = {'add_sum2': ('KSum2', 2), 'add_sum3': ('KSum3', 3), 'add_stockmeyer_block': ('KStock', 3),
         'add_mdfa': ('KMdfa', 5), 'add_simplified_mdfa': ('KSmdfa', 4), 'add_sum2_aig': ('KSum2Aig', 2),
         'add_sum3_aig': ('KSum3Aig', 3)}
CELL_GATES = {'add_sum2': 2, 'add_sum3': 5, 'add_stockmeyer_block': 4, 'add_mdfa': 8, 'add_simplified_mdfa': 6,
              'add_sum2_aig': 3, 'add_sum3_aig': 7}

# gate types that an AIG can encode as one AND node with complemented edges (or no node at all);
# XAIG additionally has XOR nodes
AIG_TYPES = {'AND', 'OR', 'NAND', 'NOR', 'GT', 'LT', 'GEQ', 'LEQ', 'NOT', 'IFF', 'LNOT', 'RNOT', 'LIFF', 'RIFF',
             'ALWAYS_TRUE', 'ALWAYS_FALSE'}
XAIG_TYPES = AIG_TYPES | {'XOR', 'NXOR'}


def ren(l: str) -> str:
    m = NEW_RE.match(l)
    if m:
        j = int(m.group(1), 16)
        assert j < 65536, j
        return 'new_%04x' % j
    assert not l.startswith('new_'), l
    return l


def ren_dump(d):
    return {'inputs': [ren(x) for x in d['inputs']], 'outputs': [ren(x) for x in d['outputs']],
            'gates': [(ren(k), t, [ren(o) for o in ops]) for k, t, ops in d['gates']],
            'users': [(ren(k), [ren(u) for u in us]) for k, us in d['users']],
            'blocks': [(k, [ren(x) for x in i], [ren(x) for x in g], [ren(x) for x in o])
                       for k, i, g, o in d['blocks']]}


def err_name(e) -> str:
    return ac.err_name(e)


# ------------------------------------------------------------------ running the implementation
def _sm():
    from cirbo.synthesis.generation.arithmetics import summation
    return summation


def py_basis(b):
    from cirbo.synthesis.generation.helpers import GenerationBasis
    return GenerationBasis[b[1]] if b[0] == 'enum' else b[1]


def resolved(b):
    """the basis the caller asked for: 'XAIG' | 'AIG' | None (a string that names no basis)"""
    if b[0] == 'enum':
        return b[1]
    u = b[1].upper()
    return u if u in ('XAIG', 'AIG') else None


def call_impl(c, call):
    """apply one call to the cirbo Circuit c; result normalised to (label lists, levels).  Operand lists are
    real list objects, the same object when equal; no generator may modify a list it was given"""
    return ac.hand_over(call[0], lambda L: _call_impl(c, call, L))


def _call_impl(c, call, L):
    SM = _sm()
    k = call[0]
    if k == 'cell':
        return [list(getattr(SM, call[1])(c, L(call[2])))], []
    if k == 'nbits':
        return [list(SM.add_sum_n_bits(c, L(call[3]), basis=py_basis(call[1]), big_endian=call[2]))], []
    if k == 'easy':
        return [list(SM.add_sum_n_bits_easy(c, L(call[2]), big_endian=call[1]))], []
    if k == 'pow2':
        r = SM.add_sum_pow2_m1(c, L(call[3]), big_endian=call[2], basis=py_basis(call[1]))
        return [list(x) for x in r], []
    if k in ('weighted', 'naive'):
        f = SM.add_sum_n_weighted_bits if k == 'weighted' else SM.add_sum_n_weighted_bits_naive
        r = f(c, L([(w, l) for w, l in call[2]]), basis=py_basis(call[1]))
        return [[x[1] for x in r]], [x[0] for x in r]
    if k == 'sum2':
        return [list(SM.add_sum_two_numbers(c, L(call[1]), L(call[2]), big_endian=call[3]))], []
    if k == 'shift':
        return [list(SM.add_sum_two_numbers_with_shift(c, call[1], L(call[2]), L(call[3]),
                                                       big_endian=call[4]))], []
    raise ValueError(k)


def run_impl(case):
    """-> (('ok', (lists, levels, dump_after, counter)) | ('err', name), circuit after)"""
    c = ct.build_circuit(case['host'])
    env.uuid_counter.n = case['k0'] - 1
    try:
        lists, levels = call_impl(c, case['call'])
    except RecursionError:
        raise
    except Exception as e:  # noqa: BLE001
        return ('err', err_name(e)), c
    return ('ok', (lists, levels, ct.dump_circuit(c), env.uuid_counter.n + 1)), c


def gen_impl(gen):
    SM = _sm()
    k = gen[0]
    if k == 'gnbits':
        return SM.generate_sum_n_bits(gen[1], basis=py_basis(gen[2]), big_endian=gen[3])
    if k == 'gweighted':
        return SM.generate_sum_weighted_bits_efficient(list(gen[1]), basis=py_basis(gen[2]))
    if k == 'gnaive':
        return SM.generate_sum_weighted_bits_naive(list(gen[1]), basis=py_basis(gen[2]))
    raise ValueError(k)




def run_gen(case):
    env.uuid_counter.n = case['k0'] - 1
    try:
        c = gen_impl(case['gen'])
        ok, d1, c = ac.fresh_on_every_call(case, c, lambda: gen_impl(case['gen']))
    except RecursionError:
        raise
    except Exception as e:  # noqa: BLE001
        return ('err', err_name(e)), None
    if not ok:
        return ('err', ac.SHARED_STATE), None
    return ('ok', d1), c


# ------------------------------------------------------------------ Coq terms
def L(ls):
    return ct.labels([ren(x) for x in ls])


def B(b):
    return ct.boolean(bool(b))


def basis_term(b):
    return f'(BEnum {b[1]})' if b[0] == 'enum' else f'(BStr {ct.s(b[1])})'


def winp_term(inp):
    return ct.lst(f'({w}%N, {ct.s(ren(l))})' for w, l in inp)


def call_term(call):
    k = call[0]
    if k == 'cell':
        return f'(SCell {CELLS[call[1]][0]} {L(call[2])})'
    if k == 'nbits':
        return f'(SNBits {basis_term(call[1])} {B(call[2])} {L(call[3])})'
    if k == 'easy':
        return f'(SEasy {B(call[1])} {L(call[2])})'
    if k == 'pow2':
        return f'(SPow2 {basis_term(call[1])} {B(call[2])} {L(call[3])})'
    if k == 'weighted':
        return f'(SWeighted {basis_term(call[1])} {winp_term(call[2])})'
    if k == 'naive':
        return f'(SNaive {basis_term(call[1])} {winp_term(call[2])})'
    if k == 'sum2':
        return f'(SSum2 {L(call[1])} {L(call[2])} {B(call[3])})'
    if k == 'shift':
        return f'(SShift {call[1]} {L(call[2])} {L(call[3])} {B(call[4])})'
    raise ValueError(k)


def case_term(case, result):
    host = ct.circuit(ren_dump(case['host']))

    def okf(v):
        lists, levels, dump, k = v
        lv = ct.lst(f'{x}%N' for x in levels)
        return f'({ct.lst(L(x) for x in lists)}, {lv}, {ct.circuit(ren_dump(dump))}, {k}%N)'
    return f'({host}, {case["k0"]}%N, {call_term(case["call"])}, {ct.res(result, okf)})'


def gen_inputs(gen):
    n = gen[1] if gen[0] == 'gnbits' else len(gen[1])
    return [str(i) for i in range(n)]


def gen_term(gen):
    k = gen[0]
    ins = L(gen_inputs(gen))
    if k == 'gnbits':
        return f'(GNBits {ins} {basis_term(gen[2])} {B(gen[3])})'
    ws = ct.lst(f'{w}%N' for w in gen[1])
    name = 'GWeighted' if k == 'gweighted' else 'GNaive'
    return f'({name} {ins} {ws} {basis_term(gen[2])})'


def gen_case_term(case, result):
    return f'({case["k0"]}%N, {gen_term(case["gen"])}, {ct.res(result, lambda d: ct.circuit(ren_dump(d)))})'


# ------------------------------------------------------------------ case generators
ENUMS = [['enum', 'XAIG'], ['enum', 'AIG']]
STRS = [['str', 'XAIG'], ['str', 'AIG'], ['str', 'xaig'], ['str', 'aig']]
MIXED = [['str', 'Aig'], ['str', 'xAiG'], ['str', 'aIG'], ['str', 'Xaig']]
BAD = [['str', 'foo'], ['str', ''], ['str', 'AIG '], ['str', 'XAIGS']]


def spell(rng, which):
    """a random spelling of the basis `which`"""
    r = rng.random()
    if r < 0.34:
        return ['enum', which]
    if r < 0.56:
        return ['str', which]
    if r < 0.78:
        return ['str', which.lower()]
    return ['str', ''.join(ch.upper() if rng.random() < 0.5 else ch.lower() for ch in which)]


def k0_of(rng):
    return rng.choice([1, 1, 2, 5, 16, 255])


def operands(rng, n, on_host, k0, distinct=False):
    host = ac.mk_host(rng, n, on_host, k0)
    xs = ac.pick(rng, host, n, distinct=distinct) if on_host else list(host['inputs'])
    return host, xs


def mk_nbits(rng, kind, n, on_host, basis, be):
    k0 = k0_of(rng)
    host, xs = operands(rng, n, on_host, k0)
    if kind == 'easy':
        return {'host': host, 'k0': k0, 'call': ['easy', be, xs]}
    return {'host': host, 'k0': k0, 'call': [kind, basis, be, xs]}


def mk_weighted(rng, kind, ws, on_host, basis, shuffle=False):
    k0 = k0_of(rng)
    host, xs = operands(rng, len(ws), on_host, k0)
    inp = [[w, l] for w, l in zip(ws, xs)]
    if shuffle:
        rng.shuffle(inp)
    return {'host': host, 'k0': k0, 'call': [kind, basis, inp]}


def mk_shift(rng, n, m, shift, on_host, be):
    k0 = k0_of(rng)
    host = ac.mk_host(rng, n + m, on_host, k0)
    if on_host:
        a, b = ac.pick(rng, host, n), ac.pick(rng, host, m)
    else:
        a, b = host['inputs'][:n], host['inputs'][n:]
    return {'host': host, 'k0': k0, 'call': ['shift', shift, a, b, be]}


def pp_shape(n, m):
    """weights of the partial products of an n x m multiplication"""
    return [i + j for i in range(n) for j in range(m)]


def pow2_sizes(max_n):
    s = set(range(1, min(max_n, 12) + 1))
    k = 2
    while (1 << k) - 1 <= max_n:
        s |= {(1 << k) - 1, 1 << k}
        k += 1
    if max_n > 12:
        s |= set(range(13, max_n + 1, 5)) | {max_n, 33, 34, 46, 47}
    return sorted(x for x in s if x <= max(max_n, 32))


D27_WEIGHTS = [0] * 6 + [w for w in range(1, 7) for _ in range(3)] + [7]


def _d27_case():
    h = ac.bare_host(len(D27_WEIGHTS))
    return {'host': h, 'k0': 1, 'call': ['weighted', ['enum', 'XAIG'], [[w, l] for w, l in zip(D27_WEIGHTS, h['inputs'])]]}


def _sentinel_label_cases():
    """operand gates of the host that carry the label of the generators' own placeholder constant (exported as
    _utils.PLACEHOLDER_STR) or the empty label: legal gate labels, so "every host circuit and every choice of operand
    gates" includes them; an unfilled slot of a result list must be recognised by position, not by its content"""
    ph = '_PLACEHOLDER_STR_'
    h = gen.rename_dump(ac.bare_host(4), {'3': ph})
    out = []
    for be in (False, True):
        out += [{'host': h, 'k0': 1, 'call': ['shift', 5, ['0', '1'], ['2', ph], be]},
                {'host': h, 'k0': 1, 'call': ['shift', 4, [ph, '1'], ['2', '0'], be]},
                {'host': h, 'k0': 1, 'call': ['shift', 2, ['0', '1'], [ph, '2'], be]},
                {'host': h, 'k0': 1, 'call': ['shift', 1, ['0', ph, '1'], ['2'], be]},
                {'host': h, 'k0': 1, 'call': ['shift', 0, [ph], ['2', '1'], be]}]
    return out


def corpus_cases():
    """minimal inputs of the defects found on the pinned tree (D5, D6, D7); run first on every check"""
    h2 = ac.bare_host(2)
    return [
        {'host': h2, 'k0': 1, 'call': ['weighted', ['str', 'AIG'], [[0, '0'], [0, '1']]]},
        {'host': h2, 'k0': 1, 'call': ['naive', ['str', 'aig'], [[0, '0'], [0, '1']]]},
        {'host': h2, 'k0': 1, 'call': ['naive', ['str', 'foo'], [[0, '0'], [0, '1']]]},
        {'host': h2, 'k0': 1, 'call': ['pow2', ['enum', 'AIG'], False, ['0', '1']]},
        {'host': h2, 'k0': 1, 'call': ['shift', 2, ['0'], ['1'], False]},
        {'host': h2, 'k0': 1, 'call': ['shift', 3, ['0'], ['1'], True]},
        _d27_case(),
    ] + _sentinel_label_cases()


def quick_cases(rng, max_n=12, max_pow2=32, wlen=4, wmax=3, n_random_w=40, pp_max=6, shift_max=5, thorough=False):
    cases = corpus_cases()
    # the straight-line cells (regenerated by T4): right and wrong operand counts
    for name, (_, arity) in CELLS.items():
        for on_host in (False, True):
            k0 = k0_of(rng)
            host, xs = operands(rng, arity, on_host, k0)
            cases.append({'host': host, 'k0': k0, 'call': ['cell', name, xs]})
        k0 = k0_of(rng)
        host, xs = operands(rng, arity + rng.choice([-1, 1]), True, k0)
        cases.append({'host': host, 'k0': k0, 'call': ['cell', name, xs]})
    # bit counters
    for n in range(1, max_n + 1):
        for on_host in (False, True):
            for be in (False, True):
                for basis in ENUMS:
                    cases.append(mk_nbits(rng, 'nbits', n, on_host, basis, be))
                cases.append(mk_nbits(rng, 'easy', n, on_host, None, be))
            for basis in STRS:
                cases.append(mk_nbits(rng, 'nbits', n, on_host, basis, rng.random() < 0.5))
            cases.append(mk_nbits(rng, 'nbits', n, on_host, rng.choice(MIXED), rng.random() < 0.5))
    for n in pow2_sizes(max_pow2):
        for on_host in (False, True):
            for be in (False, True):
                for basis in ENUMS:
                    cases.append(mk_nbits(rng, 'pow2', n, on_host, basis, be))
            for basis in STRS:
                cases.append(mk_nbits(rng, 'pow2', n, on_host, basis, rng.random() < 0.5))
            cases.append(mk_nbits(rng, 'pow2', n, on_host, rng.choice(MIXED), rng.random() < 0.5))
    # weighted sums: every short weight vector, random longer ones, partial-product shapes
    vectors = [list(ws) for k in range(1, wlen + 1) for ws in itertools.product(range(wmax + 1), repeat=k)]
    for ws in vectors:
        for kind in ('weighted', 'naive'):
            for which in ('XAIG', 'AIG'):
                cases.append(mk_weighted(rng, kind, ws, rng.random() < 0.5, spell(rng, which)))
    for _ in range(n_random_w):
        n = rng.randint(5, max_n + 4)
        ws = [rng.randint(0, rng.choice([0, 1, 2, 4, 9])) for _ in range(n)]
        for kind in ('weighted', 'naive'):
            for which in ('XAIG', 'AIG'):
                cases.append(mk_weighted(rng, kind, ws, rng.random() < 0.5, spell(rng, which), shuffle=True))
    for n in range(1, pp_max + 1):
        for m in range(1, n + 1) if not thorough else range(1, pp_max + 1):
            for kind in ('weighted', 'naive'):
                for which in ('XAIG', 'AIG'):
                    cases.append(mk_weighted(rng, kind, pp_shape(n, m), rng.random() < 0.3, spell(rng, which)))
    # level-count patterns (first, mid * k, last): long carry chains, the shapes on which the gate-count
    # bounds are tight (D27 was found on 6, 3 * 6, 1)
    for _ in range(8 if not thorough else 60):
        counts = [rng.randint(1, 8)] + [rng.randint(1, 4)] * rng.randint(1, 7 if not thorough else 12) + [rng.randint(0, 3)]
        if rng.random() < 0.4:
            counts[rng.randrange(len(counts))] = rng.randint(0, 6)
        ws = [lev for lev, c in enumerate(counts) for _ in range(c)]
        if not ws or len(ws) > 48:
            continue
        for kind in ('weighted', 'naive'):
            for which in ('XAIG', 'AIG'):
                cases.append(mk_weighted(rng, kind, ws, False, spell(rng, which), shuffle=rng.random() < 0.5))
    for n in range(1, max_n + 1):            # all weights equal: the bit counter as a weighted sum
        for kind in ('weighted', 'naive'):
            for which in ('XAIG', 'AIG'):
                cases.append(mk_weighted(rng, kind, [rng.choice([0, 0, 2])] * n, rng.random() < 0.5, spell(rng, which)))
    # two-number adders
    for n in range(1, shift_max + 1):
        for m in range(1, shift_max + 1):
            for shift in range(0, n + 4):
                cases.append(mk_shift(rng, n, m, shift, rng.random() < 0.5, rng.random() < 0.5))
    for shift in (0, 1, 3, 7, 12):
        for be in (False, True):
            cases.append(mk_shift(rng, 8, rng.randint(1, 9), shift, rng.random() < 0.5, be))
    for n in range(1, min(max_n, 12) + 1):
        for be in (False, True):
            cases.append(ac.make_call(rng, 'sum2', n, rng.random() < 0.5, k0_of(rng), be=be, variant='uneq'))
    # error paths: unknown basis strings, empty operand lists, missing operands
    h = ac.make_host(rng, 3, 4)
    for bad in BAD:
        cases.append({'host': h, 'k0': 1, 'call': ['nbits', bad, False, ['x0', 'x1', 'x2']]})
        cases.append({'host': h, 'k0': 1, 'call': ['pow2', bad, False, ['x0', 'x1']]})
        cases.append({'host': h, 'k0': 1, 'call': ['pow2', bad, False, ['x0', 'x1', 'x2', 'x0']]})
        cases.append({'host': h, 'k0': 1, 'call': ['weighted', bad, [[0, 'x0'], [0, 'x1']]]})
        cases.append({'host': h, 'k0': 1, 'call': ['naive', bad, [[0, 'x0'], [0, 'x1'], [1, 'x2']]]})
    for call in (['nbits', ENUMS[0], False, []], ['nbits', ENUMS[1], True, []], ['easy', False, []],
                 ['pow2', ENUMS[0], False, []], ['pow2', BAD[0], False, ['x0']], ['weighted', ENUMS[0], []],
                 ['naive', ENUMS[1], []], ['shift', 0, [], ['x0'], False], ['shift', 2, [], ['x0'], False],
                 ['shift', 0, [], [], False], ['shift', 1, ['x0', 'x1'], [], False], ['shift', 3, ['x0'], [], True],
                 ['nbits', ENUMS[0], False, ['x0', 'nope']], ['nbits', ENUMS[1], False, ['x0', 'nope', 'x1']],
                 ['easy', False, ['nope', 'x0']], ['pow2', ENUMS[0], False, ['x0', 'x1', 'nope']],
                 ['weighted', ENUMS[0], [[0, 'x0'], [0, 'nope']]], ['naive', ENUMS[0], [[1, 'nope'], [1, 'x1']]],
                 ['shift', 1, ['x0', 'nope'], ['x1'], False],
                 ['weighted', ENUMS[0], [[0, 'inf_label'], [0, 'x1']]]):
        cases.append({'host': h, 'k0': k0_of(rng), 'call': call})
    return cases


def gen_cases(rng, max_n=8):
    cases = []
    for n in range(1, max_n + 1):
        for be in (False, True):
            for basis in ENUMS:
                cases.append({'gen': ['gnbits', n, basis, be], 'k0': 1})
        cases.append({'gen': ['gnbits', n, rng.choice(STRS + MIXED), rng.random() < 0.5], 'k0': 1})
        for which in ('XAIG', 'AIG'):
            ws = [rng.randint(0, 3) for _ in range(n)]
            cases.append({'gen': ['gweighted', ws, spell(rng, which)], 'k0': 1})
            cases.append({'gen': ['gnaive', ws, spell(rng, which)], 'k0': 1})
    cases.append({'gen': ['gweighted', pp_shape(3, 3), ['str', 'aig']], 'k0': 1})
    cases.append({'gen': ['gweighted', list(D27_WEIGHTS), ['str', 'xaig']], 'k0': 1})
    cases.append({'gen': ['gnaive', pp_shape(3, 2), ['str', 'Aig']], 'k0': 1})
    cases.append({'gen': ['gnbits', 0, ENUMS[0], False], 'k0': 1})
    cases.append({'gen': ['gweighted', [], ENUMS[0]], 'k0': 1})
    cases.append({'gen': ['gnaive', [1, 1], BAD[0]], 'k0': 1})
    return cases


# ------------------------------------------------------------------ the direct oracle
def call_basis(call):
    return call[1] if call[0] in ('nbits', 'pow2', 'weighted', 'naive') else None


def operand_labels(call):
    k = call[0]
    if k == 'cell':
        return [call[2]]
    if k in ('nbits', 'pow2'):
        return [call[3]]
    if k == 'easy':
        return [call[2]]
    if k in ('weighted', 'naive'):
        return [[l for _, l in call[2]]]
    if k == 'sum2':
        return [call[1], call[2]]
    if k == 'shift':
        return [call[2], call[3]]
    raise ValueError(k)


def well_formed_call(case):
    """operands exist, at least one operand per list, cells get their arity, weights and shift are
    natural numbers (the basis is looked at separately)"""
    call = case['call']
    labels = set(ac.host_labels(case['host']))
    ops = operand_labels(call)
    if any(len(x) == 0 for x in ops) or any(l not in labels for x in ops for l in x):
        return False
    if call[0] == 'cell' and len(call[2]) != CELLS[call[1]][1]:
        return False
    if call[0] in ('weighted', 'naive') and any(w < 0 for w, _ in call[2]):
        return False
    if call[0] == 'shift' and call[1] < 0:
        return False
    return True


def allowed_types(call):
    b = call_basis(call)
    if b is not None and resolved(b) == 'AIG':
        return AIG_TYPES, 'AIG'
    if call[0] == 'cell' and call[1].endswith('_aig'):
        return AIG_TYPES, 'AIG'
    return XAIG_TYPES, 'XAIG'


BOUND_RE = re.compile(r'not more than\s+([0-9.]+)\s*\*\s*n\s*-\s*([0-9.]+)\s*\*\s*m\s+in\s+xaig\s+and\s+'
                      r'([0-9.]+)\s*\*\s*n\s*-\s*([0-9.]+)\s*\*\s*m\s+in\s+aig')
DOC_OWNER = {'nbits': 'add_sum_n_bits', 'weighted': 'add_sum_n_weighted_bits', 'naive': 'add_sum_n_weighted_bits_naive',
             'gnbits': 'add_sum_n_bits', 'gweighted': 'generate_sum_weighted_bits_efficient',
             'gnaive': 'generate_sum_weighted_bits_naive'}


def documented_bound(kind, aig):
    """(a, b, text) with the DOCUMENTED bound `gates <= a * n - b * m` of the function behind `kind`, read
    from its docstring in the tree under test (fractions.Fraction); None when the docstring states no
    bound of the expected shape (the caller fails closed)"""
    from fractions import Fraction
    doc = getattr(_sm(), DOC_OWNER[kind]).__doc__ or ''
    m = BOUND_RE.search(' '.join(doc.split()))
    if not m:
        return None
    a, b = (m.group(3), m.group(4)) if aig else (m.group(1), m.group(2))
    return Fraction(a), Fraction(b), f'{a} * n - {b} * m'


def gate_bound(call, n_added, lists):
    """the documented gate-count bounds (docstrings of add_sum_n_bits, add_sum_n_weighted_bits(_naive))"""
    k = call[0]
    if k == 'cell':
        if n_added != CELL_GATES[call[1]]:
            return f'{call[1]} added {n_added} gates'
        return None
    if k not in ('nbits', 'weighted', 'naive'):
        return None
    n = len(operand_labels(call)[0])
    m = len(lists[0])
    d = documented_bound(k, resolved(call[1]) == 'AIG')
    if d is None:
        return f'{DOC_OWNER[k]}: the docstring no longer states a gate-count bound of the form a * n - b * m'
    a, b, text = d
    if n_added > a * n - b * m:
        return f'{n_added} gates added for n = {n}, m = {m}: more than the documented {text}'
    return None


def spec(call, lists, levels, val):
    """the value clause of the property under one evaluation of the circuit AFTER the call"""
    k = call[0]
    V = lambda ls: [int(val[l]) for l in ls]   # noqa: E731
    if k == 'cell':
        xs = V(call[2])
        o = V(lists[0])
        name = call[1]
        if name in ('add_sum2', 'add_sum3', 'add_sum2_aig', 'add_sum3_aig'):
            ok = o[0] + 2 * o[1] == sum(xs)
        elif name == 'add_stockmeyer_block':
            x1, x2, x23 = xs
            ok = o[0] + 2 * o[1] == x1 + x2 + (x2 ^ x23)
        else:
            if name == 'add_mdfa':
                z, x1, xy1, x2, xy2 = xs
            else:
                z = 0
                x1, xy1, x2, xy2 = xs
            total = z + x1 + (x1 ^ xy1) + x2 + (x2 ^ xy2)
            zz, a, ab = o
            ok = zz + 2 * (a + (a ^ ab)) == total
        return None if ok else f'{name}: outputs {o} for inputs {xs}'
    if k in ('nbits', 'easy'):
        be = call[2] if k == 'nbits' else call[1]
        xs = V(operand_labels(call)[0])
        got = ac.dec(V(lists[0]), be)
        return None if got == sum(xs) else f'{k}: {sum(xs)} ones counted as {got} (big_endian={be})'
    if k == 'pow2':
        xs = V(call[3])
        got = sum(sum(V(col)) << lev for lev, col in enumerate(lists))
        if len(lists[0]) != 1:
            return f'add_sum_pow2_m1: level 0 holds {len(lists[0])} bits'
        return None if got == sum(xs) else f'add_sum_pow2_m1: {sum(xs)} ones counted as {got}'
    if k in ('weighted', 'naive'):
        if max([w for w, _ in call[2]] + list(levels) + [0]) > 4096:
            # levels far above what an integer can hold as a shift: compare the sparse binary representations
            def normal(pairs):
                cnt = {}
                for lev, v in pairs:
                    if v:
                        cnt[lev] = cnt.get(lev, 0) + 1
                todo = sorted(cnt)
                while todo:
                    lev = todo.pop(0)
                    if cnt.get(lev, 0) >= 2:
                        cnt[lev + 1] = cnt.get(lev + 1, 0) + cnt[lev] // 2
                        cnt[lev] %= 2
                        if lev + 1 not in todo:
                            todo.append(lev + 1)
                            todo.sort()
                return sorted(lev for lev, n_ in cnt.items() if n_)
            exp = normal([(w, int(val[l])) for w, l in call[2]])
            got = normal(list(zip(levels, V(lists[0]))))
            return None if got == exp else f'{k}: weighted sum with set bits at levels {exp} returned as levels {got}'
        exp = sum(int(val[l]) << w for w, l in call[2])
        got = sum(v << lev for v, lev in zip(V(lists[0]), levels))
        return None if got == exp else f'{k}: weighted sum {exp} returned as {got}'
    if k == 'sum2':
        be = call[3]
        A, Bv = ac.dec(V(call[1]), be), ac.dec(V(call[2]), be)
        got = ac.dec(V(lists[0]), be)
        if len(lists[0]) != max(len(call[1]), len(call[2])) + 1:
            return 'add_sum_two_numbers: wrong number of result bits'
        return None if got == A + Bv else f'sum: {A} + {Bv} gave {got} (big_endian={be})'
    if k == 'shift':
        be = call[4]
        A, Bv = ac.dec(V(call[2]), be), ac.dec(V(call[3]), be)
        got = ac.dec(V(lists[0]), be)
        exp = A + (Bv << call[1])
        return None if got == exp else f'shifted sum: {A} + {Bv} * 2^{call[1]} gave {got} (big_endian={be})'
    raise ValueError(k)


def oracle(case, rng=None, limit_bits=14):
    """THE PROPERTY on the implementation for one case (None = holds / not applicable)"""
    import random
    rng = rng or random.Random(0)
    if 'gen' in case:
        return oracle_gen(case, rng, limit_bits)
    before = case['host']
    call = case['call']
    c0 = ct.build_circuit(before)
    (kind, payload), c = run_impl(case)
    wf = well_formed_call(case)
    b = call_basis(call)
    if kind == 'err':
        if wf and (b is None or resolved(b) is not None):
            return f'{call[0]} raised {payload} on a well-formed call'
        return None
    lists, levels, after, _ = payload
    msg = ac.structural(case, before, after, lists)
    if msg:
        return msg
    if not wf:
        return None                   # e.g. no operands: nothing is promised
    single = call[0] == 'pow2' and len(call[3]) == 1     # returns before looking at the basis
    if b is not None and resolved(b) is None and not single:
        return f'{call[0]} accepted the unknown basis {b[1]!r} and built a circuit'
    labels_before = {k for k, _, _ in before['gates']}
    added = [(k, t, ops) for k, t, ops in after['gates'] if k not in labels_before]
    allowed, bname = allowed_types(call)
    for k, t, ops in added:
        if t not in allowed or len(ops) > 2:
            return f'{call[0]} with basis {bname} added the gate {t}({len(ops)} operands), which is not in that basis'
    msg = gate_bound(call, len(added), lists)
    if msg:
        return msg
    existing = {k for k, _, _ in after['gates']}
    for ls in lists:
        for l in ls:
            if l not in existing:
                return f'{call[0]} returned the label {l!r}, which is not a gate of the circuit'
    if levels and len(set(levels)) != len(levels):
        return f'{call[0]}: returned levels {levels} are not pairwise distinct'
    inputs = list(before['inputs'])
    old_labels = [k for k, _, _ in before['gates']]
    for asg in ac.assignments(rng, inputs, limit_bits):
        v0 = c0.evaluate_full_circuit(dict(asg))
        v1 = c.evaluate_full_circuit(dict(asg))
        for l in old_labels:
            if v0[l] is not v1[l]:
                return f'frame: pre-existing gate {l} changed its value at {asg}'
        for ls in lists:
            for l in ls:
                if type(v1.get(l)) is not bool:
                    return f'result gate {l} has no Boolean value'
        msg = spec(call, lists, levels, v1)
        if msg:
            return msg + f' at {asg}'
    return None


def oracle_gen(case, rng, limit_bits=14):
    (kind, dump), c = run_gen(case)
    gen = case['gen']
    k = gen[0]
    n = len(gen_inputs(gen))
    b = gen[2]
    if kind == 'err':
        return f'{k} raised {dump}' if n >= 1 and resolved(b) is not None else None
    if n == 0:
        return None
    if resolved(b) is None:
        return f'{k} accepted the unknown basis {b[1]!r} and built a circuit'
    ins = list(dump['inputs'])
    if ins != gen_inputs(gen):
        return f'{k}: inputs {ins}'
    allowed = AIG_TYPES if resolved(b) == 'AIG' else XAIG_TYPES
    added = [(l, t, ops) for l, t, ops in dump['gates'] if t != 'INPUT']
    for l, t, ops in added:
        if t not in allowed or len(ops) > 2:
            return f'{k} with basis {resolved(b)} contains the gate {t}'
    m = len(dump['outputs'])
    d = documented_bound(k, resolved(b) == 'AIG')
    if d is None:
        return f'{DOC_OWNER[k]}: the docstring no longer states a gate-count bound of the form a * n - b * m'
    if len(added) > d[0] * n - d[1] * m:
        return f'{k}: {len(added)} gates for n = {n}, m = {m} exceed the documented {d[2]}'
    for asg in ac.assignments(rng, ins, limit_bits):
        vec = [asg[i] for i in ins]
        o = c.evaluate(vec)
        if any(type(x) is not bool for x in o):
            return f'{k}: non-Boolean output'
        if k == 'gnbits':
            if ac.dec(o, gen[3]) != sum(vec):
                return f'{k}: {sum(vec)} ones counted as {ac.dec(o, gen[3])}'
        else:
            # the wrappers return the output gates only: the levels are those of a minimal
            # representation, i.e. the value must be recoverable with SOME strictly increasing levels;
            # check the natural reading: the sum as a number written on distinct levels
            exp = sum(int(v) << w for v, w in zip(vec, gen[1]))
            lv = _wrapper_levels(gen)
            got = sum(int(v) << l for v, l in zip(o, lv))
            if len(lv) != len(o) or got != exp:
                return f'{k}: weighted sum {exp} returned as {got}'
    return None


def _wrapper_levels(gen):
    """levels of the outputs of generate_sum_weighted_bits_*: recomputed by calling the add_
    function on a scratch circuit (the wrapper drops them)"""
    from cirbo.core.circuit import Circuit
    SM = _sm()
    saved = env.uuid_counter.n
    c = Circuit.bare_circuit(len(gen[1]))
    f = SM.add_sum_n_weighted_bits if gen[0] == 'gweighted' else SM.add_sum_n_weighted_bits_naive
    r = f(c, [(w, l) for w, l in zip(gen[1], c.inputs)], basis=py_basis(gen[2]))
    env.uuid_counter.n = saved
    return [x[0] for x in r]
