"""End-to-end oracle and instrumentation for minimize_subcircuits (C04)."""
import copy
import itertools
import random

from . import coqterm as ct
from . import evalcorr, gen, semoracle, wforacle

SUPPORTED = ['NOT', 'AND', 'NAND', 'OR', 'NOR', 'XOR', 'NXOR', 'GEQ', 'LT', 'LEQ', 'GT']
NONTRIVIAL_EXCL = None
NARY = ('AND', 'OR', 'XOR', 'NAND', 'NOR', 'NXOR')


def random_supported_circuit(rng, n_inputs=None, n_gates=None):
    n_inputs = rng.choice([2, 3, 3, 4, 4, 5]) if n_inputs is None else n_inputs
    n_gates = rng.randint(2, 12) if n_gates is None else n_gates
    used, order, avail = set(), [], []
    for _ in range(n_inputs):
        l = gen.fresh_label(rng, used)
        used.add(l)
        order.append((l, 'INPUT', []))
        avail.append(l)
    for _ in range(n_gates):
        t = rng.choice(SUPPORTED)
        pool = avail if rng.random() < 0.5 else avail[-5:]
        ops = [rng.choice(pool)] if t == 'NOT' else rng.sample(pool, 2) if len(set(pool)) >= 2 else [pool[0], pool[0]]
        if t in NARY and rng.random() < 0.15:
            # AND/OR/XOR/NAND/NOR/NXOR accept any number >= 2 of operands (defect D25: the pattern
            # simulation read only the first two)
            k = rng.choice([3, 3, 4])
            ops = rng.sample(pool, k) if len(pool) >= k and rng.random() < 0.8 else [rng.choice(pool) for _ in range(k)]
        l = gen.fresh_label(rng, used)
        used.add(l)
        order.append((l, t, ops))
        avail.append(l)
    users = {}
    for l, t, ops in order:
        for o in ops:
            users.setdefault(o, []).append(l)
    non_in = [l for l, t, _ in order if t != 'INPUT']
    k = rng.randint(1, min(3, len(non_in)))
    outs = rng.sample(non_in, k)
    if rng.random() < 0.3:
        outs.append(non_in[-1])
    if rng.random() < 0.2:
        outs.insert(rng.randrange(len(outs) + 1), rng.choice(outs))     # an output listed twice
    return {'inputs': [l for l, t, _ in order if t == 'INPUT'], 'outputs': outs, 'gates': order,
            'users': list(users.items()), 'blocks': []}


def absorption_circuit(rng):
    """gates that EQUAL one of their cut leaves on every assignment (absorption: AND(a, OR(a, b)),
    OR(a, AND(a, b)), XOR(XOR(a, b), b), NOT NOT a), also as outputs listed several times and next to ordinary
    logic: minimize_subcircuits merges such a gate into the leaf without calling the solver"""
    used, order = set(), []

    def new(t, ops):
        l = gen.fresh_label(rng, used)
        used.add(l)
        order.append((l, t, list(ops)))
        return l
    ins = [new('INPUT', []) for _ in range(rng.choice([2, 3, 3, 4]))]
    avail = list(ins)
    eq = []
    for _ in range(rng.randint(1, 3)):
        a, b = rng.sample(avail, 2)
        k = rng.randrange(4)
        if k == 0:
            g = new('AND', [a, new('OR', [a, b])])
        elif k == 1:
            g = new('OR', [a, new('AND', rng.sample([a, b], 2))])
        elif k == 2:
            g = new('XOR', [new('XOR', [a, b]), b])
        else:
            g = new('NOT', [new('NOT', [a])])
        eq.append(g)
        avail.append(g)
    others = []
    for _ in range(rng.randint(0, 4)):
        t = rng.choice(SUPPORTED)
        ops = [rng.choice(avail)] if t == 'NOT' else rng.sample(avail, 2)
        others.append(new(t, ops))
        avail.append(others[-1])
    outs = [rng.choice(eq)]
    for _ in range(rng.randint(1, 3)):
        outs.append(rng.choice(eq + others + [outs[0], outs[0]]))
    users = {}
    for l, t, ops in order:
        for o in ops:
            users.setdefault(o, []).append(l)
    return {'inputs': ins, 'outputs': outs, 'gates': order, 'users': list(users.items()), 'blocks': []}


def has_equivalent_gates(dump):
    """two gates (inputs included) with equal or complementary truth tables, or constant gates"""
    ins = dump['inputs']
    cols = {}
    for a in semoracle.all_assignments(ins):
        ref = evalcorr.ref_eval(dump, a)
        for l, v in ref.items():
            cols.setdefault(l, []).append(v)
    seen = {}
    for l, col in cols.items():
        k = tuple(col)
        nk = tuple(not x for x in col)
        if k in seen or nk in seen or len(set(col)) == 1:
            return True
        seen[k] = l
    return False


def has_nary_xor(dump):
    return any(t in ('XOR', 'NXOR') and len(ops) > 2 for _, t, ops in dump['gates'])


def run_minimize(case):
    """-> ('ok', dump) | ('err', exception name, where)"""
    import traceback
    import mockturtle_wrapper as mw
    from cirbo.minimization.subcircuit import minimize_subcircuits
    import pysat.solvers as shim_solver
    c = ct.build_circuit(case['circuit'])
    mw.FAMILY_RNG = random.Random(case['cut_seed']) if case.get('cut_seed') is not None else None
    # the stand-in solver gives up (SolverTimeOutError, as with solver_time_limit_sec) after a fixed number of
    # propagations: deterministic, about 2 s; ordinary synthesis calls of these runs need well under a tenth of it
    shim_solver.PROPAGATION_LIMIT = case.get('propagation_limit', 5000000)
    try:
        out = minimize_subcircuits(c, case['basis'], enable_validation=case.get('validate', False),
                                   max_subcircuit_size=case.get('max_subcircuit_size', 9),
                                   solver_time_limit_sec=case.get('time_limit', 15),
                                   cut_size=case.get('cut_size', 5), cut_limit=case.get('cut_limit', 25))
    except Exception as e:  # noqa: BLE001
        case['_closed_family'] = mw.family_is_closed() if mw.LAST_FAMILY is not None else True
        tb = traceback.extract_tb(e.__traceback__)
        where = next((f'{f.name}:{f.line}' for f in reversed(tb) if 'cirbo' in f.filename), '?')
        fn = next((f.name for f in reversed(tb) if f.filename.endswith('subcircuit.py')), '?')
        return ('err', type(e).__name__, fn, where)
    finally:
        mw.FAMILY_RNG = None
        shim_solver.PROPAGATION_LIMIT = None
        case['_closed_family'] = mw.family_is_closed() if mw.LAST_FAMILY is not None else True
    return ('ok', ct.dump_circuit(out))


def oracle(case):
    dump = case['circuit']
    res = run_minimize(case)
    if res[0] == 'err':
        if res[1] == 'FailedValidationError':
            if not case.get('_closed_family', True):
                return 'FailedValidationError (cut family not closed under sub-cuts): validation of the minimized circuit failed'
            return 'FailedValidationError: validation of the minimized circuit failed'
        if has_equivalent_gates(dump):
            return None      # internal errors are only excluded on circuits without equivalent gates
        return f'internal error {res[1]}@{res[2]} ({res[3]})'
    out = res[1]
    if out['inputs'] != dump['inputs']:
        return f'inputs changed: {out["inputs"]} vs {dump["inputs"]}'
    if len(out['outputs']) != len(dump['outputs']):
        return 'number of outputs changed'
    oc = ct.build_circuit(out)
    msg = wforacle.wf_violation(oc)
    if msg:
        return 'result not well formed: ' + msg
    try:
        got = oc.get_truth_table()
    except Exception as e:  # noqa: BLE001
        return f'result cannot be evaluated: {type(e).__name__}'
    if got != semoracle.truth_table_of(dump):
        if not case.get('_closed_family', True):
            return 'wrong function (cut family not closed under sub-cuts): truth table of the result differs'
        return 'wrong function: truth table of the result differs'
    n0 = ct.build_circuit(dump).gates_number()
    if oc.gates_number() > n0:
        return f'result has more non-trivial gates ({oc.gates_number()}) than the argument ({n0})'
    return None
