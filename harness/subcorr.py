"""End-to-end oracle and instrumentation for minimize_subcircuits (C04)."""
import copy
import itertools
import random

from . import coqterm as ct
from . import evalcorr, gen, semoracle, wforacle

SUPPORTED = ['NOT', 'AND', 'NAND', 'OR', 'NOR', 'XOR', 'NXOR', 'GEQ', 'LT', 'LEQ', 'GT']
NONTRIVIAL_EXCL = None
NARY = ('AND', 'OR', 'XOR', 'NAND', 'NOR', 'NXOR')


def random_supported_circuit(rng, n_inputs=None, n_gates=None):
    n_inputs = rng.choice([2, 3, 3, 4, 4, 5]) if n_inputs is None else n_inputs
    n_gates = rng.randint(2, 12) if n_gates is None else n_gates
    used, order, avail = set(), [], []
    for _ in range(n_inputs):
        l = gen.fresh_label(rng, used)
        used.add(l)
        order.append((l, 'INPUT', []))
        avail.append(l)
    for _ in range(n_gates):
        t = rng.choice(SUPPORTED)
        pool = avail if rng.random() < 0.5 else avail[-5:]
        ops = [rng.choice(pool)] if t == 'NOT' else rng.sample(pool, 2) if len(set(pool)) >= 2 else [pool[0], pool[0]]
        if t in NARY and rng.random() < 0.15:
            # AND/OR/XOR/NAND/NOR/NXOR accept any number >= 2 of operands (defect D25: the pattern
            # simulation read only the first two)
            k = rng.choice([3, 3, 4])
            ops = rng.sample(pool, k) if len(pool) >= k and rng.random() < 0.8 else [rng.choice(pool) for _ in range(k)]
        l = gen.fresh_label(rng, used)
        used.add(l)
        order.append((l, t, ops))
        avail.append(l)
    users = {}
    for l, t, ops in order:
        for o in ops:
            users.setdefault(o, []).append(l)
    non_in = [l for l, t, _ in order if t != 'INPUT']
    k = rng.randint(1, min(3, len(non_in)))
    outs = rng.sample(non_in, k)
    if rng.random() < 0.3:
        outs.append(non_in[-1])
    if rng.random() < 0.2:
        outs.insert(rng.randrange(len(outs) + 1), rng.choice(outs))     # an output listed twice
    ins_ = [l for l, t, _ in order if t == 'INPUT']
    if rng.random() < 0.25:
        # the gate map need not be stored operands-first (bench text with forward references, rename_gate, an
        # earlier replace_subcircuit): same circuit, another storage order
        order = list(order)
        rng.shuffle(order)
    return {'inputs': ins_, 'outputs': outs, 'gates': order,
            'users': list(users.items()), 'blocks': []}


COMPLEMENT = {'AND': 'NAND', 'NAND': 'AND', 'OR': 'NOR', 'NOR': 'OR', 'XOR': 'NXOR', 'NXOR': 'XOR',
              'GT': 'LEQ', 'LEQ': 'GT', 'LT': 'GEQ', 'GEQ': 'LT'}


def negated_twin_circuit(rng):
    """two outputs F and N with N = NOT F, each computed by its own private gates (the second cone is a
    relabelled copy of the first whose top gate has the complementary type), plus some ordinary logic, in a random
    insertion order of inputs and gates: no two gates have the same function, yet one output is the negation of
    another one"""
    used, ins = set(), []
    for _ in range(rng.choice([3, 4, 4])):
        l = gen.fresh_label(rng, used)
        used.add(l)
        ins.append(l)
    cone, avail = [], list(ins)
    for _ in range(rng.randint(2, 4)):
        t = rng.choice([x for x in SUPPORTED if x != 'NOT'])
        l = gen.fresh_label(rng, used)
        used.add(l)
        cone.append((l, t, rng.sample(avail, 2)))
        avail.append(l)
    top = cone[-1][0]
    ren = {}
    twin = []
    for l, t, ops in cone:
        nl = gen.fresh_label(rng, used)
        used.add(nl)
        ren[l] = nl
        twin.append((nl, COMPLEMENT[t] if l == top else t, [ren.get(o, o) for o in ops]))
    if rng.random() < 0.5:
        # make the first cone improvable: a redundant re-statement of its top gate
        l = gen.fresh_label(rng, used)
        used.add(l)
        cone.append((l, 'AND', [top, top]))
        top = l
    extra = []
    for _ in range(rng.randint(0, 2)):
        l = gen.fresh_label(rng, used)
        used.add(l)
        extra.append((l, rng.choice(['AND', 'OR', 'XOR']), rng.sample(avail, 2)))
    blocks = [cone, twin, extra]
    rng.shuffle(blocks)
    rng.shuffle(ins)
    order = [(i, 'INPUT', []) for i in ins] + [g for b in blocks for g in b]
    users = {}
    for l, t, ops in order:
        for o in ops:
            users.setdefault(o, []).append(l)
    outs = [top, ren[cone[-1][0]] if cone[-1][0] in ren else twin[-1][0]] + [g[0] for g in extra]
    outs[1] = twin[-1][0]
    rng.shuffle(outs)
    return {'inputs': ins, 'outputs': outs, 'gates': order, 'users': list(users.items()), 'blocks': []}


def negated_output_cone_circuit(rng):
    """L = op(a, b), F = g(L, c), u = h(L, d), N = g'(u, v-ish) arranged so that inside one cut over (L, c, d)
    one output is the negation of another and has PRIVATE gates, while a sibling cut over the inputs contains those
    private gates too; inputs, gates and outputs in a random insertion order (the order decides which cut is
    processed first).  No two gates have the same function"""
    used = set()

    def new():
        l = gen.fresh_label(rng, used)
        used.add(l)
        return l
    a, b, c, d = new(), new(), new(), new()
    L, F, u, N = new(), new(), new(), new()
    t1 = rng.choice(['AND', 'OR', 'XOR', 'NAND'])
    tf, tn = rng.choice([('XOR', 'NXOR'), ('NXOR', 'XOR')])
    # F = L xor c ; u = (L xor c) ... with d mixed in and cancelled:  u = XOR(L, d), N = NXOR-ish(XOR(u, d), c)
    w = new()
    gates = {L: (t1, [a, b]), F: (tf, [L, c]), u: ('XOR', [L, d]), w: ('XOR', [u, d]), N: (tn, [w, c])}
    extra = []
    if rng.random() < 0.5:
        e = new()
        gates[e] = (rng.choice(['AND', 'OR']), [u, a])
        extra.append(e)
    ins = [a, b, c, d]
    rng.shuffle(ins)
    # any insertion order that respects "operands first" is a legal history; sample one
    order, placed, pending = [], set(ins), dict(gates)
    while pending:
        ready = [l for l, (t, ops) in pending.items() if all(o in placed for o in ops)]
        l = rng.choice(ready)
        order.append((l,) + tuple(pending.pop(l)))
        placed.add(l)
    full = [(i, 'INPUT', []) for i in ins] + [(l, t, list(ops)) for l, t, ops in order]
    users = {}
    for l, t, ops in full:
        for o in ops:
            users.setdefault(o, []).append(l)
    outs = [F, N] + extra
    rng.shuffle(outs)
    return {'inputs': ins, 'outputs': outs, 'gates': full, 'users': list(users.items()), 'blocks': []}


_NEG_TEMPLATE = {'L': ('AND', ['a', 'b']), 't1': ('AND', ['c', 'd']), 't2': ('AND', ['c', 'L']), 'F': ('OR', ['t1', 't2']),
                 'nc': ('NOT', ['c']), 'p': ('NOR', ['d', 'L']), 'N': ('OR', ['nc', 'p'])}
# insertion orders in which the cut (L, c, d) - where N is the negation of the improvable F and loses its private
# gates - is processed BEFORE the sibling cut (a, b, d) rooted in one of those private gates
_NEG_ORDERS = [('cabd', ('L', 'nc', 't1', 't2', 'F', 'p', 'N')), ('cabd', ('nc', 'L', 't2', 't1', 'F', 'p', 'N')),
               ('cadb', ('L', 'nc', 't1', 't2', 'F', 'p', 'N'))]


def negated_output_template(rng):
    """F = c & (d | L) in three gates (improvable), N = ~F with private gates nc, p, L = op(a, b); one of the known
    critical insertion orders or a random legal one; random labels"""
    used = set()
    names = {}
    for k in list('abcd') + list(_NEG_TEMPLATE):
        names[k] = gen.fresh_label(rng, used)
        used.add(names[k])
    tmpl = dict(_NEG_TEMPLATE)
    tmpl['L'] = (rng.choice(['AND', 'OR', 'XOR', 'NOR']), ['a', 'b'])
    if rng.random() < 0.7:
        ins, order = rng.choice(_NEG_ORDERS)
        ins, order = list(ins), list(order)
    else:
        ins = list('abcd')
        rng.shuffle(ins)
        order, placed, pending = [], set(ins), dict(tmpl)
        while pending:
            ready = sorted(l for l, (t, ops) in pending.items() if all(o in placed for o in ops))
            l = rng.choice(ready)
            order.append(l)
            pending.pop(l)
            placed.add(l)
    full = [(names[i], 'INPUT', []) for i in ins] + [(names[l], tmpl[l][0], [names[o] for o in tmpl[l][1]]) for l in order]
    users = {}
    for l, t, ops in full:
        for o in ops:
            users.setdefault(o, []).append(l)
    outs = [names['F'], names['N']]
    if rng.random() < 0.3:
        outs.reverse()
    return {'inputs': [names[i] for i in ins], 'outputs': outs, 'gates': full, 'users': list(users.items()),
            'blocks': []}


def absorption_circuit(rng):
    """gates that EQUAL one of their cut leaves on every assignment (absorption: AND(a, OR(a, b)),
    OR(a, AND(a, b)), XOR(XOR(a, b), b), NOT NOT a), also as outputs listed several times and next to ordinary
    logic: minimize_subcircuits merges such a gate into the leaf without calling the solver"""
    used, order = set(), []

    def new(t, ops):
        l = gen.fresh_label(rng, used)
        used.add(l)
        order.append((l, t, list(ops)))
        return l
    ins = [new('INPUT', []) for _ in range(rng.choice([2, 3, 3, 4]))]
    avail = list(ins)
    eq = []
    for _ in range(rng.randint(1, 3)):
        a, b = rng.sample(avail, 2)
        k = rng.randrange(4)
        if k == 0:
            g = new('AND', [a, new('OR', [a, b])])
        elif k == 1:
            g = new('OR', [a, new('AND', rng.sample([a, b], 2))])
        elif k == 2:
            g = new('XOR', [new('XOR', [a, b]), b])
        else:
            g = new('NOT', [new('NOT', [a])])
        eq.append(g)
        avail.append(g)
    others = []
    for _ in range(rng.randint(0, 4)):
        t = rng.choice(SUPPORTED)
        ops = [rng.choice(avail)] if t == 'NOT' else rng.sample(avail, 2)
        others.append(new(t, ops))
        avail.append(others[-1])
    outs = [rng.choice(eq)]
    for _ in range(rng.randint(1, 3)):
        outs.append(rng.choice(eq + others + [outs[0], outs[0]]))
    users = {}
    for l, t, ops in order:
        for o in ops:
            users.setdefault(o, []).append(l)
    return {'inputs': ins, 'outputs': outs, 'gates': order, 'users': list(users.items()), 'blocks': []}


# 'functionally equivalent gates' of the property = two gates with the SAME function (or a constant gate);
# a gate and its complement are different functions
COMPLEMENT_IS_EQUIVALENT = False


def has_equivalent_gates(dump):
    """two gates (inputs included) with equal or complementary truth tables, or constant gates"""
    ins = dump['inputs']
    cols = {}
    for a in semoracle.all_assignments(ins):
        ref = evalcorr.ref_eval(dump, a)
        for l, v in ref.items():
            cols.setdefault(l, []).append(v)
    seen = {}
    for l, col in cols.items():
        k = tuple(col)
        nk = tuple(not x for x in col)
        if k in seen or (COMPLEMENT_IS_EQUIVALENT and nk in seen) or len(set(col)) == 1:
            return True
        seen[k] = l
    return False


def has_nary_xor(dump):
    return any(t in ('XOR', 'NXOR') and len(ops) > 2 for _, t, ops in dump['gates'])


def run_minimize(case):
    """-> ('ok', dump) | ('err', exception name, where)"""
    import traceback
    import mockturtle_wrapper as mw
    from cirbo.minimization.subcircuit import minimize_subcircuits
    import pysat.solvers as shim_solver
    c = ct.build_circuit(case['circuit'])
    mw.FAMILY_RNG = random.Random(case['cut_seed']) if case.get('cut_seed') is not None else None
    # the stand-in solver gives up (SolverTimeOutError, as with solver_time_limit_sec) after a fixed number of
    # propagations: deterministic, about 2 s; ordinary synthesis calls of these runs need well under a tenth of it
    shim_solver.PROPAGATION_LIMIT = case.get('propagation_limit', 5000000)
    try:
        out = minimize_subcircuits(c, case['basis'], enable_validation=case.get('validate', False),
                                   max_subcircuit_size=case.get('max_subcircuit_size', 9),
                                   solver_time_limit_sec=case.get('time_limit', 15),
                                   cut_size=case.get('cut_size', 5), cut_limit=case.get('cut_limit', 25))
    except Exception as e:  # noqa: BLE001
        case['_closed_family'] = mw.family_is_closed() if mw.LAST_FAMILY is not None else True
        tb = traceback.extract_tb(e.__traceback__)
        where = next((f'{f.name}:{f.line}' for f in reversed(tb) if 'cirbo' in f.filename), '?')
        fn = next((f.name for f in reversed(tb) if f.filename.endswith('subcircuit.py')), '?')
        return ('err', type(e).__name__, fn, where)
    finally:
        mw.FAMILY_RNG = None
        shim_solver.PROPAGATION_LIMIT = None
        case['_closed_family'] = mw.family_is_closed() if mw.LAST_FAMILY is not None else True
    return ('ok', ct.dump_circuit(out))


def oracle(case):
    dump = case['circuit']
    res = run_minimize(case)
    if res[0] == 'err':
        if res[1] == 'FailedValidationError':
            if not case.get('_closed_family', True):
                return 'FailedValidationError (cut family not closed under sub-cuts): validation of the minimized circuit failed'
            return 'FailedValidationError: validation of the minimized circuit failed'
        if has_equivalent_gates(dump):
            return None      # internal errors are only excluded on circuits without equivalent gates
        return f'internal error {res[1]}@{res[2]} ({res[3]})'
    out = res[1]
    if out['inputs'] != dump['inputs']:
        return f'inputs changed: {out["inputs"]} vs {dump["inputs"]}'
    if len(out['outputs']) != len(dump['outputs']):
        return 'number of outputs changed'
    oc = ct.build_circuit(out)
    msg = wforacle.wf_violation(oc)
    if msg:
        return 'result not well formed: ' + msg
    try:
        got = [list(r) for r in oc.get_truth_table()]
    except Exception as e:  # noqa: BLE001
        return f'result cannot be evaluated: {type(e).__name__}'
    if got != semoracle.truth_table_of(dump):
        if not case.get('_closed_family', True):
            return 'wrong function (cut family not closed under sub-cuts): truth table of the result differs'
        return 'wrong function: truth table of the result differs'
    n0 = ct.build_circuit(dump).gates_number()
    if oc.gates_number() > n0:
        return f'result has more non-trivial gates ({oc.gates_number()}) than the argument ({n0})'
    return None
