"""Correspondence and direct oracle for the database codec (C16) and the database lookups (C17).

Cases are JSON dictionaries with a 'kind':
  bits     {'bits': [0/1...]}
  numbers  {'writes': [[x, k]...], 'reads': [k...]}
  dict     {'entries': [[key str, value hex]...], 'streams': [hex...]}      streams: extra byte strings to read
  circuit  {'circuit': dump, 'variants': [hex...]}                           variants: extra byte strings to decode
  db       {'adds': [[label str, dump]...], 'gets': [label str...]}
`run_<kind>(case)` executes the implementation and returns the Coq term of the case with the recorded results
(checked by Model/CodecCases.v); `oracle(case)` is the property text evaluated on the implementation alone.
"""
import copy
import io
import itertools

from . import coqterm as ct
from . import gen
from . import evalcorr

HEADER = ('Require Import Cirbo.Model.Base Cirbo.Model.Gate Cirbo.Model.Circuit Cirbo.Model.History '
          'Cirbo.Model.BitIO Cirbo.Model.DictIO Cirbo.Model.Codec Cirbo.Model.Db Cirbo.Model.CodecCases.')

FORMAT_TYPES = ['NOT', 'AND', 'OR', 'NOR', 'NAND', 'XOR', 'NXOR', 'IFF', 'GEQ', 'GT', 'LEQ', 'LT',
                'ALWAYS_TRUE', 'ALWAYS_FALSE']
CODEC_ERRORS = ('CircuitEncodingError', 'BitIOError')


def fmt_arity(t):
    """the arity the binary format defines for a gate type (module docstring + _get_arity)"""
    return 1 if t in ('NOT', 'IFF') else 2


# ---------------------------------------------------------------- names of exceptions
def err_name(e) -> str:
    n = type(e).__name__
    if n == 'OverflowError':
        return 'PyValueError'            # no constructor in Base.err; see Model/DictIO.v
    if n == 'CircuitsDatabaseError':
        return 'DB:CircuitsDatabaseError'
    if n == 'CircuitIsNotCompatibleWithNormalizationParameters':
        return 'DB:NotCompatibleWithNormalization'
    return ct.err_name(e)


def call(fn, conv=lambda x: x):
    try:
        r = fn()
    except RecursionError:
        raise
    except Exception as e:  # noqa: BLE001 - every exception is a result
        return ('err', err_name(e))
    return ('ok', conv(r))


# ---------------------------------------------------------------- Coq terms
def nl(xs) -> str:
    return '([' + '; '.join(str(int(x)) for x in xs) + ']%N)'


def bl_(b: bytes) -> str:
    return nl(b)


def bools(bs) -> str:
    return ct.lst('true' if b else 'false' for b in bs)


def res(r, okf) -> str:
    kind, val = r
    if kind == 'ok':
        return f'(Ok {okf(val)})'
    if val.startswith('UNMODELLED_') or val.startswith('DB:'):
        return '(Err UnmodelledPythonException)'
    return f'(Err {val})'


def dbres(r, okf) -> str:
    kind, val = r
    if kind == 'ok':
        return f'(DbOk {okf(val)})'
    if val.startswith('DB:'):
        return f'(DbErr {val[3:]})'
    if val.startswith('UNMODELLED_'):
        return '(DbErr (BaseErr UnmodelledPythonException))'
    return f'(DbErr (BaseErr {val}))'


def entries_term(es) -> str:
    return ct.lst(f'({nl(k)}, {nl(v)})' for k, v in es)


def dict_entries(d) -> list:
    return [(list(k.encode('utf-8')), list(v)) for k, v in d.items()]


def table_term(t) -> str:
    return ct.lst(bools(row) for row in t)


# ---------------------------------------------------------------- generators
def users_of(order):
    users = {}
    for l, _, ops in order:
        for o in ops:
            users.setdefault(o, []).append(l)
    return list(users.items())


def format_circuit(rng, n_inputs=None, n_gates=None, shuffle=True, max_outputs=4):
    """a circuit inside the binary format: the 14 encodable types, one operand for NOT/IFF, two otherwise
    (constants included), any storage order, any input order, outputs may repeat / be inputs"""
    n_inputs = rng.choice([0, 1, 1, 2, 2, 3, 3, 4, 5, 6]) if n_inputs is None else n_inputs
    n_gates = gen.pick_size(rng) if n_gates is None else n_gates
    used, order, avail = set(), [], []
    for _ in range(n_inputs):
        l = gen.fresh_label(rng, used)
        used.add(l)
        order.append((l, 'INPUT', []))
        avail.append(l)
    for _ in range(n_gates):
        if not avail:
            break
        t = rng.choice(FORMAT_TYPES)
        pool = avail if rng.random() < 0.5 else avail[-6:]
        l = gen.fresh_label(rng, used)
        used.add(l)
        order.append((l, t, [rng.choice(pool) for _ in range(fmt_arity(t))]))
        avail.append(l)
    gates = list(order)
    if shuffle and rng.random() < 0.6:
        rng.shuffle(gates)
    ins = [l for l, t, _ in order if t == 'INPUT']
    if rng.random() < 0.3:
        rng.shuffle(ins)
    outs = []
    if avail:
        k = rng.randint(0, max_outputs) if rng.random() < 0.9 else rng.randint(5, 20)
        outs = [rng.choice(avail) for _ in range(k)]
    return {'inputs': ins, 'outputs': outs, 'gates': gates, 'users': users_of(order), 'blocks': []}


def spoil(rng, dump):
    """turn a format circuit into one just outside the format (what the repaired encoder must reject)"""
    gates = [list(g) for g in dump['gates']]
    idx = [i for i, g in enumerate(gates) if g[1] != 'INPUT']
    if not idx:
        return dump
    i = rng.choice(idx)
    l, t, ops = gates[i]
    how = rng.choice(['extra', 'const0', 'type', 'short'])
    if how == 'extra' and ops:
        gates[i] = [l, rng.choice(['AND', 'OR', 'XOR', 'NAND', 'NOR', 'NXOR']), list(ops[:2]) + [ops[0]] * (3 - len(ops[:2]))]
    elif how == 'const0':
        gates[i] = [l, rng.choice(['ALWAYS_TRUE', 'ALWAYS_FALSE']), []]
    elif how == 'type' and len(ops) == 2:
        gates[i] = [l, rng.choice(['LIFF', 'RIFF', 'LNOT', 'RNOT']), ops]
    elif ops:
        gates[i] = [l, 'ALWAYS_TRUE' if rng.random() < 0.5 else 'ALWAYS_FALSE', ops[:1]]
    gates = [tuple(g) for g in gates]
    # users follow the gate map as it now is (creation order is unknown here: any order is a legal state)
    return {'inputs': list(dump['inputs']), 'outputs': list(dump['outputs']), 'gates': gates,
            'users': users_of(gates), 'blocks': []}


def random_codec_circuit(rng):
    r = rng.random()
    if r < 0.55:
        return format_circuit(rng), 'format'
    if r < 0.75:
        return spoil(rng, format_circuit(rng)), 'spoiled'
    return gen.random_circuit(rng, with_blocks=False), 'general'


KEY_ALPHABET = ['a', 'b', 'Z', '0', '1', '_', ' ', '\x00', '\n', '"', 'é', 'ß', 'я', '日', '本', '€', '😀', '\U0010ffff',
                '\x7f', '\x80', '߿', 'ࠀ', '퟿', '', '￿', '\U00010000']


def random_key(rng):
    if rng.random() < 0.4:
        return ''.join(rng.choice('01_') for _ in range(rng.randint(0, 12)))
    return ''.join(rng.choice(KEY_ALPHABET) for _ in range(rng.randint(0, 6)))


def random_dict(rng, max_entries=6):
    d = {}
    for _ in range(rng.randint(0, max_entries)):
        n = rng.choice([0, 1, 2, 3, 5, 8, 20, 40]) if rng.random() < 0.95 else rng.choice([255, 256, 257, 300])
        d[random_key(rng)] = bytes(rng.randrange(256) for _ in range(n))
    return d


def image_of(entries):
    """the byte image the format prescribes (written from the property text, not by calling the library)"""
    out = len(entries).to_bytes(8, 'big')
    for k, v in entries:
        kb = k.encode('utf-8')
        out += len(kb).to_bytes(2, 'big') + kb + len(v).to_bytes(2, 'big') + v
    return out


def stream_variants(rng, image: bytes, budget=10):
    """strict prefixes, extensions and single-byte mutations of a valid image"""
    out = []
    n = len(image)
    if n <= 40:
        cuts = list(range(n))
    else:
        cuts = sorted(set([0, 1, 7, 8, 9, 10, n - 1, n - 2] + [rng.randrange(n) for _ in range(budget)]))
    out += [image[:c] for c in cuts if c < n]
    for _ in range(3):
        out.append(image + bytes(rng.randrange(256) for _ in range(rng.randint(1, 3))))
    for _ in range(min(budget, 6)):
        if n > 6:
            i = rng.randrange(6, n)
            out.append(image[:i] + bytes([rng.randrange(256)]) + image[i + 1:])
    return out


def utf8_probe_streams(rng, k=6):
    """one-entry images whose key bytes are arbitrary (valid and invalid UTF-8)"""
    lead = [0x00, 0x41, 0x7f, 0x80, 0xbf, 0xc0, 0xc1, 0xc2, 0xdf, 0xe0, 0xe1, 0xec, 0xed, 0xee, 0xef, 0xf0, 0xf1,
            0xf3, 0xf4, 0xf5, 0xff, 0x9f, 0xa0, 0x8f, 0x90]
    out = []
    for _ in range(k):
        kb = bytes(rng.choice(lead) if rng.random() < 0.8 else rng.randrange(256) for _ in range(rng.randint(1, 5)))
        out.append((1).to_bytes(8, 'big') + len(kb).to_bytes(2, 'big') + kb + b'\x00\x00')
    return out


def gen_case(rng, kind):
    if kind == 'bits':
        n = rng.choice([0, 1, 7, 8, 9, 15, 16, 17]) if rng.random() < 0.4 else rng.randint(0, 80)
        return {'kind': 'bits', 'bits': [rng.randrange(2) for _ in range(n)]}
    if kind == 'numbers':
        writes = []
        for _ in range(rng.randint(1, 8)):
            k = rng.choice([0, 1, 2, 3, 4, 7, 8, 9, 16, 31, 32, 33, 64, 70, 56, 57, 58, 60, 63, 65, 127, 128, 129])   # word-size thresholds of a windowed reader
            r = rng.random()
            if r < 0.6:
                x = rng.randrange(1 << k) if k else 0
            elif r < 0.75:
                x = (1 << k) - 1
            elif r < 0.9:
                x = 1 << k                       # one too large
            else:
                x = rng.randrange(1 << (k + 5))
            writes.append([x, k])
        reads = [rng.choice([0, 1, 3, 4, 8, 13, 32]) for _ in range(rng.randint(1, 8))]
        return {'kind': 'numbers', 'writes': writes, 'reads': reads}
    if kind == 'dict':
        d = random_dict(rng)
        entries = [[k, v.hex()] for k, v in d.items()]
        image = image_of([(k, v) for k, v in d.items()])
        streams = stream_variants(rng, image) + utf8_probe_streams(rng, 3)
        return {'kind': 'dict', 'entries': entries, 'streams': [s.hex() for s in streams]}
    if kind == 'circuit':
        dump, flavour = random_codec_circuit(rng)
        return {'kind': 'circuit', 'circuit': dump, 'flavour': flavour, 'variants': None,
                'vseed': rng.randrange(1 << 30)}
    if kind == 'db':
        adds, labels = [], []
        for _ in range(rng.randint(1, 5)):
            dump = format_circuit(rng, n_gates=rng.randint(0, 8)) if rng.random() < 0.8 else \
                gen.random_circuit(rng, with_blocks=False, n_gates=rng.randint(0, 5))
            lab = rng.choice(labels) if labels and rng.random() < 0.15 else random_key(rng)
            labels.append(lab)
            adds.append([lab, dump])
        gets = list(dict.fromkeys(labels)) + ['no such label']
        return {'kind': 'db', 'adds': adds, 'gets': gets}
    raise ValueError(kind)


# ---------------------------------------------------------------- running the implementation
def run_bits(case):
    from cirbo.circuits_db.bit_io import BitReader, BitWriter
    w = BitWriter()
    for i_, b in enumerate(case['bits']):
        w.write(bool(b))
        if i_ % 3 == 1:
            bytes(w)         # an observation in the middle of a byte
    data = bytes(w)
    r = BitReader(data)
    back = [r.read() for _ in case['bits']]
    return f'({bools(case["bits"])}, {bl_(data)}, {bools(back)})', [('bits_length', len(case['bits']) // 8 * 8)]


def run_numbers(case):
    from cirbo.circuits_db.bit_io import BitReader, BitWriter
    w = BitWriter()
    ws = []
    for x, k in case['writes']:
        raised = call(lambda: w.write_number(x, k))
        if raised[0] == 'err' and raised[1] != 'BitIOError':
            raise AssertionError(f'write_number raised {raised[1]}')
        ws.append(f'({x}%N, {k}%nat, {ct.boolean(raised[0] == "err")})')
    data = bytes(w)
    r = BitReader(data)
    rs = []
    for k in case['reads']:
        got = call(lambda: r.read_number(k))
        rs.append(f'({k}%nat, {res(got, lambda v: f"{v}%N")})')
        if got[0] == 'err':
            break
    tags = [('write_number', 'BitIOError' if 'true' in w else 'ok') for w in ws]
    tags += [('read_number', 'BitIOError' if 'Err' in x else 'ok') for x in rs]
    return f'({ct.lst(ws)}, {bl_(data)}, {ct.lst(rs)})', tags


def impl_write_dict(d):
    from cirbo.circuits_db.binary_dict_io import write_binary_dict
    s = io.BytesIO()
    write_binary_dict(d, s)
    return s.getvalue()


def impl_read_dict(b):
    from cirbo.circuits_db.binary_dict_io import read_binary_dict
    return read_binary_dict(io.BytesIO(b))


def case_dict(case):
    return {k: bytes.fromhex(v) for k, v in case['entries']}


def run_dict(case):
    d = case_dict(case)
    wr = call(lambda: impl_write_dict(d))
    streams = [bytes.fromhex(s) for s in case['streams']]
    if wr[0] == 'ok':
        streams = [wr[1]] + streams
    results = [call(lambda: impl_read_dict(s), dict_entries) for s in streams]
    reads = ct.lst(f'({bl_(s)}, {res(r, entries_term)})' for s, r in zip(streams, results))
    tags = [('write_binary_dict', wr[1] if wr[0] == 'err' else 'ok'), ('dict_entries', len(d))]
    tags += [('read_binary_dict', r[1] if r[0] == 'err' else 'ok') for r in results]
    tags += [('dict_non_ascii_keys', any(ord(ch) > 127 for k in d for ch in k))]
    return f'({entries_term(dict_entries(d))}, {res(wr, bl_)}, {reads})', tags


def codec_variants(case, encoded):
    """truncations, extensions and mutations of the encoded bytes (fixed by the case's seed)"""
    import random
    if case.get('variants') is not None:
        return [bytes.fromhex(v) for v in case['variants']]
    rng = random.Random(case.get('vseed', 0))
    out = []
    if encoded is not None:
        n = len(encoded)
        for c in sorted(set([0, 1, n - 1] + [rng.randrange(n) for _ in range(3)])):
            if 0 <= c < n:
                out.append(encoded[:c])
        out.append(encoded + bytes([rng.randrange(256)]))
        for _ in range(3):
            if n > 1:
                i = rng.randrange(1, n)
                out.append(encoded[:i] + bytes([rng.randrange(256)]) + encoded[i + 1:])
    else:
        ws = rng.randint(0, 5)
        out.append(bytes([ws]) + bytes(rng.randrange(256) for _ in range(rng.randint(0, 6))))
    return out


MAX_SAFE_WORD_SIZE = 8


def decodable_in_practice(b: bytes) -> bool:
    """decode_circuit loops `inputs_count` times with inputs_count < 2**word_size read from the header: a header
    byte above 8 can make the implementation (and the model) allocate without bound, so such byte strings are
    never handed to either (every generated circuit has far fewer than 2**8 gates)"""
    return not b or b[0] <= MAX_SAFE_WORD_SIZE


def run_circuit(case):
    from cirbo.circuits_db.circuits_encoding import decode_circuit, encode_circuit
    c = ct.build_circuit(case['circuit'])
    before = ct.dump_circuit(c)
    enc = call(lambda: encode_circuit(c))
    if ct.dump_circuit(c) != before:
        raise AssertionError('encode_circuit modified its argument')
    streams = codec_variants(case, enc[1] if enc[0] == 'ok' else None)
    if enc[0] == 'ok':
        streams = [enc[1]] + streams
    if not all(decodable_in_practice(s) for s in streams):
        raise AssertionError(f'encode_circuit produced a header announcing word size {streams[0][0]}')
    results = [call(lambda: decode_circuit(s), ct.dump_circuit) for s in streams]
    decs = ct.lst(f'({bl_(s)}, {res(r, ct.circuit)})' for s, r in zip(streams, results))
    tags = [('encode_circuit', enc[1] if enc[0] == 'err' else 'ok')]
    tags += [('decode_circuit', r[1] if r[0] == 'err' else 'ok') for r in results]
    if enc[0] == 'ok':
        tags.append(('word_size', enc[1][0]))
        order = [l for l, t, _ in case['circuit']['gates'] if t != 'INPUT']
        pos = {l: i for i, (l, _, _) in enumerate(case['circuit']['gates'])}
        tags.append(('storage_order_is_dependency_order',
                     all(pos[o] < pos[l] for l, t, ops in case['circuit']['gates'] if t != 'INPUT' for o in ops
                         if case['circuit']['gates'][pos[o]][1] != 'INPUT')))
    return f'({ct.circuit(case["circuit"])}, {res(enc, bl_)}, {decs})', tags


def run_db(case):
    from cirbo.circuits_db.db import CircuitsDatabase
    db = CircuitsDatabase()
    db.open()
    adds = []
    for lab, dump in case['adds']:
        c = ct.build_circuit(dump)
        r = call(lambda: db.add_circuit(c, lab), lambda _: None)
        adds.append(f'({nl(lab.encode("utf-8"))}, {ct.circuit(dump)}, {dbres(r, lambda _: "tt")})')
    stream = io.BytesIO()
    saved = call(lambda: (db.save(stream), stream.getvalue())[1])
    opened, gets = ('err', 'UNMODELLED_not_saved'), []
    if saved[0] == 'ok' and not all(decodable_in_practice(v) for v in db._dict.values()):
        raise AssertionError('add_circuit stored bytes whose header announces a huge word size')
    if saved[0] == 'ok':
        db2 = CircuitsDatabase(io.BytesIO(saved[1]))
        opened = call(lambda: (db2.open(), dict(db2._dict))[1], dict_entries)
        if opened[0] == 'ok':
            for lab in case['gets']:
                g = call(lambda: db2.get_by_label(lab), lambda c: None if c is None else ct.dump_circuit(c))
                gets.append(f'({nl(lab.encode("utf-8"))}, {res(g, lambda v: ct.opt(v, ct.circuit))})')
    tags = [('db_adds', len(case['adds'])), ('db_save', saved[1] if saved[0] == 'err' else 'ok'),
            ('db_open', opened[1] if opened[0] == 'err' else 'ok')]
    return f'({ct.lst(adds)}, {res(saved, bl_)}, {res(opened, entries_term)}, {ct.lst(gets)})', tags


RUNNERS = {'bits': (run_bits, 'check_bits_case', 'bits_case'),
           'numbers': (run_numbers, 'check_numbers_case', 'numbers_case'),
           'dict': (run_dict, 'check_dict_case', 'dict_case'),
           'circuit': (run_circuit, 'check_codec_case', 'codec_case'),
           'db': (run_db, 'check_db_case', 'db_case')}


# ---------------------------------------------------------------- the direct oracle (the property text)
def gate_tables(dump, max_inputs=8):
    """label -> tuple of values over all assignments (reference interpreter of evalcorr), or None"""
    ins = list(dump['inputs'])
    if len(ins) > max_inputs or not evalcorr.well_formed_for_eval(dump):
        return None
    cols = {l: [] for l, _, _ in dump['gates']}
    for vec in itertools.product([False, True], repeat=len(ins)):
        vals = evalcorr.ref_eval(dump, dict(zip(ins, vec)))
        for l in cols:
            cols[l].append(vals[l])
    return {l: tuple(v) for l, v in cols.items()}


def in_format(dump):
    """well-formed, acyclic, only the gate types and arities the format defines"""
    gates = {k: (t, ops) for k, t, ops in dump['gates']}
    if len(gates) != len(dump['gates']):
        return False
    for k, (t, ops) in gates.items():
        if t == 'INPUT':
            if ops:
                return False
            continue
        if t not in FORMAT_TYPES or len(ops) != fmt_arity(t) or any(o not in gates for o in ops):
            return False
    ins = [k for k, (t, _) in gates.items() if t == 'INPUT']
    if sorted(ins) != sorted(dump['inputs']) or any(o not in gates for o in dump['outputs']):
        return False
    state = {}

    def acyclic(l):
        stack = [(l, iter(gates[l][1]))]
        state[l] = 1
        while stack:
            node, it = stack[-1]
            nxt = next(it, None)
            if nxt is None:
                state[node] = 2
                stack.pop()
            elif state.get(nxt) == 1:
                return False
            elif nxt not in state:
                state[nxt] = 1
                stack.append((nxt, iter(gates[nxt][1])))
        return True
    return all(state.get(l) == 2 or acyclic(l) for l in gates)


def oracle_circuit(dump):
    from cirbo.circuits_db.circuits_encoding import decode_circuit, encode_circuit
    c = ct.build_circuit(dump)
    fmt = in_format(dump)
    try:
        data = encode_circuit(c)
    except Exception as e:  # noqa: BLE001
        n = type(e).__name__
        from cirbo.circuits_db import exceptions as _dbx
        base = getattr(_dbx, 'CircuitsDatabaseError', None)
        if not (n in CODEC_ERRORS or (base is not None and isinstance(e, base))):
            return f'encode-noncodec-error: encode_circuit raised {n}, which is not a database-codec error'
        if fmt:
            return f'format-circuit-rejected: a circuit inside the format is refused by encode_circuit ({n}: {e})'
        return None
    if not decodable_in_practice(data) and data[0] > len(dump['gates']).bit_length() + 1:
        return (f'encoded-bytes-do-not-decode: encode_circuit returned {data.hex()}, whose header announces word size '
                f'{data[0]} for a circuit of {len(dump["gates"])} gates (not handed to decode_circuit)')
    try:
        d = decode_circuit(data)
    except Exception as e:  # noqa: BLE001
        return (f'encoded-bytes-do-not-decode: encode_circuit returned {data.hex()} but decode_circuit raises '
                f'{type(e).__name__}: {e}')
    dd = ct.dump_circuit(d)
    if len(dd['inputs']) != len(dump['inputs']) or len(dd['outputs']) != len(dump['outputs']) \
            or len(dd['gates']) != len(dump['gates']):
        return (f'silently-different: counts (inputs, outputs, gates) {len(dump["inputs"])},{len(dump["outputs"])},'
                f'{len(dump["gates"])} became {len(dd["inputs"])},{len(dd["outputs"])},{len(dd["gates"])}')
    a, b = gate_tables(dump), gate_tables(dd)
    if a is None and b is None:
        return None
    if a is None or b is None:
        return 'silently-different: only one of the two circuits can be evaluated'
    ta = [a[o] for o in dump['outputs']]
    tb = [b[o] for o in dd['outputs']]
    if ta != tb:
        return f'silently-different: truth table {ta} became {tb} (decoded gates {dd["gates"]})'
    types_a = {k: t for k, t, _ in dump['gates']}
    types_b = {k: t for k, t, _ in dd['gates']}
    ma = sorted((types_a[l], v) for l, v in a.items())
    mb = sorted((types_b[l], v) for l, v in b.items())
    if ma != mb:
        return 'silently-different: the gates (type, function) of the decoded circuit are not a renaming of the original'
    if [a[i] for i in dump['inputs']] != [b[i] for i in dd['inputs']]:
        return 'silently-different: input order changed'
    return None


def oracle_bits(case):
    from cirbo.circuits_db.bit_io import BitReader, BitWriter
    from cirbo.circuits_db.exceptions import BitIOError
    w = BitWriter()
    for i_, b in enumerate(case['bits']):
        w.write(bool(b))
        if i_ % 3 == 1:
            bytes(w)         # an observation in the middle of a byte
    data = bytes(w)
    if 8 * len(data) < len(case['bits']):
        return f'bit-roundtrip: {len(case["bits"])} bits were written into {len(data)} bytes'
    r = BitReader(data)
    back = [int(r.read()) for _ in case['bits']]
    if back != [int(b) for b in case['bits']]:
        return f'bit-roundtrip: wrote {case["bits"]}, read {back}'
    return None


def oracle_numbers(case):
    from cirbo.circuits_db.bit_io import BitReader, BitWriter
    from cirbo.circuits_db.exceptions import BitIOError
    w = BitWriter()
    written = []
    for x, k in case['writes']:
        try:
            w.write_number(x, k)
            if x >= (1 << k):
                return f'number-limit: write_number({x}, {k}) accepted a number of more than {k} bits'
            written.append((x, k))
            bytes(w)         # looking at the bytes written so far is an observation: it must not disturb the stream
        except BitIOError:
            if x < (1 << k):
                return f'number-limit: write_number({x}, {k}) refused a number that fits'
    r = BitReader(bytes(w))
    for x, k in written:
        got = r.read_number(k)
        if got != x:
            return f'number-roundtrip: wrote {x} on {k} bits, read {got}'
    return None


def oracle_dict(case):
    from cirbo.circuits_db.exceptions import BinaryDictIOError
    d = case_dict(case)
    within = all(len(k.encode('utf-8')) < 65536 and len(v) < 65536 for k, v in d.items())
    if not within:
        return None
    try:
        image = impl_write_dict(d)
    except Exception as e:  # noqa: BLE001
        return f'dict-roundtrip: write_binary_dict raised {type(e).__name__} on a dictionary within the limits'
    try:
        back = impl_read_dict(image)
    except Exception as e:  # noqa: BLE001
        return f'dict-roundtrip: read_binary_dict(write_binary_dict(d)) raised {type(e).__name__}: {e}; d={d!r}'
    if back != d:
        return f'dict-roundtrip: read_binary_dict(write_binary_dict(d)) = {back!r}, d = {d!r}'
    cuts = range(len(image)) if len(image) <= 200 else sorted(set(range(0, len(image), 37)) | {len(image) - 1})
    for cdx in cuts:
        try:
            got = impl_read_dict(image[:cdx])
        except Exception:  # noqa: BLE001 - "rejects": which exception class is not part of the property
            continue
        return f'dict-truncated: prefix of length {cdx} of a valid image was accepted as {got!r}'
    for extra in (b'\x00', b'\x00\x00\x00\x00', b'ab'):
        try:
            got = impl_read_dict(image + extra)
        except Exception:  # noqa: BLE001
            continue
        return f'dict-trailing: an image followed by {extra!r} was accepted as {got!r}'
    return None


def oracle_db(case):
    from cirbo.circuits_db.db import CircuitsDatabase
    from cirbo.circuits_db.exceptions import CircuitsDatabaseError
    db = CircuitsDatabase()
    db.open()
    stored = {}
    for lab, dump in case['adds']:
        try:
            db.add_circuit(ct.build_circuit(dump), lab)
        except CircuitsDatabaseError:
            continue
        except Exception as e:  # noqa: BLE001
            return f'encode-noncodec-error: add_circuit raised {type(e).__name__}'
        stored[lab] = dump
    s = io.BytesIO()
    db.save(s)
    db2 = CircuitsDatabase(io.BytesIO(s.getvalue()))
    try:
        db2.open()
    except Exception as e:  # noqa: BLE001
        return f'dict-roundtrip: a saved database cannot be opened: {type(e).__name__}: {e}; labels {list(stored)!r}'
    if db2._dict != db._dict or list(db2._dict) != list(db._dict):
        return 'dict-roundtrip: the opened database differs from the saved one'
    for lab, dump in stored.items():
        msg = oracle_circuit(dump)
        if msg:
            return msg
        if not decodable_in_practice(db2._dict.get(lab, b'')):
            return f'encoded-bytes-do-not-decode: stored bytes of {lab!r} announce a huge word size'
        try:
            got = db2.get_by_label(lab)
        except Exception as e:  # noqa: BLE001
            return f'encoded-bytes-do-not-decode: get_by_label({lab!r}) raises {type(e).__name__}'
        if got is None:
            return f'dict-roundtrip: label {lab!r} is missing after save/open'
    return None


def oracle(case):
    k = case['kind']
    if k == 'circuit':
        return oracle_circuit(case['circuit'])
    if k == 'bits':
        return oracle_bits(case)
    if k == 'numbers':
        return oracle_numbers(case)
    if k == 'dict':
        return oracle_dict(case)
    if k == 'db':
        return oracle_db(case)
    raise ValueError(k)


# ---------------------------------------------------------------- shrinking a failing circuit case
def shrink_circuit(dump, still_fails):
    """greedy: drop outputs, drop unused gates, drop operands' sharing; keeps the dump well formed"""
    changed = True
    while changed:
        changed = False
        for i in range(len(dump['outputs'])):
            d2 = dict(dump, outputs=dump['outputs'][:i] + dump['outputs'][i + 1:])
            if still_fails(d2):
                dump, changed = d2, True
                break
        if changed:
            continue
        used = {o for _, _, ops in dump['gates'] for o in ops} | set(dump['outputs'])
        for i, (l, t, ops) in enumerate(dump['gates']):
            if l in used:
                continue
            gates = dump['gates'][:i] + dump['gates'][i + 1:]
            d2 = {'inputs': [x for x in dump['inputs'] if x != l], 'outputs': dump['outputs'], 'gates': gates,
                  'users': users_of(gates), 'blocks': []}
            if still_fails(d2):
                dump, changed = d2, True
                break
    return dump


# ================================================================ C17: normalisation and lookups
def tri(v):
    """JSON form of a truth-table entry with don't-cares: 0, 1 or None"""
    return None if v is None else int(bool(v))


def impl_table(t):
    # RawTruthTable is any Sequence[Sequence[bool]]: tables with an odd number of ones are handed over
    # with tuple rows (deterministic, so replays reproduce), the others with list rows
    rows = [[bool(x) for x in row] for row in t]
    if sum(sum(r) for r in rows) % 2 == 1:
        return [tuple(r) for r in rows]
    return rows


def impl_model_table(tm):
    from cirbo.core.logic import DontCare
    # every second don't-care is an EQUAL but NOT IDENTICAL object (what a pickle round trip of a model
    # table produces: _DontCare.__eq__ accepts any instance); the API cannot tell them apart
    k = [0]

    def dc():
        k[0] += 1
        return DontCare if k[0] % 2 else copy.copy(DontCare)
    return [[dc() if x is None else bool(x) for x in row] for row in tm]


def model_table_term(tm) -> str:
    return ct.lst(ct.lst('None' if x is None else ('(Some true)' if x else '(Some false)') for x in row) for row in tm)


def make_db(entries):
    """a CircuitsDatabase opened on the given label -> bytes dictionary"""
    from cirbo.circuits_db.db import CircuitsDatabase
    db = CircuitsDatabase()
    db.open()
    db._dict = {k: bytes.fromhex(v) for k, v in entries}
    return db


def case_entries_term(entries) -> str:
    return entries_term([(list(k.encode('utf-8')), list(bytes.fromhex(v))) for k, v in entries])


def run_norm(case):
    from cirbo.circuits_db.normalization import NormalizationInfo
    t = impl_table(case['table'])

    def go():
        ni = NormalizationInfo(t)
        return (ni.negations, ni.permutation, ni.mapping, ni.truth_table)
    r = call(go)
    okf = lambda v: (f'({bools(v[0])}, {ct.lst(str(x) + "%nat" for x in v[1])}, '
                     f'{ct.lst(str(x) + "%nat" for x in v[2])}, {table_term(v[3])})')
    return f'({table_term(case["table"])}, {res(r, okf)})', [('normalize', r[1] if r[0] == 'err' else 'ok'),
                                                          ('table_outputs', len(t))]


def run_lookup(case):
    db = make_db(case['entries'])
    t = impl_table(case['table'])
    r = call(lambda: db.get_by_raw_truth_table(t), lambda c: None if c is None else ct.dump_circuit(c))
    tags = [('lookup', r[1] if r[0] == 'err' else ('none' if r[1] is None else 'circuit')),
            ('lookup_shape', f'{len(t[0]) if t else 0}x{len(t)}')]
    return (f'({case_entries_term(case["entries"])}, {table_term(case["table"])}, '
            f'{dbres(r, lambda v: ct.opt(v, ct.circuit))})'), tags


def run_model_lookup(case):
    from cirbo.core.circuit import gate as G
    db = make_db(case['entries'])
    tm = impl_model_table(case['table'])
    excl = None if case.get('exclusion') is None else [getattr(G, n) for n in case['exclusion']]
    r = call(lambda: db.get_by_raw_truth_table_model(tm, excl), lambda c: None if c is None else ct.dump_circuit(c))
    excl_t = ct.opt(case.get('exclusion'), lambda e: ct.lst(e))
    tags = [('model_lookup', r[1] if r[0] == 'err' else ('none' if r[1] is None else 'circuit')),
            ('dont_cares', sum(x is None for row in case['table'] for x in row))]
    return (f'({case_entries_term(case["entries"])}, {model_table_term(case["table"])}, {excl_t}, '
            f'{dbres(r, lambda v: ct.opt(v, ct.circuit))})'), tags


def run_decode(case):
    from cirbo.circuits_db.circuits_encoding import decode_circuit
    b = bytes.fromhex(case['bytes'])
    r = call(lambda: decode_circuit(b), ct.dump_circuit)
    return f'({bl_(b)}, {res(r, ct.circuit)})', [('decode_entry', r[1] if r[0] == 'err' else 'ok')]


RUNNERS.update({'decode': (run_decode, 'check_decode_case', 'decode_case'),
                'norm': (run_norm, 'check_norm_case', 'norm_case'),
                'lookup': (run_lookup, 'check_lookup_case', 'lookup_case'),
                'model_lookup': (run_model_lookup, 'check_model_lookup_case', 'model_lookup_case')})


# ---------------------------------------------------------------- reference normalisation (property text)
def ref_normalize(t):
    """negate the outputs whose first entry is 1, sort, remove duplicates -> list of rows (tuples of 0/1)"""
    rows = [tuple(int(not x) for x in r) if r[0] else tuple(int(x) for x in r) for r in t]
    return sorted(set(rows))


def ref_label(rows):
    return '_'.join(''.join(str(x) for x in r) for r in rows)


def circuit_table(c):
    return [[int(bool(x)) for x in row] for row in c.get_truth_table()]


_SHIPPED = {}


def shipped(name):
    """label -> bytes of a shipped database (read once per process by the implementation's own reader)"""
    if name not in _SHIPPED:
        import lzma
        from cirbo.circuits_db.binary_dict_io import read_binary_dict
        from . import env
        with lzma.open(env.REPO / 'cirbo' / 'data' / f'{name}_db.bin.xz', 'rb') as f:
            _SHIPPED[name] = read_binary_dict(f)
    return _SHIPPED[name]


BASES = {'aig': {'AND', 'NOT'},
         'xaig': {'AND', 'OR', 'NAND', 'NOR', 'GT', 'LT', 'GEQ', 'LEQ', 'XOR', 'NXOR', 'NOT'}}


def python_wf(dump):
    """well-formedness of a dumped circuit, recomputed from scratch"""
    gates = {k: (t, ops) for k, t, ops in dump['gates']}
    if len(gates) != len(dump['gates']):
        return 'repeated gate label'
    ins = [k for k, (t, _) in gates.items() if t == 'INPUT']
    if sorted(ins) != sorted(dump['inputs']) or len(set(dump['inputs'])) != len(dump['inputs']):
        return 'input list is not the set of INPUT gates'
    want = {}
    for k, (t, ops) in gates.items():
        for o in ops:
            if o not in gates:
                return f'operand {o} of {k} is missing'
            want.setdefault(o, []).append(k)
    # acyclic (the storage order of the gate map is not part of well-formedness): Kahn
    indeg = {k: len(set(ops)) for k, (t, ops) in gates.items()}
    ready = [k for k, d in indeg.items() if d == 0]
    done = 0
    while ready:
        k = ready.pop()
        done += 1
        for u in set(want.get(k, [])):
            indeg[u] -= 1
            if indeg[u] == 0:
                ready.append(u)
    if done != len(gates):
        return 'the gates form a cycle'
    have = {k: sorted(v) for k, v in dump['users'] if v}
    if have != {k: sorted(v) for k, v in want.items()}:
        return 'users index is not the inverse operand relation'
    if any(o not in gates for o in dump['outputs']):
        return 'missing output'
    if dump['blocks']:
        return 'blocks present'
    return None


def oracle_entry(case):
    from cirbo.circuits_db.circuits_encoding import decode_circuit
    # the entry is read from the database file of the tree under test (the recorded 'bytes' are what
    # the reporting run saw; a replay on another tree must see that tree's data)
    data = shipped(case['db']).get(case['key'])
    if data is None:
        return f'entry-missing: {case["db"]} has no entry {case["key"]}'
    try:
        c = decode_circuit(data)
    except Exception as e:  # noqa: BLE001
        return f'entry-does-not-decode: {case["db"]} entry {case["key"]}: {type(e).__name__}: {e}'
    dump = ct.dump_circuit(c)
    msg = python_wf(dump)
    if msg:
        return f'entry-not-well-formed: {case["db"]} entry {case["key"]}: {msg}'
    label = ref_label([tuple(r) for r in circuit_table(c)])
    if label != case['key']:
        return f'entry-wrong-function: {case["db"]} entry {case["key"]} computes {label}'
    foreign = {t for _, t, _ in dump['gates']} - BASES[case['db']] - {'INPUT'}
    if foreign:
        return f'entry-outside-basis: {case["db"]} entry {case["key"]} uses {sorted(foreign)}'
    return None


def db_for_case(case):
    if case.get('entries') is not None:
        return make_db(case['entries'])
    from cirbo.circuits_db.db import CircuitsDatabase
    db = CircuitsDatabase()
    db.open()
    db._dict = shipped(case['db'])
    return db


def oracle_lookup(case):
    """get_by_raw_truth_table: a circuit computing exactly the table, or None only if the normalised table is absent"""
    db = db_for_case(case)
    t = [[int(x) for x in row] for row in case['table']]
    try:
        c = db.get_by_raw_truth_table(impl_table(t))
    except Exception as e:  # noqa: BLE001
        if case.get('entries') is not None and case.get('corrupt'):
            return None                      # hand-made database with a deliberately bad entry
        return f'lookup-raises: get_by_raw_truth_table({t}) raises {type(e).__name__}: {e}'
    key = ref_label(ref_normalize(t))
    if c is None:
        if key in db._dict:
            return f'lookup-missed: table {t} normalises to {key}, which is stored, but nothing was returned'
        return None
    if case.get('corrupt'):
        return None
    got = circuit_table(c)
    if got != t:
        return f'lookup-wrong-function: asked for {t}, the returned circuit computes {got}'
    if python_wf(ct.dump_circuit(c)):
        return f'lookup-not-well-formed: {python_wf(ct.dump_circuit(c))} (table {t})'
    return None


def oracle_model_lookup(case):
    from cirbo.core.circuit import gate as G
    db = db_for_case(case)
    tm = case['table']
    excl = None if case.get('exclusion') is None else [getattr(G, n) for n in case['exclusion']]
    try:
        c = db.get_by_raw_truth_table_model(impl_model_table(tm), excl)
    except Exception as e:  # noqa: BLE001
        if case.get('corrupt'):
            return None
        return f'model-lookup-raises: {type(e).__name__}: {e} on {tm}'
    if case.get('corrupt'):
        return None
    pos = [(i, j) for i, row in enumerate(tm) for j, x in enumerate(row) if x is None]
    best = None
    for sub in itertools.product((0, 1), repeat=len(pos)):
        t = [[0 if x is None else int(x) for x in row] for row in tm]
        for (i, j), v in zip(pos, sub):
            t[i][j] = v
        stored = db.get_by_raw_truth_table(impl_table(t))
        if stored is not None:
            size = stored.gates_number(excl)
            best = size if best is None else min(best, size)
    if c is None:
        return None if best is None else f'model-lookup-missed: a completion of {tm} is stored but nothing was returned'
    got = circuit_table(c)
    for i, row in enumerate(tm):
        for j, x in enumerate(row):
            if x is not None and got[i][j] != int(x):
                return f'model-lookup-disagrees: entry ({i},{j}) of {tm} is {x}, the returned circuit gives {got[i][j]}'
    if best is not None and c.gates_number(excl) > best:
        return f'model-lookup-not-minimal: returned size {c.gates_number(excl)}, a stored completion has size {best}'
    return None


def oracle_norm(case):
    from cirbo.circuits_db.normalization import NormalizationInfo
    t = case['table']
    if not t or any(not row for row in t):
        return None
    ni = NormalizationInfo(impl_table(t))
    got = [tuple(int(x) for x in r) for r in ni.truth_table]
    if got != ref_normalize(t):
        return f'normalisation-wrong: {t} normalises to {got}, expected {ref_normalize(t)}'
    return None


_oracle_c16 = oracle


def oracle_db_sequence(case):
    """one opened database object used the way a synthesis cache is: look a table up (absent), add a circuit for it,
    look it up again - by table, by label and through a don't-care model.  The answers after the addition must not
    depend on the earlier miss"""
    from cirbo.circuits_db.db import CircuitsDatabase
    from cirbo.core.circuit import Circuit, gate as G
    db = CircuitsDatabase()
    db.open()
    t = getattr(G, case['type'])
    c = Circuit()
    c.add_inputs(['a', 'b'])
    c.emplace_gate('g', t, ('a', 'b'))
    c.mark_as_output('g')
    table = [list(r) for r in c.get_truth_table()]
    label = ''.join(str(int(x)) for x in table[0])
    try:
        first = db.get_by_raw_truth_table(impl_table(table))
        first_l = db.get_by_label(label)
        db.get_by_raw_truth_table_model(impl_model_table([[None] + [int(x) for x in table[0][1:]]]))
        if first is not None or first_l is not None:
            return 'db-sequence: an empty database returned a circuit'
        try:
            db.add_circuit(c)
        except Exception:  # noqa: BLE001
            return None                     # not a normalised table: nothing to look up afterwards
        again = db.get_by_raw_truth_table(impl_table(table))
        again_l = db.get_by_label(label)
        model = db.get_by_raw_truth_table_model(impl_model_table([[None] + [int(x) for x in table[0][1:]]]))
    except Exception as e:  # noqa: BLE001
        return f'db-sequence: raises {type(e).__name__}: {e}'
    if again is None or again_l is None:
        return (f'db-sequence: table {table} was looked up (absent), added with add_circuit and looked up again on the '
                f'same object: the lookup still returns nothing')
    if circuit_table(again) != [[int(x) for x in r] for r in table]:
        return 'db-sequence: the circuit returned after add_circuit computes another table'
    if model is None:
        return 'db-sequence: the don\'t-care lookup misses the completion that was added after an earlier miss'
    return None


def oracle(case):  # noqa: F811 - extends the C16 oracle with the C17 kinds
    k = case['kind']
    if k == 'db_sequence':
        return oracle_db_sequence(case)
    if k == 'entry':
        return oracle_entry(case)
    if k == 'lookup':
        return oracle_lookup(case)
    if k == 'model_lookup':
        return oracle_model_lookup(case)
    if k == 'norm':
        return oracle_norm(case)
    return _oracle_c16(case)
