"""Seeded generators: circuits (as dumps), operation histories."""
import random

from . import coqterm as ct

NARY = ['AND', 'OR', 'XOR', 'NAND', 'NOR', 'NXOR']
UNARY = ['NOT', 'IFF']
BINARY = ['GEQ', 'GT', 'LEQ', 'LT', 'LIFF', 'LNOT', 'RIFF', 'RNOT']
CONST = ['ALWAYS_TRUE', 'ALWAYS_FALSE']
# INPUT gates that carry operands are accepted by add_gate but are degenerate (see DESIGN 6.4 D24);
# the regular generators do not produce them
INPUT_WITH_OPERANDS = False
BENCH_TYPES = ['NOT', 'AND', 'OR', 'NAND', 'NOR', 'XOR', 'NXOR', 'IFF']


def pick_size(rng, small=12, tail=60):
    r = rng.random()
    if r < 0.1:
        return 0
    if r < 0.85:
        return rng.randint(1, small)
    return rng.randint(small, tail)


def random_gate(rng, avail, types=None, allow_const_ops=True):
    """-> (type, operands) over available labels (avail may be empty)"""
    types = types or (NARY + UNARY + BINARY + CONST)
    if not avail:
        cands = [t for t in types if t in CONST]
        if not cands:
            return None
        return rng.choice(cands), []
    t = rng.choice(types)
    if t in NARY:
        k = rng.choice([2, 2, 2, 3, 3, 4, 5])
    elif t in UNARY:
        k = 1
    elif t in BINARY:
        k = 2
    else:
        k = 2 if (allow_const_ops and rng.random() < 0.25) else 0
    return t, [rng.choice(avail) for _ in range(k)]


# labels that are legal for the Circuit API but unusual: empty, with the block separator, mutual prefixes,
# case pairs (never used where bench identifiers are required: callers pass hostile=False there)
HOSTILE_LABELS = ['', '@', 'a@b', 'N1@x1', 'x', 'x1', 'X1', 'x10', 'not_x1', 'big_or', '0', '1']


HOSTILE_P = 0.0     # set by the property modules whose code under test accepts arbitrary labels


def fresh_label(rng, used, prefix=None):
    pools = ['x', 'g', 'n', 'w', 'in_', 'out', 'z_', 'T']
    if HOSTILE_P and prefix is None and rng.random() < HOSTILE_P:
        cands = [l for l in HOSTILE_LABELS if l not in used]
        if cands:
            return rng.choice(cands)
    while True:
        l = (prefix if prefix is not None else rng.choice(pools)) + str(rng.randint(0, 99))
        if l not in used:
            return l


def random_circuit(rng, n_inputs=None, n_gates=None, types=None, labels_prefix=None,
                   shuffle_order=True, with_blocks=True, max_outputs=4, allow_const_ops=True):
    """a well-formed circuit dump (internal state as the library itself could have produced it)"""
    n_inputs = rng.choice([0, 1, 2, 2, 3, 3, 4, 5]) if n_inputs is None else n_inputs
    n_gates = pick_size(rng) if n_gates is None else n_gates
    used, order = set(), []
    inputs = []
    for _ in range(n_inputs):
        l = fresh_label(rng, used, labels_prefix)
        used.add(l)
        inputs.append(l)
        order.append((l, 'INPUT', []))
    avail = list(inputs)
    for _ in range(n_gates):
        # bias towards recent gates (depth) but keep sharing / dead logic
        pool = avail if rng.random() < 0.5 else avail[-6:]
        g = random_gate(rng, pool, types, allow_const_ops)
        if g is None:
            continue
        l = fresh_label(rng, used, labels_prefix)
        used.add(l)
        order.append((l, g[0], g[1]))
        avail.append(l)
    # users in emplacement order
    users = {}
    for l, t, ops in order:
        for o in ops:
            users.setdefault(o, []).append(l)
    gates = list(order)
    if shuffle_order and rng.random() < 0.5:
        rng.shuffle(gates)
    ulist = list(users.items())
    if shuffle_order and rng.random() < 0.3:
        rng.shuffle(ulist)
    ins = list(inputs)
    if rng.random() < 0.3:
        rng.shuffle(ins)
    outs = []
    if avail:
        for _ in range(rng.randint(0, max_outputs)):
            outs.append(rng.choice(avail) if rng.random() < 0.7 else rng.choice(avail[-3:]))
    blocks = []
    if with_blocks and avail and rng.random() < 0.3:
        non_in = [l for l, t, _ in order if t != 'INPUT']
        for b in range(rng.randint(1, 2)):
            if not non_in:
                break
            gs = rng.sample(non_in, rng.randint(1, min(4, len(non_in))))
            gset = set(gs)
            bins = [o for l, t, ops in order if l in gset for o in ops if o not in gset]
            bouts = rng.sample(gs, rng.randint(0, len(gs)))
            blocks.append(('B%d' % b, bins, gs, bouts))
    return {'inputs': ins, 'outputs': outs, 'gates': gates, 'users': ulist, 'blocks': blocks}


TINY_TYPES = ['NOT', 'AND', 'XOR', 'GT', 'LIFF', 'ALWAYS_TRUE']


def tiny_netlists(max_inputs=2, max_gates=2, types=None):
    """EXHAUSTIVE enumeration of all netlists with <= max_inputs inputs and <= max_gates gates over
    a reduced type set (binary arity for n-ary types, operands chosen with repetition among all
    earlier labels), every gate an output candidate: outputs = [last gate] (and, when it is not
    the last gate, the first input, so that outputs that are inputs occur)"""
    import itertools
    types = types or TINY_TYPES

    def arity(t):
        return {'NOT': 1, 'ALWAYS_TRUE': 0, 'ALWAYS_FALSE': 0, 'IFF': 1}.get(t, 2)

    for n in range(max_inputs + 1):
        inputs = [f'i{k}' for k in range(n)]
        for g in range(max_gates + 1):
            def rec(k, avail, gates):
                if k == g:
                    yield list(gates)
                    return
                for t in types:
                    a = arity(t)
                    if a > 0 and not avail:
                        continue
                    for ops in itertools.product(avail, repeat=a):
                        l = f'g{k}'
                        yield from rec(k + 1, avail + [l], gates + [(l, t, list(ops))])
            for gates in rec(0, list(inputs), []):
                order = [(i, 'INPUT', []) for i in inputs] + gates
                if not order:
                    continue
                users = {}
                for l, t, ops in order:
                    for o in ops:
                        users.setdefault(o, []).append(l)
                outs = [order[-1][0]] + ([inputs[0]] if inputs and gates else [])
                yield {'inputs': list(inputs), 'outputs': outs, 'gates': order, 'users': list(users.items()),
                       'blocks': []}


def malformed_variant(rng, dump):
    """a netlist the library's own mutators would not build (acyclic, so evaluators terminate):
    dangling operand, wrong arity, INPUT gate missing from the input list, non-INPUT label in the
    input list, dangling output"""
    d = {k: [list(x) if isinstance(x, tuple) else x for x in v] if isinstance(v, list) else v for k, v in dump.items()}
    d['gates'] = [(k, t, list(o)) for k, t, o in dump['gates']]
    d['inputs'], d['outputs'] = list(dump['inputs']), list(dump['outputs'])
    kind = rng.choice(['dangling', 'arity', 'input_missing', 'input_extra', 'dangling_output'])
    non_in = [i for i, g in enumerate(d['gates']) if g[1] != 'INPUT']
    if kind == 'dangling' and non_in:
        i = rng.choice(non_in)
        k, t, o = d['gates'][i]
        if o:
            o = list(o)
            o[rng.randrange(len(o))] = 'ghost'
            d['gates'][i] = (k, t, o)
    elif kind == 'arity' and non_in:
        i = rng.choice(non_in)
        k, t, o = d['gates'][i]
        extra = [rng.choice(d['inputs'])] if d['inputs'] else []      # an input: cannot close a cycle
        d['gates'][i] = (k, t, list(o)[:-1] if o and rng.random() < 0.5 else list(o) + extra)
    elif kind == 'input_missing' and d['inputs']:
        d['inputs'].pop(rng.randrange(len(d['inputs'])))
    elif kind == 'input_extra' and non_in:
        d['inputs'].append(d['gates'][rng.choice(non_in)][0])
    elif kind == 'dangling_output':
        d['outputs'].append('ghost')
    users = {}
    for l, t, ops in d['gates']:
        for o in ops:
            users.setdefault(o, []).append(l)
    d['users'] = list(users.items())
    return d


# ------------------------------------------------------------------ operations
def op_term(op) -> str:
    k = op[0]
    L, S, B = ct.labels, ct.s, ct.boolean
    if k == 'emplace':
        return f'(OpEmplace {S(op[1])} {op[2]} {L(op[3])})'
    if k == 'add_inputs':
        return f'(OpAddInputs {L(op[1])})'
    if k == 'remove_gate':
        return f'(OpRemoveGate {S(op[1])})'
    if k == 'rename':
        return f'(OpRename {S(op[1])} {S(op[2])})'
    if k == 'mark_output':
        return f'(OpMarkOutput {S(op[1])})'
    if k in ('set_outputs', 'set_inputs', 'order_inputs', 'order_outputs'):
        name = {'set_outputs': 'OpSetOutputs', 'set_inputs': 'OpSetInputs',
                'order_inputs': 'OpOrderInputs', 'order_outputs': 'OpOrderOutputs'}[k]
        return f'({name} {L(op[1])})'
    if k == 'replace_inputs':
        return f'(OpReplaceInputs {L(op[1])} {L(op[2])})'
    if k == 'make_block':
        return f'(OpMakeBlock {S(op[1])} {L(op[2])} {L(op[3])} {ct.opt(op[4], L)})'
    if k == 'make_block_from_slice':
        return f'(OpMakeBlockFromSlice {S(op[1])} {L(op[2])} {L(op[3])})'
    if k == 'delete_block':
        return f'(OpDeleteBlock {S(op[1])})'
    if k == 'remove_block':
        return f'(OpRemoveBlock {S(op[1])})'
    if k == 'connect':
        return f'(OpConnect {ct.circuit(op[1])} {L(op[2])} {L(op[3])} {B(op[4])} {S(op[5])} {B(op[6])})'
    if k == 'connect_left':
        return f'(OpConnectLeft {ct.circuit(op[1])} {L(op[2])} {S(op[3])} {B(op[4])})'
    if k == 'connect_right':
        return f'(OpConnectRight {ct.circuit(op[1])} {L(op[2])} {S(op[3])} {B(op[4])})'
    if k == 'connect_inputs':
        return f'(OpConnectInputs {ct.circuit(op[1])} {S(op[2])} {B(op[3])})'
    if k == 'extend':
        return (f'(OpExtend {ct.circuit(op[1])} {ct.opt(op[2], L)} {ct.opt(op[3], L)} '
                f'{B(op[4])} {S(op[5])} {B(op[6])})')
    if k == 'add_circuit':
        return f'(OpAddCircuit {ct.circuit(op[1])} {S(op[2])} {B(op[3])})'
    if k == 'replace_subcircuit':
        m = lambda d: ct.lst(f'({S(a)}, {S(b)})' for a, b in d)
        return f'(OpReplaceSubcircuit {ct.circuit(op[1])} {m(op[2])} {m(op[3])} {S(op[4])})'
    if k == 'into_bench':
        return f'(OpIntoBench {ct.lst(S(x) for x in op[1])})'
    if k == 'copy':
        return 'OpCopy'
    if k == 'block_into_circuit':
        return f'(OpBlockIntoCircuit {S(op[1])})'
    raise ValueError(k)


def canonicalise_block(c, name):
    """reorder a block gate list that Python derived from a set into gate-map order"""
    b = c._blocks.get(name)
    if b is not None:
        gs = set(b._gates)
        if len(gs) == len(b._gates):
            b._gates[:] = [l for l in c._gates if l in gs]


def apply_op(c, op, uuid_counter):
    """apply op to implementation circuit c; returns the resulting circuit object"""
    import copy as _copy
    from cirbo.core.circuit import gate as G
    k = op[0]
    if k == 'emplace':
        c.emplace_gate(op[1], getattr(G, op[2]), tuple(op[3]))
    elif k == 'add_inputs':
        c.add_inputs(list(op[1]))
    elif k == 'remove_gate':
        c.remove_gate(op[1])
    elif k == 'rename':
        c.rename_gate(op[1], op[2])
    elif k == 'mark_output':
        c.mark_as_output(op[1])
    elif k == 'set_outputs':
        c.set_outputs(list(op[1]))
    elif k == 'set_inputs':
        c.set_inputs(list(op[1]))
    elif k == 'order_inputs':
        c.order_inputs(list(op[1]))
    elif k == 'order_outputs':
        c.order_outputs(list(op[1]))
    elif k == 'replace_inputs':
        c.replace_inputs(list(op[1]), list(op[2]))
    elif k == 'make_block':
        c.make_block(op[1], list(op[2]), list(op[3]), None if op[4] is None else list(op[4]))
    elif k == 'make_block_from_slice':
        c.make_block_from_slice(op[1], list(op[2]), list(op[3]))
        canonicalise_block(c, op[1])
    elif k == 'delete_block':
        c.delete_block(op[1])
    elif k == 'remove_block':
        c.remove_block(op[1])
    elif k in ('connect', 'connect_left', 'connect_right', 'connect_inputs', 'extend', 'add_circuit'):
        other = ct.build_circuit(op[1])
        before = ct.dump_circuit(other)
        if k == 'connect':
            c.connect_circuit(other, list(op[2]), list(op[3]), right_connect=op[4], name=op[5], add_prefix=op[6])
            name = op[5]
        elif k == 'connect_left':
            c.connect_left(other, list(op[2]), name=op[3], add_prefix=op[4])
            name = op[3]
        elif k == 'connect_right':
            c.connect_right(other, list(op[2]), name=op[3], add_prefix=op[4])
            name = op[3]
        elif k == 'connect_inputs':
            c.connect_inputs(other, name=op[2], add_prefix=op[3])
            name = op[2]
        elif k == 'extend':
            c.extend_circuit(other, this_connectors=op[2], other_connectors=op[3], right_connect=op[4],
                             name=op[5], add_prefix=op[6])
            name = op[5]
        else:
            c.add_circuit(other, name=op[2], add_prefix=op[3])
            name = op[2]
        if ct.dump_circuit(other) != before:
            raise AliasingViolation(f'{k} modified its argument circuit')
        if name:
            canonicalise_block(c, name)
    elif k == 'replace_subcircuit':
        sub = ct.build_circuit(op[1])
        before = ct.dump_circuit(sub)
        uuid_counter.n = int(op[4], 16) - 1
        c.replace_subcircuit(sub, dict(op[2]), dict(op[3]))
        if ct.dump_circuit(sub) != before:
            raise AliasingViolation('replace_subcircuit modified its argument circuit')
    elif k == 'into_bench':
        if op[1]:
            uuid_counter.n = int(op[1][0], 16) - 1
        c.into_bench()
    elif k == 'copy':
        c = _copy.copy(c)
    elif k == 'block_into_circuit':
        c = c.get_block(op[1]).into_circuit()
    else:
        raise ValueError(k)
    return c


class AliasingViolation(Exception):
    pass


def choose_op(rng, c, uuid_counter, p_invalid=0.15, allow=None):
    """choose the next public call given the current implementation state"""
    from cirbo.core.circuit import gate as G
    labels = list(c._gates)
    used = set(labels)
    inputs = list(c._inputs)
    blocks = list(c._blocks)
    invalid = rng.random() < p_invalid

    def some(k=None, pool=None):
        pool = labels if pool is None else pool
        if not pool:
            return []
        k = rng.randint(0, min(3, len(pool))) if k is None else k
        return [rng.choice(pool) for _ in range(k)]

    def ghost():
        return fresh_label(rng, used)

    kinds = allow or ['emplace'] * 6 + ['add_inputs', 'remove_gate', 'remove_gate', 'rename', 'rename',
             'mark_output', 'set_outputs', 'set_inputs', 'order_inputs', 'order_outputs',
             'replace_inputs', 'make_block', 'make_block_from_slice', 'delete_block', 'remove_block',
             'connect', 'connect', 'connect_left', 'connect_right', 'connect_inputs', 'extend',
             'add_circuit', 'replace_subcircuit', 'replace_subcircuit', 'into_bench', 'copy',
             'block_into_circuit']
    k = rng.choice(kinds)
    if k == 'emplace':
        g = random_gate(rng, labels)
        if g is None or rng.random() < 0.15:
            # an INPUT gate may legally carry (ignored) operands
            iops = [rng.choice(labels)] if labels and INPUT_WITH_OPERANDS and rng.random() < 0.1 else []
            return ('emplace', labels[0] if (invalid and labels) else ghost(), 'INPUT', iops)
        t, ops = g
        if invalid and rng.random() < 0.5:
            ops = ops + [ghost()]
        return ('emplace', rng.choice(labels) if invalid and labels and rng.random() < 0.5 else ghost(), t, ops)
    if k == 'add_inputs':
        ls = [ghost() for _ in range(rng.randint(0, 3))]
        if invalid and labels:
            ls.append(rng.choice(labels))
        return ('add_inputs', ls)
    if k == 'remove_gate':
        free = [l for l in labels if not c._gate_to_users.get(l)]
        if free and not invalid:
            return ('remove_gate', rng.choice(free))
        return ('remove_gate', rng.choice(labels) if labels and rng.random() < 0.7 else ghost())
    if k == 'rename':
        if labels and not invalid:
            return ('rename', rng.choice(labels), ghost())
        return ('rename', rng.choice(labels + [ghost()]), rng.choice(labels + [ghost()]))
    if k == 'mark_output':
        return ('mark_output', rng.choice(labels) if labels and not invalid else ghost())
    if k == 'set_outputs':
        return ('set_outputs', some() + ([ghost()] if invalid else []))
    if k == 'set_inputs':
        ins = list(inputs)
        rng.shuffle(ins)
        if invalid:
            r = rng.random()
            if r < 0.3 and ins:
                ins = ins[:-1]
            elif r < 0.6 and ins:
                ins = ins + [ins[0]]
            else:
                ins = ins + some(1)
        return ('set_inputs', ins)
    if k == 'order_inputs':
        ins = rng.sample(inputs, rng.randint(0, len(inputs)))
        if invalid:
            ins = ins + (some(1) or [ghost()])
        return ('order_inputs', ins)
    if k == 'order_outputs':
        outs = list(c._outputs)
        rng.shuffle(outs)
        outs = outs[:rng.randint(0, len(outs))]
        if invalid:
            outs = outs + (some(1) or [ghost()])
        return ('order_outputs', outs)
    if k == 'replace_inputs':
        pool = inputs if not invalid else labels
        a = some(rng.randint(0, 2), pool)
        b = [x for x in some(rng.randint(0, 2), pool) if (x not in a or invalid)]
        a = list(dict.fromkeys(a)) if not invalid else a
        b = list(dict.fromkeys(b)) if not invalid else b
        return ('replace_inputs', a, b)
    if k == 'make_block':
        name = rng.choice(blocks) if invalid and blocks else 'blk%d' % rng.randint(0, 99)
        gs = list(dict.fromkeys(some(rng.randint(0, 4)))) if rng.random() < 0.8 else some(3)
        return ('make_block', name, gs, some(rng.randint(0, 2), gs or labels),
                None if rng.random() < 0.5 else some(rng.randint(0, 2)))
    if k == 'make_block_from_slice':
        name = 'slc%d' % rng.randint(0, 99)
        outs = some(rng.randint(1, 2))
        ins = slice_inputs(rng, c, outs, invalid)
        return ('make_block_from_slice', name, ins, outs)
    if k == 'delete_block':
        return ('delete_block', rng.choice(blocks) if blocks and not invalid else 'nob')
    if k == 'remove_block':
        return ('remove_block', rng.choice(blocks) if blocks and not invalid else 'nob')
    if k in ('connect', 'connect_left', 'connect_right', 'connect_inputs', 'extend', 'add_circuit'):
        return connect_op(rng, c, k, invalid)
    if k == 'replace_subcircuit':
        return replace_subcircuit_op(rng, c, uuid_counter, invalid)
    if k == 'into_bench':
        n = sum(1 for g in c._gates.values()
                if g.gate_type.name in ('LT', 'LEQ', 'GT', 'GEQ', 'ALWAYS_TRUE', 'ALWAYS_FALSE'))
        return ('into_bench', uuid_counter.peek(n))
    if k == 'copy':
        return ('copy',)
    if k == 'block_into_circuit':
        return ('block_into_circuit', rng.choice(blocks) if blocks and not invalid else 'nob')
    raise ValueError(k)


def slice_inputs(rng, c, outs, invalid):
    """a cut below outs: walk down from outs, stopping at random gates"""
    ins, seen, todo = [], set(), list(outs)
    while todo:
        l = todo.pop()
        if l in seen or l not in c._gates:
            continue
        seen.add(l)
        g = c._gates[l]
        for o in g.operands:
            og = c._gates.get(o)
            stop = og is None or og.gate_type.name == 'INPUT' or rng.random() < 0.35
            if stop and not (invalid and rng.random() < 0.3):
                if o not in ins:
                    ins.append(o)
            else:
                todo.append(o)
    if rng.random() < 0.2:
        rng.shuffle(ins)
    return ins


def connect_op(rng, c, k, invalid):
    labels = list(c._gates)
    # other circuit: small; labels overlap with base sometimes
    other = random_circuit(rng, n_inputs=rng.choice([0, 1, 2, 2, 3]), n_gates=rng.randint(0, 6),
                           labels_prefix=rng.choice([None, 'x', 'q', 'q']), with_blocks=rng.random() < 0.4)
    if rng.random() < 0.3 and other['gates']:
        other['outputs'] = other['outputs'] or [other['gates'][-1][0]]
    name = rng.choice(['', '', 'N%d' % rng.randint(0, 9), 'N%d' % rng.randint(0, 9)])
    if invalid and c._blocks and rng.random() < 0.3:
        name = rng.choice(list(c._blocks))
    ap = rng.random() < 0.7
    olabels = [g[0] for g in other['gates']]
    if k == 'add_circuit':
        return ('add_circuit', other, name, ap)
    if k == 'connect_inputs':
        return ('connect_inputs', other, name, ap)
    if k == 'connect_left':
        n = len(other['inputs'])
        tc = [rng.choice(labels) for _ in range(n)] if labels else []
        if invalid and tc:
            tc = tc[:-1]
        return ('connect_left', other, tc, name, ap)
    if k == 'connect_right':
        n = len(c._inputs)
        # one gate of `other` replaces one base input: mostly distinct gates (a repeated one is refused)
        if olabels and len(olabels) >= n and rng.random() < 0.8:
            oc = rng.sample(olabels, n)
        else:
            oc = [rng.choice(olabels) for _ in range(n)] if olabels else []
        if invalid and oc:
            oc = oc + [oc[0]]
        return ('connect_right', other, oc, name, ap)
    right = rng.random() < 0.5
    if k == 'extend':
        tc = oc = None
        if rng.random() < 0.2:
            tc, oc = [], []          # explicit empty connector lists: side-by-side composition
        elif rng.random() < 0.4:
            tc = ([rng.choice(labels) for _ in range(len(other['inputs']))] if not right
                  else rng.sample(list(c._inputs), min(len(c._inputs), len(other['outputs'])))) if labels else []
        return ('extend', other, tc, oc, right, name, ap)
    # general connect
    if right:
        ins = list(c._inputs)
        kk = rng.randint(0, min(len(ins), 3))
        tc = rng.sample(ins, kk) if not invalid else [rng.choice(labels) for _ in range(kk)] if labels else []
        if olabels and len(olabels) >= len(tc) and rng.random() < 0.8:
            oc = rng.sample(olabels, len(tc))
        else:
            oc = [rng.choice(olabels) for _ in range(len(tc))] if olabels else []
    else:
        oins = list(other['inputs'])
        kk = rng.randint(0, len(oins))
        oc = rng.sample(oins, kk) if not invalid else [rng.choice(olabels) for _ in range(kk)] if olabels else []
        tc = [rng.choice(labels) for _ in range(len(oc))] if labels else []
    if invalid and rng.random() < 0.3 and tc:
        tc = tc[:-1]
    return ('connect', other, tc, oc, right, name, ap)


def replace_subcircuit_op(rng, c, uuid_counter, invalid):
    """pick a cut-bounded slice and a replacement circuit over fresh labels"""
    labels = list(c._gates)
    non_inputs = [l for l, g in c._gates.items() if g.gate_type.name != 'INPUT']
    fresh = uuid_counter.peek(1)[0]
    if not non_inputs:
        sub = random_circuit(rng, n_inputs=1, n_gates=1, labels_prefix='r', with_blocks=False)
        return ('replace_subcircuit', sub, [], [], fresh)
    outs = list(dict.fromkeys(rng.choice(non_inputs) for _ in range(rng.randint(1, 2))))
    ins = slice_inputs(rng, c, outs, invalid)
    ins = [i for i in ins if i not in outs]
    # replacement: arbitrary function (well-formedness is what C02 needs); fresh labels, sometimes reused
    sub = random_circuit(rng, n_inputs=len(ins), n_gates=rng.randint(1, 5), labels_prefix=rng.choice(['r', 'r', 'x']),
                         with_blocks=False, shuffle_order=False)
    sub_non_in = [l for l, t, _ in sub['gates'] if t != 'INPUT'] or [sub['gates'][0][0]] if sub['gates'] else []
    if not sub_non_in:
        return ('replace_subcircuit', sub, [], [], fresh)
    imap = list(zip(ins, sub['inputs']))
    omap = [(o, rng.choice(sub_non_in)) for o in outs]
    sub_labels = {g[0] for g in sub['gates']}
    if rng.random() < 0.3 and imap and not any(a in sub_labels for a, _ in imap):
        # keep some labels unchanged
        i = rng.randrange(len(imap))
        old, new = imap[i]
        ren = {new: old}
        sub = rename_dump(sub, ren)
        imap[i] = (old, old)
        omap = [(a, ren.get(b, b)) for a, b in omap]
    if rng.random() < 0.12:
        # a gate of the replacement carries the label of a host gate (mostly one OUTSIDE the replaced region):
        # the call must refuse with the documented error, never overwrite the host gate
        cand = [l for l, t, _ in sub['gates'] if t != 'INPUT']
        now = {g[0] for g in sub['gates']}
        host = [l for l in labels if l not in now]
        if cand and host:
            old, new = rng.choice(cand), rng.choice(host)
            sub = rename_dump(sub, {old: new})
            omap = [(a, new if b == old else b) for a, b in omap]
    if invalid:
        r = rng.random()
        if r < 0.3 and imap:
            imap = imap[:-1]
        elif r < 0.6 and omap:
            omap = omap + [(imap[0][0], omap[0][1])] if imap else omap
    sub['outputs'] = [b for _, b in omap]
    return ('replace_subcircuit', sub, imap, omap, fresh)


def rename_dump(d, ren):
    r = lambda l: ren.get(l, l)
    return {'inputs': [r(x) for x in d['inputs']], 'outputs': [r(x) for x in d['outputs']],
            'gates': [(r(k), t, [r(o) for o in ops]) for k, t, ops in d['gates']],
            'users': [(r(k), [r(u) for u in us]) for k, us in d['users']],
            'blocks': [(k, [r(x) for x in i], [r(x) for x in g], [r(x) for x in o]) for k, i, g, o in d['blocks']]}


def run_history(rng, uuid_counter, steps=None, start=None, p_invalid=0.15, allow=None):
    """-> dict(start=dump, ops=[op...], results=[('ok', dump)|('err', name)])"""
    from . import coqterm
    start = random_circuit(rng) if start is None else start
    c = coqterm.build_circuit(start)
    steps = rng.randint(1, 25) if steps is None else steps
    ops, results = [], []
    for _ in range(steps):
        op = choose_op(rng, c, uuid_counter, p_invalid, allow)
        ops.append(op)
        try:
            c = apply_op(c, op, uuid_counter)
        except AliasingViolation:
            raise
        except Exception as e:  # noqa: BLE001 - every exception is a result
            results.append(('err', coqterm.err_name(e)))
            break
        results.append(('ok', coqterm.dump_circuit(c)))
    return {'start': start, 'ops': ops, 'results': results}


def history_term(h) -> str:
    ops = ct.lst(op_term(o) for o in h['ops'])
    exp = ct.lst(ct.res(r, ct.circuit) for r in h['results'])
    return f'({ct.circuit(h["start"])}, {ops}, {exp})'
