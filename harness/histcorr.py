"""Shared correspondence on operation histories restricted to an allow-list of operations."""
from framework import coqrun
from . import env, gen

HEADER = ('Require Import Cirbo.Model.Base Cirbo.Model.Gate Cirbo.Model.Circuit Cirbo.Model.Connect '
          'Cirbo.Model.History Cirbo.Model.WF.\n'
          "Definition chk (x : circuit * list op * list (res circuit)) := let '(c, os, ex) := x in "
          'run_history c os ex && (negb (wfb c) || forallb wfb (history_states c os)).')
CASE_TYPE = 'circuit * list op * list (res circuit)'


def brief(op):
    return [op[0]] + [str(a)[:80] for a in op[1:]]


def run(ctx, prop_id, r, n, allow, p_invalid=0.08, steps=None, model_ok=True):
    hs = []
    for _ in range(n):
        h = gen.run_history(ctx.rng, env.uuid_counter, p_invalid=p_invalid, allow=allow,
                            steps=steps() if steps else None)
        hs.append(h)
        ok = sum(1 for x in h['results'] if x[0] == 'ok')
        r.add_case({'start': h['start'], 'ops': [brief(o) for o in h['ops']]}, ok > 0)
        for o, res in zip(h['ops'], h['results']):
            r.count('operations', o[0])
            r.count('results', 'ok' if res[0] == 'ok' else res[1])
    if model_ok:
        bad = coqrun.run_cases(prop_id, 'hist', HEADER, [gen.history_term(h) for h in hs], 'chk', CASE_TYPE)
        for i in bad:
            r.disagreements.append({'name': 'history: model state / invariant vs implementation',
                                    'history': {'start': hs[i]['start'], 'ops': hs[i]['ops']}})
    return hs
