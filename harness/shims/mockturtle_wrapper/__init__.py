"""Stand-in for the C++ extension mockturtle_wrapper (absent from this sandbox).

enumerate_cuts(bench_text, cut_size, cut_limit, fanin_limit) -> {node: [cut, ...]} where a cut
is a list of node labels: the standard bottom-up k-feasible cut enumeration (cross product of
the operand cut sets, size <= cut_size, dominated cuts dropped, at most cut_limit cuts per
node, the trivial cut [node] last).  C04 quantifies over "whatever valid family of cuts the cut
enumerator supplies", so any valid family is inside the property's quantifier.

Hook for the harness: set `mockturtle_wrapper.FAMILY_RNG = random.Random(seed)` to get a seeded
random sub-family in random order (still valid cuts); None restores the full family.
"""
import re

FAMILY_RNG = None
LAST_FAMILY = None   # the family returned by the last call (read by the C04 oracle)
LAST_GATES = None
__version__ = 'shim'

_LINE = re.compile(r'^\s*([^=\s]+)\s*=\s*([A-Za-z_0-9]+)\s*\((.*)\)\s*$')
_DECL = re.compile(r'^\s*(INPUT|OUTPUT)\s*\((.*)\)\s*$', re.I)


def _parse(text):
    inputs, gates = [], {}
    for line in text.splitlines():
        line = line.strip()
        if not line or line.startswith('#'):
            continue
        m = _DECL.match(line)
        if m:
            if m.group(1).upper() == 'INPUT':
                inputs.append(m.group(2).strip())
            continue
        m = _LINE.match(line)
        if m:
            ops = [o.strip() for o in m.group(3).split(',') if o.strip()]
            gates[m.group(1)] = ops
    return inputs, gates


def enumerate_cuts(bench_text, cut_size, cut_limit, fanin_limit):
    inputs, gates = _parse(bench_text)
    order, seen = [], set(inputs)

    def visit(n):
        stack = [(n, iter(gates.get(n, [])))]
        while stack:
            node, it = stack[-1]
            nxt = next(it, None)
            if nxt is None:
                stack.pop()
                if node not in seen:
                    seen.add(node)
                    order.append(node)
            elif nxt not in seen and nxt in gates:
                if any(nxt == s[0] for s in stack):
                    continue
                stack.append((nxt, iter(gates[nxt])))
    for n in gates:
        if n not in seen:
            visit(n)
    index = {n: i for i, n in enumerate(list(inputs) + order)}
    cuts = {i: [frozenset([i])] for i in inputs}
    for n in order:
        ops = [o for o in dict.fromkeys(gates[n]) if o in cuts]
        acc = [frozenset()]
        for o in ops:
            nxt = []
            for a in acc:
                for c in cuts[o]:
                    u = a | c
                    if len(u) <= cut_size and u not in nxt:
                        nxt.append(u)
            acc = nxt
        acc = [c for c in acc if c] if ops else []
        # drop dominated cuts
        keep = [c for c in acc if not any(d < c for d in acc)]
        keep.sort(key=lambda c: (len(c), sorted(index[x] for x in c)))
        keep = keep[:max(cut_limit - 1, 0)]
        cuts[n] = keep + [frozenset([n])]
    out = {}
    for n in list(inputs) + order:
        family = [sorted(c, key=lambda x: index[x]) for c in cuts[n]]
        if FAMILY_RNG is not None and len(family) > 1:
            trivial, rest = family[-1], family[:-1]
            rest = [c for c in rest if FAMILY_RNG.random() < 0.7]
            FAMILY_RNG.shuffle(rest)
            family = rest + [trivial]
        out[n] = family
    global LAST_FAMILY, LAST_GATES
    LAST_FAMILY, LAST_GATES = out, dict(gates)
    return out


def family_is_closed(family=None, gates=None):
    """every node strictly inside the cone of a listed cut has itself a listed cut inside that cut
    (minimize_subcircuits collects the cone of a cut from the sub-cuts of the cone's nodes)"""
    family = LAST_FAMILY if family is None else family
    gates = LAST_GATES if gates is None else gates
    for n, cuts in family.items():
        for cut in cuts:
            cs = set(cut)
            if cs == {n}:
                continue
            todo, seen = [n], set()
            while todo:
                x = todo.pop()
                if x in seen or x in cs:
                    continue
                seen.add(x)
                if not any(set(c) <= cs for c in family.get(x, [])):
                    return False
                todo += gates.get(x, [])
    return True
