class IDPool:
    """pysat.formula.IDPool: sequential ids starting at start_from, stable per object."""

    def __init__(self, start_from=1, occupied=()):
        self.top = start_from - 1
        self.obj2id = {}
        self.id2obj = {}

    def id(self, obj=None):
        if obj is None:
            self.top += 1
            return self.top
        if obj not in self.obj2id:
            self.top += 1
            self.obj2id[obj] = self.top
            self.id2obj[self.top] = obj
        return self.obj2id[obj]

    def obj(self, vid):
        return self.id2obj.get(vid)

    def restart(self, start_from=1, occupied=()):
        self.__init__(start_from)


class CNF:
    def __init__(self, from_clauses=None, **kw):
        self.clauses = []
        self.nv = 0
        if from_clauses is not None:
            for c in from_clauses:
                self.append(c)

    def append(self, clause):
        clause = list(clause)
        self.clauses.append(clause)
        for l in clause:
            self.nv = max(self.nv, abs(l))

    def extend(self, clauses):
        for c in clauses:
            self.append(c)

    def __iter__(self):
        return iter(self.clauses)

    def __len__(self):
        return len(self.clauses)
