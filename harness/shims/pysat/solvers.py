import os
import subprocess
import sys

_PICOSAT = '/usr/bin/picosat'


def _dpll(clauses, nv):
    sys.setrecursionlimit(max(10000, sys.getrecursionlimit()))
    assign = {}

    def simplify(cls, lit):
        out = []
        for c in cls:
            if lit in c:
                continue
            if -lit in c:
                c = [x for x in c if x != -lit]
                if not c:
                    return None
            out.append(c)
        return out

    def rec(cls, asg):
        while True:
            unit = next((c[0] for c in cls if len(c) == 1), None)
            if unit is None:
                break
            asg = dict(asg)
            asg[abs(unit)] = unit > 0
            cls = simplify(cls, unit)
            if cls is None:
                return None
        if not cls:
            return asg
        lit = cls[0][0]
        for l in (lit, -lit):
            n = simplify(cls, l)
            if n is not None:
                a2 = dict(asg)
                a2[abs(l)] = l > 0
                r = rec(n, a2)
                if r is not None:
                    return r
        return None

    cls = []
    for c in clauses:
        c = list(dict.fromkeys(c))
        if any(-l in c for l in c):
            continue
        if not c:
            return None
        cls.append(c)
    r = rec(cls, {})
    if r is None:
        return None
    return [v if r.get(v, False) else -v for v in range(1, nv + 1)]


# Effort limit (number of propagations, deterministic) for one picosat call; None = no limit.  When the
# limit is reached the shim raises cirbo's SolverTimeOutError, i.e. what CircuitFinderSat.find_circuit
# raises when its own `time_limit` expires.  Set by harness/subcorr.run_minimize for the duration of a
# minimize_subcircuits run (exact synthesis with 5 leaves / 8 gates can take picosat tens of minutes).
PROPAGATION_LIMIT = None
# seconds to sleep before every solve(): makes a time limit expire deterministically (harness/searchcorr)
SLOW_SECONDS = 0


def _picosat(clauses, nv):
    text = f'p cnf {nv} {len(clauses)}\n' + ''.join(' '.join(map(str, c)) + ' 0\n' for c in clauses)
    limit = [] if PROPAGATION_LIMIT is None else ['-P', str(PROPAGATION_LIMIT)]
    p = subprocess.run([_PICOSAT] + limit, input=text, capture_output=True, text=True)
    if p.returncode == 20:
        return None
    if p.returncode == 0 and limit and 's UNKNOWN' in p.stdout:
        from cirbo.synthesis.exception import SolverTimeOutError
        raise SolverTimeOutError()
    if p.returncode != 10:
        raise RuntimeError('picosat failed: ' + p.stderr[:200])
    model = []
    for line in p.stdout.splitlines():
        if line.startswith('v '):
            model += [int(x) for x in line[2:].split() if x != '0']
    have = {abs(l) for l in model}
    model += [-v for v in range(1, nv + 1) if v not in have]
    return sorted(model, key=abs)


class Solver:
    def __init__(self, name='m22', bootstrap_with=None, **kw):
        self._clauses = []
        self._nv = 0
        self._model = None
        self._status = None
        if bootstrap_with is not None:
            self.append_formula(bootstrap_with)

    def __enter__(self):
        return self

    def __exit__(self, *a):
        self.delete()

    def delete(self):
        pass

    def add_clause(self, clause, no_return=True):
        clause = list(clause)
        self._clauses.append(clause)
        for l in clause:
            self._nv = max(self._nv, abs(l))

    def append_formula(self, formula, no_return=True):
        for c in (formula.clauses if hasattr(formula, 'clauses') else formula):
            self.add_clause(c)

    def solve(self, assumptions=()):
        if SLOW_SECONDS:
            import time
            time.sleep(SLOW_SECONDS)      # a sound and complete solver that is slow (time-limit scenarios)
        cls = self._clauses + [[a] for a in assumptions]
        nv = max([self._nv] + [abs(a) for a in assumptions])
        if any(len(c) == 0 for c in cls):
            self._model, self._status = None, False
            return False
        use_pico = os.path.exists(_PICOSAT) and os.environ.get('VERIF_SHIM_SOLVER', 'picosat') == 'picosat'
        m = _picosat(cls, nv) if (use_pico and cls) else _dpll(cls, nv)
        self._model = m
        self._status = m is not None
        return self._status

    def get_model(self):
        return self._model


class SolverNames:
    pass
