"""Minimal stand-in for python-sat (absent from this sandbox and not installable).

Only the API surface cirbo uses: formula.CNF, formula.IDPool, solvers.Solver.
C05/C06 quantify over "any sound and complete SAT solver", so a different solver is
inside the property's quantifier.  Back end: /usr/bin/picosat when present, else a
small DPLL.
"""
