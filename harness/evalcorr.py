"""Correspondence and oracle for the evaluation entry points (C01, C15)."""
import itertools

from . import coqterm as ct
from . import gen

HEADER = ('Require Import Cirbo.Model.Base Cirbo.Model.Gate Cirbo.Model.Circuit Cirbo.Model.Eval '
          'Cirbo.Model.History Cirbo.Model.EvalCases.')
CASE_TYPE = 'eval_case'


def py_state(x):
    return {'T': True, 'F': False}.get(x, None)


def to_impl_assignment(a):
    from cirbo.core.circuit.operators import Undefined
    return {k: (Undefined if v == 'U' else v == 'T') for k, v in a}


def st_name(v):
    if v is True:
        return 'T'
    if v is False:
        return 'F'
    return 'U'


def dict_result(fn):
    try:
        d = fn()
    except RecursionError:
        raise
    except Exception as e:  # noqa: BLE001
        return ('err', ct.err_name(e))
    return ('ok', [(k, st_name(v)) for k, v in d.items()])


def call(fn, conv):
    try:
        r = fn()
    except RecursionError:
        raise
    except Exception as e:  # noqa: BLE001
        return ('err', ct.err_name(e))
    return ('ok', conv(r))


def partial_assignments(rng, inputs, limit):
    """assignments over inputs: values T/F/U or key omitted"""
    n = len(inputs)
    space = 4 ** n
    out = []
    if space <= limit:
        for combo in itertools.product('TFU-', repeat=n):
            out.append([(i, v) for i, v in zip(inputs, combo) if v != '-'])
    else:
        for _ in range(limit):
            a = []
            for i in inputs:
                v = rng.choice('TTFFU-')
                if v != '-':
                    a.append((i, v))
            if rng.random() < 0.3:
                rng.shuffle(a)
            out.append(a)
    return out


def make_case(rng, dump, n_assign=12, n_vec=8, with_tt=True):
    c = ct.build_circuit(dump)
    inputs = list(c._inputs)
    labels = list(c._gates)
    acs = []
    for a in partial_assignments(rng, inputs, n_assign):
        outs = None
        if labels and rng.random() < 0.5:
            outs = [rng.choice(labels) for _ in range(rng.randint(0, 3))]
        ia = to_impl_assignment(a)
        full = dict_result(lambda: c.evaluate_full_circuit(dict(ia)))
        circ = dict_result(lambda: c.evaluate_circuit(dict(ia), outputs=outs))
        co = dict_result(lambda: c.evaluate_circuit_outputs(dict(ia)))
        acs.append({'a': a, 'outs': outs, 'full': full, 'circ': circ, 'co': co})
    vcs = []
    n = len(inputs)
    vecs = list(itertools.product([False, True], repeat=n))
    if len(vecs) > n_vec:
        vecs = rng.sample(vecs, n_vec)
    for v in vecs:
        v = list(v)
        if rng.random() < 0.05 and v:
            v = v[:-1]  # too short: IndexError
        ev = call(lambda: c.evaluate(v), lambda r: [st_name(x) for x in r])
        ats = [call(lambda i=i: c.evaluate_at(v, i), st_name) for i in range(len(c._outputs) + 1)]
        vcs.append({'vals': ['T' if x else 'F' for x in v], 'ev': ev, 'ats': ats})
    tt = gtt = None
    if with_tt and n <= 5:
        tt = call(c.get_truth_table, lambda r: [[st_name(x) for x in row] for row in r])
        gtt = call(c.get_gates_truth_table, lambda r: [(k, [st_name(x) for x in v]) for k, v in r.items()])
    return {'circuit': dump, 'acs': acs, 'vcs': vcs, 'tt': tt, 'gtt': gtt}


def asg_term(a):
    return ct.lst(f'({ct.s(k)}, {v})' for k, v in a)


def case_term(case):
    R = ct.res
    acs = ct.lst(
        f'({asg_term(x["a"])}, {ct.opt(x["outs"], ct.labels)}, {R(x["full"], asg_term)}, '
        f'{R(x["circ"], asg_term)}, {R(x["co"], asg_term)})' for x in case['acs'])
    stl = lambda l: ct.lst(l)
    vcs = ct.lst(f'({stl(x["vals"])}, {R(x["ev"], stl)}, {ct.lst(R(a, str) for a in x["ats"])})'
                 for x in case['vcs'])
    tt = ct.opt(case['tt'], lambda r: R(r, lambda rows: ct.lst(stl(row) for row in rows)))
    gtt = ct.opt(case['gtt'], lambda r: R(r, lambda d: ct.lst(f'({ct.s(k)}, {stl(v)})' for k, v in d)))
    return f'({ct.circuit(case["circuit"])}, {acs}, {vcs}, {tt}, {gtt})'


# ---------------------------------------------------------------- reference semantics (oracle)
def ref_bool(t, vs):
    """the denotation of the property text; None = arity not accepted"""
    import functools
    n = len(vs)
    if t in ('AND', 'OR', 'XOR', 'NAND', 'NOR', 'NXOR'):
        if n < 2:
            return None
        base = t[1:] if t in ('NAND', 'NOR', 'NXOR') else t
        f = {'AND': lambda a, b: a and b, 'OR': lambda a, b: a or b, 'XOR': lambda a, b: a != b}[base]
        r = functools.reduce(f, vs)
        return (not r) if t in ('NAND', 'NOR', 'NXOR') else r
    if t == 'ALWAYS_TRUE':
        return True
    if t == 'ALWAYS_FALSE':
        return False
    if t in ('NOT', 'IFF'):
        return None if n != 1 else ((not vs[0]) if t == 'NOT' else vs[0])
    if n != 2:
        return None
    a, b = vs
    return {'GT': a and not b, 'LT': (not a) and b, 'GEQ': a or not b, 'LEQ': (not a) or b,
            'LIFF': a, 'RIFF': b, 'LNOT': not a, 'RNOT': not b}[t]


def ref_eval(dump, assignment):
    """total Boolean assignment (dict label->bool) -> dict label->bool by structural recursion"""
    gates = {k: (t, ops) for k, t, ops in dump['gates']}
    memo = {}

    def val(root):
        # explicit stack of (label, next operand position): the depth of a circuit is not bounded by Python's
        # recursion limit; a label met again while it is still open is a cycle
        if root in memo:
            return memo[root]
        open_ = {root}
        stack = [[root, 0]]
        while stack:
            l, k = stack[-1]
            t, ops = gates[l]
            if t == 'INPUT':
                memo[l] = assignment[l]
                open_.discard(l)
                stack.pop()
                continue
            while k < len(ops) and ops[k] in memo:
                k += 1
            stack[-1][1] = k
            if k < len(ops):
                o = ops[k]
                if o in open_:
                    raise RecursionError('cyclic netlist handed to the reference evaluator')
                open_.add(o)
                stack.append([o, 0])
                continue
            r = ref_bool(t, [memo[o] for o in ops])
            if r is None:
                raise ArityError(l)
            memo[l] = r
            open_.discard(l)
            stack.pop()
        return memo[root]
    return {l: val(l) for l in gates}


class ArityError(Exception):
    pass


def well_formed_for_eval(dump):
    gates = {k: (t, ops) for k, t, ops in dump['gates']}
    for k, (t, ops) in gates.items():
        if any(o not in gates for o in ops):
            return False
        if t != 'INPUT' and ref_bool(t, [False] * len(ops)) is None:
            return False
        if t == 'INPUT' and ops:
            return False
    ins = [k for k, (t, _) in gates.items() if t == 'INPUT']
    return sorted(ins) == sorted(dump['inputs']) and all(o in gates for o in dump['outputs'])


def oracle_c01(dump, max_inputs=8):
    """every entry point returns the reference value, on all total assignments"""
    from . import semoracle
    if not well_formed_for_eval(dump) or not semoracle.acyclic(dump):
        return None
    c = ct.build_circuit(dump)
    ins = list(c._inputs)
    outs = list(c._outputs)
    if len(ins) > max_inputs:
        return None
    rows = []
    for vec in itertools.product([False, True], repeat=len(ins)):
        asg = dict(zip(ins, vec))
        ref = ref_eval(dump, asg)
        full = c.evaluate_full_circuit(dict(asg))
        for l in c._gates:
            if full.get(l) is not ref[l]:
                return f'evaluate_full_circuit: gate {l} = {full.get(l)!r}, semantics say {ref[l]} at {asg}'
        circ = c.evaluate_circuit(dict(asg))
        for o in outs:
            if circ.get(o) is not ref[o]:
                return f'evaluate_circuit: output {o} = {circ.get(o)!r}, semantics say {ref[o]} at {asg}'
        for l, v in circ.items():
            if l in ref and v is not ref[l] and st_name(v) != 'U':
                return f'evaluate_circuit: gate {l} = {v!r}, semantics say {ref[l]} at {asg}'
        co = c.evaluate_circuit_outputs(dict(asg))
        if set(co) != set(outs) or any(co[o] is not ref[o] for o in set(outs)):
            return f'evaluate_circuit_outputs = {co}, semantics say {[(o, ref[o]) for o in outs]} at {asg}'
        ev = c.evaluate(list(vec))
        if ev != [ref[o] for o in outs] or any(type(x) is not bool for x in ev):
            return f'evaluate = {ev}, semantics say {[ref[o] for o in outs]} at {asg}'
        for i, o in enumerate(outs):
            at = c.evaluate_at(list(vec), i)
            if at is not ref[o]:
                return f'evaluate_at({i}) = {at!r}, semantics say {ref[o]} at {asg}'
        rows.append([ref[o] for o in outs])
    if len(ins) <= 6:
        tt = [list(r) for r in c.get_truth_table()]
        exp = [[r[j] for r in rows] for j in range(len(outs))]
        if tt != exp:
            return f'get_truth_table = {tt}, semantics say {exp}'
        gtt = c.get_gates_truth_table()
        for l in c._gates:
            exp_l = [ref_eval(dump, dict(zip(ins, vec)))[l] for vec in itertools.product([False, True], repeat=len(ins))]
            if list(gtt.get(l, [])) != exp_l:
                return f'get_gates_truth_table[{l}] = {gtt.get(l)}, semantics say {exp_l}'
    return None


def oracle_after_edits(dump, max_inputs=6):
    """evaluation equals the semantics for a well-formed circuit HOWEVER it was reached: the same object is
    evaluated, edited through public mutators that leave it well formed (inputs re-ordered, a gate renamed, a gate
    added on top of a sink and removed again, an unused input and a constant added), and evaluated again after
    every edit - each time against the reference semantics of the state it is in then"""
    from . import semoracle
    if not well_formed_for_eval(dump) or not semoracle.acyclic(dump):
        return None
    c = ct.build_circuit(dump)
    if len(c._inputs) > max_inputs or not c._gates:
        return None
    from cirbo.core.circuit import gate as G

    def compare(what):
        from . import wforacle
        if wforacle.wf_violation(c):
            return None          # the edit broke the C02 invariant: reported there, evaluation is not judged here
        d = ct.dump_circuit(c)
        ins, outs = list(d['inputs']), list(d['outputs'])
        vecs = [tuple([False] * len(ins)), tuple([True] * len(ins)), tuple(bool(i % 2) for i in range(len(ins))),
                tuple(bool((i + 1) % 2) for i in range(len(ins)))]
        for vec in dict.fromkeys(vecs):
            ref = ref_eval(d, dict(zip(ins, vec)))
            try:
                ev = c.evaluate(list(vec))
                full = c.evaluate_full_circuit(dict(zip(ins, vec)))
            except Exception as e:  # noqa: BLE001
                return f'after {what}: evaluation raises {type(e).__name__}'
            if list(ev) != [ref[o] for o in outs]:
                return f'after {what}: evaluate({list(vec)}) = {list(ev)}, semantics of the current state say {[ref[o] for o in outs]}'
            for l in d['gates']:
                if full.get(l[0]) is not ref[l[0]]:
                    return (f'after {what}: evaluate_full_circuit reports {full.get(l[0])!r} at {l[0]}, semantics of the '
                            f'current state say {ref[l[0]]}')
        if len(ins) <= 4:
            try:
                tt = [list(r) for r in c.get_truth_table()]
            except Exception as e:  # noqa: BLE001
                return f'after {what}: get_truth_table raises {type(e).__name__}'
            exp = [[ref_eval(d, dict(zip(ins, v)))[o] for v in itertools.product([False, True], repeat=len(ins))] for o in outs]
            if tt != exp:
                return f'after {what}: get_truth_table = {tt}, semantics of the current state say {exp}'
        return None
    msg = compare('construction')
    if msg:
        return msg
    labels = list(c._gates)
    sinks = [l for l in labels if not c.get_gate_users(l)] or labels
    edits = [('order_inputs (reversed)', lambda: c.order_inputs(list(reversed(c._inputs)))),
             ('rename_gate', lambda: c.rename_gate(labels[0], labels[0] + '~renamed')),
             ('emplace_gate of a NOT on a sink', lambda: c.emplace_gate('~tmp_not', G.NOT, (sinks[-1] if sinks[-1] != labels[0] else labels[0] + '~renamed',))),
             ('remove_gate of that NOT', lambda: c.remove_gate('~tmp_not')),
             ('add_inputs of an unused input', lambda: c.add_inputs(['~in'])),
             ('emplace_gate of a constant', lambda: c.emplace_gate('~one', G.ALWAYS_TRUE, ())),
             ('order_inputs (rotated)', lambda: c.order_inputs(list(c._inputs[1:]) + list(c._inputs[:1]))),
             ('mark_as_output of the constant', lambda: c.mark_as_output('~one'))]
    for what, fn in edits:
        try:
            fn()
        except Exception:  # noqa: BLE001
            continue
        msg = compare(what)
        if msg:
            return msg
    return None


def oracle_c15(dump, max_inputs=5):
    """partial assignments: defined values are stable under completion; total => defined"""
    from . import semoracle
    if not well_formed_for_eval(dump) or not semoracle.acyclic(dump):
        return None
    from cirbo.core.circuit.operators import Undefined
    c = ct.build_circuit(dump)
    ins = list(c._inputs)
    if len(ins) > max_inputs:
        return None
    totals = {vec: ref_eval(dump, dict(zip(ins, vec))) for vec in itertools.product([False, True], repeat=len(ins))}
    outs = list(c._outputs)
    reused = {}           # ONE dict object that the caller keeps and updates between calls
    for combo in itertools.product([False, True, None], repeat=len(ins)):
        asg = {i: (Undefined if v is None else v) for i, v in zip(ins, combo)}
        # the caller's dictionary is not modified by an evaluation, so it can be updated and passed again
        reused.clear()
        reused.update(asg)
        for name, fn in (('evaluate_circuit', c.evaluate_circuit), ('evaluate_full_circuit', c.evaluate_full_circuit),
                         ('evaluate_circuit_outputs', c.evaluate_circuit_outputs)):
            fn(reused)
            if reused != asg or list(reused) != list(asg):
                return f'{name}: modified the assignment dictionary it was given ({asg} became {reused})'
        if None not in combo:
            ref = totals[tuple(combo)]
            co = c.evaluate_circuit_outputs(dict(asg))
            for o in outs:
                if co.get(o) is not ref[o]:
                    return f'evaluate_circuit_outputs: total assignment {asg} gives {co.get(o)!r} at output {o}, not {ref[o]}'
            ec = c.evaluate_circuit(dict(asg))
            for o in outs:
                if ec.get(o) is not ref[o]:
                    return f'evaluate_circuit: total assignment {asg} gives {ec.get(o)!r} at output {o}, not {ref[o]}'
            ev = c.evaluate([bool(v) for v in combo])
            if ev != [ref[o] for o in outs]:
                return f'evaluate: total assignment {asg} gives {ev}'
        # the positional entry point: evaluate_at(values in input order, output position)
        vals = [asg[i] for i in ins]
        for pos, o in enumerate(outs):
            try:
                at = c.evaluate_at(list(vals), pos)
            except Exception as e:  # noqa: BLE001
                if None in combo:
                    continue         # evaluate_at is documented for Boolean vectors; refusing Undefined is legal
                return f'evaluate_at: raises {type(e).__name__} at output position {pos} under {combo}'
            if st_name(at) == 'U':
                if None not in combo:
                    return f'evaluate_at: total assignment {asg} gives Undefined at output position {pos}'
                continue
            for vec, ref in totals.items():
                if all(cv is None or cv == tv for cv, tv in zip(combo, vec)):
                    if ref[o] is not at:
                        return (f'evaluate_at: output position {pos} ({o}) reported {at} under partial {combo} but '
                                f'completion {vec} gives {ref[o]}')
        variants = [('evaluate_full_circuit', lambda: c.evaluate_full_circuit(dict(asg))),
                    ('evaluate_circuit', lambda: c.evaluate_circuit(dict(asg)))]
        if None in combo:
            # the undefined marker as an EQUAL but not identical object (operators._Undefined compares equal to every
            # instance of its class and hashes alike: a deep copy or a pickle round trip of an assignment, or of an
            # earlier result, carries such an instance); it is the same partial assignment
            import copy
            variants += [('evaluate_full_circuit (deep-copied assignment)', lambda: c.evaluate_full_circuit(copy.deepcopy(asg))),
                         ('evaluate_circuit (deep-copied assignment)', lambda: c.evaluate_circuit(copy.deepcopy(asg)))]
        for name, fn in variants:
            res = fn()
            for l, v in res.items():
                if st_name(v) == 'U':
                    if None not in combo and name == 'evaluate_full_circuit':
                        return f'{name}: total assignment {asg} gives Undefined at {l}'
                    continue
                for vec, ref in totals.items():
                    if all(cv is None or cv == tv for cv, tv in zip(combo, vec)):
                        if ref[l] is not v:
                            return (f'{name}: {l} reported {v} under partial {combo} but completion '
                                    f'{vec} gives {ref[l]}')
    return None
