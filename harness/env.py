"""Process set-up for running the implementation: import path, shims, determinism.

Importing this module (from a /venv/bin/python process) makes `import cirbo` resolve
to $CIRBO_REPO (default /repo), puts the pysat / mockturtle_wrapper shims first on the
path, and replaces uuid.uuid4 by a counter so that fresh labels are reproducible.
"""
import os
import pathlib
import sys
import types
import uuid

HERE = pathlib.Path(__file__).resolve().parent
VERIF = HERE.parent
REPO = pathlib.Path(os.environ.get('CIRBO_REPO', '/repo'))
SHIMS = HERE / 'shims'

for p in (str(REPO), str(SHIMS)):
    while p in sys.path:
        sys.path.remove(p)
sys.path[:0] = [str(SHIMS), str(REPO)]
os.environ.setdefault('PYTHONHASHSEED', '0')


class _FakeUUID:
    def __init__(self, n):
        self.int = n
        self.hex = '%032x' % n

    def __str__(self):
        return self.hex


class _Counter:
    def __init__(self):
        self.n = 0

    def __call__(self):
        self.n += 1
        return _FakeUUID(self.n)

    def peek(self, k):
        """the next k hex values that will be handed out"""
        return ['%032x' % (self.n + i + 1) for i in range(k)]


uuid_counter = _Counter()
uuid.uuid4 = uuid_counter


def import_cirbo():
    import cirbo  # noqa
    assert pathlib.Path(cirbo.__file__).resolve().parent.parent == REPO.resolve(), cirbo.__file__
    return cirbo
