"""Correspondence (netlist equality) and direct oracle for the arithmetic generators of C09.

A case is JSON:  {'host': circuit dump, 'k0': first uuid number, 'call': [kind, args...]}
or, for the generate_* wrappers, {'gen': [kind, args...], 'k0': ...}.

Labels: the implementation names fresh gates 'new_%032x' % j (j = patched uuid counter).  Both
sides are compared after renaming these labels by creation index j to Builder.short_label j
('n' + binary digits of j, least significant first); every other label is kept.  Host circuits
never use labels of that shape except through this renaming (to exercise the retry loop of
generate_random_label a host may contain the gate 'new_<j>' for an upcoming j).
"""
import itertools
import re

from . import coqterm as ct
from . import env

HEADER = ('Require Import Cirbo.Model.Base Cirbo.Model.Gate Cirbo.Model.Circuit Cirbo.Model.History '
          'Cirbo.Model.Builder Cirbo.Generated.ArithTables Cirbo.Model.ArithCases.')
CASE_TYPE = 'arith_case'
GEN_CASE_TYPE = 'gen_case'

NEW_RE = re.compile(r'^new_([0-9a-f]{32})$')


def short(j: int) -> str:
    return 'n' + (bin(j)[2:][::-1] if j > 0 else '')


def impl_label(j: int) -> str:
    return 'new_%032x' % j


def ren(l: str) -> str:
    m = NEW_RE.match(l)
    return short(int(m.group(1), 16)) if m else l


def ren_dump(d):
    return {'inputs': [ren(x) for x in d['inputs']], 'outputs': [ren(x) for x in d['outputs']],
            'gates': [(ren(k), t, [ren(o) for o in ops]) for k, t, ops in d['gates']],
            'users': [(ren(k), [ren(u) for u in us]) for k, us in d['users']],
            'blocks': [(k, [ren(x) for x in i], [ren(x) for x in g], [ren(x) for x in o])
                       for k, i, g, o in d['blocks']]}


def err_name(e) -> str:
    from cirbo.synthesis.generation.exceptions import BadShapesError, BadBasisError
    if isinstance(e, (BadShapesError, BadBasisError)):
        return 'GenerationError'
    return ct.err_name(e)


# ------------------------------------------------------------------ running the implementation
def _mods():
    from cirbo.synthesis.generation import generation as G
    from cirbo.synthesis.generation.arithmetics import _utils, div_mod, equality, sqrt, subtraction, summation
    return G, _utils, div_mod, equality, sqrt, subtraction, summation


def _call_impl(c, call, L):
    """apply one add_* call to the cirbo Circuit c; result normalised to a list of label lists"""
    G, U, DM, EQ, SQ, SB, SM = _mods()
    k = call[0]
    if k == 'gatett':
        return [[U.add_gate_from_tt(c, call[2], call[3], call[1])]]
    if k == 'sub2':
        return [list(SB.add_sub2(c, L(call[1]), big_endian=call[2]))]
    if k == 'sub3':
        return [list(SB.add_sub3(c, L(call[1]), big_endian=call[2]))]
    if k == 'sub':
        return [list(SB.add_sub_two_numbers(c, L(call[1]), L(call[2]), big_endian=call[3]))]
    if k == 'subcmp':
        r, b = SB.add_subtract_with_compare(c, L(call[1]), L(call[2]), big_endian=call[3])
        return [list(r), [b]]
    if k == 'sum2':
        return [list(SM.add_sum_two_numbers(c, L(call[1]), L(call[2]), big_endian=call[3]))]
    if k == 'divmod':
        q, r = DM.add_div_mod(c, L(call[1]), L(call[2]), big_endian=call[3])
        return [list(q), list(r)]
    if k == 'sqrt':
        return [list(SQ.add_sqrt(c, L(call[1]), big_endian=call[2]))]
    if k == 'equal':
        return [[EQ.add_equal(c, L(call[1]), call[2])]]
    if k == 'plusone':
        rl = None if call[2] is None else L(call[2])
        return [list(G.add_plus_one(c, L(call[1]), result_labels=rl, add_outputs=call[3], big_endian=call[4]))]
    if k == 'ite':
        return [[G.add_if_then_else(c, call[1], call[2], call[3], result_label=call[4], add_outputs=call[5])]]
    if k == 'pite':
        rl = None if call[4] is None else L(call[4])
        return [list(G.add_pairwise_if_then_else(c, L(call[1]), L(call[2]), L(call[3]),
                                                 result_labels=rl, add_outputs=call[5]))]
    if k == 'pxor':
        rl = None if call[3] is None else L(call[3])
        return [list(G.add_pairwise_xor(c, L(call[1]), L(call[2]), result_labels=rl, add_outputs=call[4]))]
    raise ValueError(k)


class OperandListMutated(Exception):
    pass


def hand_over(name, run):
    """operand label lists are handed over as real list objects; equal operand lists are the SAME object
    (callers do write `add_div_mod(c, xs, xs)`), and no generator may modify a list it was given.
    run(L) performs the call, wrapping every operand list x as L(x)"""
    handed = {}

    def L(x):
        key = tuple(tuple(e) if isinstance(e, list) else e for e in x)
        if key not in handed:
            handed[key] = [tuple(e) if isinstance(e, list) else e for e in x]
        return handed[key]
    res = run(L)
    for key, obj in handed.items():
        if tuple(obj) != key:
            raise OperandListMutated(f'{name} modified an operand list it was given: {list(key)} became {obj}')
    return res


def call_impl(c, call):
    return hand_over(call[0], lambda L: _call_impl(c, call, L))


def run_impl(case):
    """-> (circuit before, ('ok', (lists, dump_after, counter)) | ('err', name), circuit after)"""
    c = ct.build_circuit(case['host'])
    env.uuid_counter.n = case['k0'] - 1
    try:
        lists = call_impl(c, case['call'])
    except RecursionError:
        raise
    except Exception as e:  # noqa: BLE001
        return ('err', err_name(e)), c
    return ('ok', (lists, ct.dump_circuit(c), env.uuid_counter.n + 1)), c


def gen_impl(gen):
    G, U, DM, EQ, SQ, SB, SM = _mods()
    k = gen[0]
    if k == 'gsub':
        return SB.generate_sub_two_numbers(gen[1], gen[2], big_endian=gen[3])
    if k == 'gdivmod':
        return DM.generate_div_mod(gen[1], big_endian=gen[2])
    if k == 'gsqrt':
        return SQ.generate_sqrt(gen[1], big_endian=gen[2])
    if k == 'gequal':
        return EQ.generate_equal(gen[1], gen[2])
    if k == 'gplusone':
        return G.generate_plus_one(gen[1], gen[2], big_endian=gen[3])
    if k == 'gite':
        return G.generate_if_then_else()
    if k == 'gpite':
        return G.generate_pairwise_if_then_else(gen[1])
    if k == 'gpxor':
        return G.generate_pairwise_xor(gen[1])
    raise ValueError(k)


def fresh_on_every_call(case, first, again, max_gates=3000):
    """a generate_* function builds a NEW circuit on every call.  The first result is edited in place through
    public mutators (what a caller does with a generated gadget), then the generator is called again with the
    same arguments: it must return another object with the state the first call returned.
    -> (ok?, dump of the first result, an unedited result)"""
    from .semoracle import mutate_everything
    d1 = ct.dump_circuit(first)
    if len(d1['gates']) > max_gates:
        return True, d1, first
    mutate_everything(first)
    try:
        first.set_outputs(list(first._gates)[:1])
    except Exception:  # noqa: BLE001
        pass
    env.uuid_counter.n = case['k0'] - 1
    second = again()
    if second is first:
        return False, d1, second
    # the second result is what the value oracle judges (a result that still carries the edits fails there);
    # its labels need not repeat those of the first call
    return True, ct.dump_circuit(second), second


SHARED_STATE = 'GenerateReturnsSharedState'   # printed as an unmodelled error: the model always builds afresh


def run_gen(case):
    env.uuid_counter.n = case['k0'] - 1
    try:
        c = gen_impl(case['gen'])
        ok, d1, c = fresh_on_every_call(case, c, lambda: gen_impl(case['gen']))
    except RecursionError:
        raise
    except Exception as e:  # noqa: BLE001
        return ('err', err_name(e)), None
    if not ok:
        return ('err', SHARED_STATE), None
    return ('ok', d1), c


# ------------------------------------------------------------------ Coq terms
def L(ls):
    return ct.labels([ren(x) for x in ls])


def S(x):
    return ct.s(ren(x))


def OL(ls):
    return ct.opt(ls, L)


def B(b):
    return ct.boolean(bool(b))


def tt_term(s):
    return '(TT ' + ' '.join('true' if ch == '1' else 'false' for ch in s) + ')'


def zterm(z):
    return f'({z})%Z'


def call_term(call):
    k = call[0]
    if k == 'gatett':
        return f'(CGateTT {tt_term(call[1])} {S(call[2])} {S(call[3])})'
    if k == 'sub2':
        return f'(CSub2 {L(call[1])} {B(call[2])})'
    if k == 'sub3':
        return f'(CSub3 {L(call[1])} {B(call[2])})'
    if k in ('sub', 'subcmp', 'sum2', 'divmod'):
        name = {'sub': 'CSub', 'subcmp': 'CSubCmp', 'sum2': 'CSum2', 'divmod': 'CDivMod'}[k]
        return f'({name} {L(call[1])} {L(call[2])} {B(call[3])})'
    if k == 'sqrt':
        return f'(CSqrt {L(call[1])} {B(call[2])})'
    if k == 'equal':
        return f'(CEqual {L(call[1])} {zterm(call[2])})'
    if k == 'plusone':
        return f'(CPlusOne {L(call[1])} {OL(call[2])} {B(call[3])} {B(call[4])})'
    if k == 'ite':
        return f'(CIte {S(call[1])} {S(call[2])} {S(call[3])} {ct.opt(call[4], S)} {B(call[5])})'
    if k == 'pite':
        return f'(CPIte {L(call[1])} {L(call[2])} {L(call[3])} {OL(call[4])} {B(call[5])})'
    if k == 'pxor':
        return f'(CPXor {L(call[1])} {L(call[2])} {OL(call[3])} {B(call[4])})'
    raise ValueError(k)


def case_term(case, result):
    host = ct.circuit(ren_dump(case['host']))

    def okf(v):
        lists, dump, k = v
        return f'({ct.lst(L(x) for x in lists)}, {ct.circuit(ren_dump(dump))}, {k}%N)'
    return f'({host}, {case["k0"]}%N, {call_term(case["call"])}, {ct.res(result, okf)})'


def gen_labels(gen):
    """the input / result label lists the wrappers build (their spelling is the implementation's)"""
    G = _mods()[0]
    k = gen[0]
    if k == 'gsub':
        return [str(i) for i in range(gen[1] + gen[2])]
    if k == 'gdivmod':
        return [str(i) for i in range(2 * gen[1])]
    if k in ('gsqrt', 'gequal'):
        return [str(i) for i in range(gen[1])]
    gl = G._generate_labels
    if k == 'gplusone':
        x, z = gl('x', gen[1]), gl('z', gen[2])
        return (x[::-1], z[::-1]) if gen[3] else (x, z)
    if k == 'gite':
        return ('if', 'then', 'else', 'if_then_else')
    if k == 'gpite':
        return (gl('if', gen[1]), gl('then', gen[1]), gl('else', gen[1]), gl('if_then_else', gen[1]))
    if k == 'gpxor':
        return (gl('x', gen[1]), gl('y', gen[1]), gl('xor', gen[1]))
    raise ValueError(k)


def gen_term(gen):
    k = gen[0]
    ls = gen_labels(gen)
    if k == 'gsub':
        return f'(GSub {L(ls)} {gen[1]} {B(gen[3])})'
    if k == 'gdivmod':
        return f'(GDivMod {L(ls)} {gen[1]} {B(gen[2])})'
    if k == 'gsqrt':
        return f'(GSqrt {L(ls)} {B(gen[2])})'
    if k == 'gequal':
        return f'(GEqual {L(ls)} {zterm(gen[2])})'
    if k == 'gplusone':
        return f'(GPlusOne {L(ls[0])} {L(ls[1])} {B(gen[3])})'
    if k == 'gite':
        return '(GIte ' + ' '.join(S(x) for x in ls) + ')'
    if k == 'gpite':
        return '(GPIte ' + ' '.join(L(x) for x in ls) + ')'
    if k == 'gpxor':
        return '(GPXor ' + ' '.join(L(x) for x in ls) + ')'
    raise ValueError(k)


def gen_case_term(case, result):
    return f'({case["k0"]}%N, {gen_term(case["gen"])}, {ct.res(result, lambda d: ct.circuit(ren_dump(d)))})'


# ------------------------------------------------------------------ case generators
HOST_TYPES2 = ['AND', 'OR', 'XOR', 'NAND', 'NOR', 'NXOR', 'GEQ', 'GT', 'LEQ', 'LT', 'LIFF', 'LNOT', 'RIFF', 'RNOT']


def make_host(rng, n_inputs, n_gates, n_outputs=None, collide=()):
    """a well-formed host circuit dump: inputs x0.., gates g0.. over random earlier labels;
    `collide` = uuid numbers j for which the host already contains the gate 'new_<j>'"""
    inputs = [f'x{i}' for i in range(n_inputs)]
    order = [(l, 'INPUT', []) for l in inputs]
    avail = list(inputs)
    names = [f'g{i}' for i in range(n_gates)] + [impl_label(j) for j in collide]
    rng.shuffle(names)
    for l in names:
        r = rng.random()
        if not avail or r < 0.05:
            t, ops = rng.choice(['ALWAYS_TRUE', 'ALWAYS_FALSE']), []
        elif r < 0.2:
            t, ops = rng.choice(['NOT', 'IFF']), [rng.choice(avail)]
        elif r < 0.3:
            t, ops = rng.choice(['AND', 'OR', 'XOR']), [rng.choice(avail) for _ in range(3)]
        else:
            pool = avail if rng.random() < 0.5 else avail[-5:]
            t, ops = rng.choice(HOST_TYPES2), [rng.choice(pool), rng.choice(pool)]
        order.append((l, t, ops))
        avail.append(l)
    users = {}
    for l, t, ops in order:
        for o in ops:
            users.setdefault(o, []).append(l)
    if n_outputs is None:
        n_outputs = rng.randint(0, 3)
    outs = [rng.choice(avail) for _ in range(n_outputs)] if avail else []
    return {'inputs': inputs, 'outputs': outs, 'gates': order, 'users': list(users.items()), 'blocks': []}


def bare_host(n):
    return {'inputs': [str(i) for i in range(n)], 'outputs': [],
            'gates': [(str(i), 'INPUT', []) for i in range(n)], 'users': [], 'blocks': []}


def host_labels(host):
    return [k for k, _, _ in host['gates']]


def pick(rng, host, n, distinct=False):
    ls = host_labels(host)
    if distinct and len(ls) >= n:
        return rng.sample(ls, n)
    return [rng.choice(ls) for _ in range(n)]


def result_names(rng, host, n, k0, mode):
    """caller-chosen labels for the new gates; mode: 'ok' | 'exists' | 'restr' | 'dup'"""
    rl = [f'r{i}' for i in range(n)]
    if n and mode == 'exists':
        rl[rng.randrange(n)] = rng.choice(host_labels(host))
    if n and mode == 'restr':
        rl[rng.randrange(n)] = impl_label(k0 + rng.randint(0, 2))
    if n >= 2 and mode == 'dup':
        rl[-1] = rl[0]
    return rl


def mk_host(rng, kind_bits, on_host, k0, collide_p=0.15):
    """host for a call needing kind_bits operand labels"""
    if not on_host:
        return bare_host(kind_bits)
    collide = [k0 + rng.randint(0, 6)] if rng.random() < collide_p else []
    return make_host(rng, rng.randint(1, 5), rng.randint(0, 8), collide=collide)


def make_call(rng, kind, w, on_host, k0, be=None, variant=None):
    """one case of the given kind at width w"""
    be = rng.random() < 0.5 if be is None else be
    if kind in ('sub', 'subcmp', 'sum2'):
        if variant == 'uneq':
            n, m = w, rng.randint(1, max(1, w + 2))
        else:
            n = m = w
        if kind == 'sub' and variant != 'uneq' and rng.random() < 0.5:
            m = rng.randint(1, n)
        host = mk_host(rng, n + m, on_host, k0)
        if on_host:
            a, b = pick(rng, host, n), pick(rng, host, m)
        else:
            a, b = host['inputs'][:n], host['inputs'][n:]
        return {'host': host, 'k0': k0, 'call': [kind, a, b, be]}
    if kind == 'divmod':
        host = mk_host(rng, 2 * w, on_host, k0)
        if on_host:
            a, b = pick(rng, host, w), pick(rng, host, w + (1 if variant == 'uneq' else 0))
        else:
            a, b = host['inputs'][:w], host['inputs'][w:]
        return {'host': host, 'k0': k0, 'call': [kind, a, b, be]}
    if kind == 'sqrt':
        host = mk_host(rng, w, on_host, k0)
        x = pick(rng, host, w) if on_host else host['inputs']
        return {'host': host, 'k0': k0, 'call': [kind, x, be]}
    if kind == 'equal':
        host = mk_host(rng, w, on_host, k0)
        x = pick(rng, host, w) if on_host else host['inputs']
        num = variant if isinstance(variant, int) else rng.randint(-2, (1 << w) + 2)
        return {'host': host, 'k0': k0, 'call': [kind, x, num]}
    if kind == 'plusone':
        host = mk_host(rng, w, on_host, k0)
        x = pick(rng, host, w) if on_host else host['inputs']
        mode, out_len, ao = variant if variant else ('none', None, rng.random() < 0.5)
        rl = None if mode == 'none' else result_names(rng, host, out_len, k0, mode)
        return {'host': host, 'k0': k0, 'call': [kind, x, rl, ao, be]}
    if kind == 'ite':
        host = mk_host(rng, 3, on_host, k0)
        i, t, e = pick(rng, host, 3) if on_host else host['inputs']
        mode, ao = variant if variant else ('none', rng.random() < 0.5)
        rl = None if mode == 'none' else result_names(rng, host, 1, k0, mode)[0]
        return {'host': host, 'k0': k0, 'call': [kind, i, t, e, rl, ao]}
    if kind == 'pite':
        host = mk_host(rng, 3 * w, on_host, k0)
        mode, rn, ao, skew = variant if variant else ('none', w, rng.random() < 0.5, 0)
        if on_host:
            i, t, e = pick(rng, host, w), pick(rng, host, w), pick(rng, host, w + skew)
        else:
            ins = host['inputs']
            i, t, e = ins[:w], ins[w:2 * w], ins[2 * w:]
        rl = None if mode == 'none' else result_names(rng, host, rn, k0, mode)
        return {'host': host, 'k0': k0, 'call': [kind, i, t, e, rl, ao]}
    if kind == 'pxor':
        host = mk_host(rng, 2 * w, on_host, k0)
        mode, rn, ao, skew = variant if variant else ('none', w, rng.random() < 0.5, 0)
        if on_host:
            x, y = pick(rng, host, w), pick(rng, host, w + skew)
        else:
            ins = host['inputs']
            x, y = ins[:w], ins[w:]
        rl = None if mode == 'none' else result_names(rng, host, rn, k0, mode)
        return {'host': host, 'k0': k0, 'call': [kind, x, y, rl, ao]}
    if kind in ('sub2', 'sub3'):
        k = 2 if kind == 'sub2' else 3
        kk = k if variant is None else variant
        host = mk_host(rng, kk, on_host, k0)
        ls = pick(rng, host, kk) if on_host else host['inputs']
        return {'host': host, 'k0': k0, 'call': [kind, ls, be]}
    if kind == 'gatett':
        host = mk_host(rng, 2, on_host, k0)
        x, y = pick(rng, host, 2) if on_host else host['inputs']
        return {'host': host, 'k0': k0, 'call': [kind, variant, x, y]}
    raise ValueError(kind)


def quick_cases(rng, max_w=12, reps=1, extra_widths=(), heavy_cap=None):
    """the systematic part: every kind x every width x bare/host x both endiannesses and every
    add_outputs / result_labels option.  Widths 1..max_w plus extra_widths; the quadratic-size
    generators (div_mod, sqrt) are run on host circuits only up to heavy_cap"""
    cases = []
    heavy_cap = max_w if heavy_cap is None else heavy_cap
    widths = list(range(1, max_w + 1)) + [w for w in extra_widths if w > max_w]

    def k0():
        return rng.choice([1, 1, 2, 5, 16, 255])

    for t in range(16):
        tt = format(t, '04b')
        for on_host in (False, True):
            cases.append(make_call(rng, 'gatett', 2, on_host, k0(), variant=tt))
    for kind in ('sub2', 'sub3'):
        for on_host in (False, True):
            for be in (False, True):
                cases.append(make_call(rng, kind, 0, on_host, k0(), be=be))
        cases.append(make_call(rng, kind, 0, True, k0(), variant=1))
        cases.append(make_call(rng, kind, 0, True, k0(), variant=4))
    for _ in range(reps):
        for w in widths:
            for on_host in (False, True):
                for be in (False, True):
                    for kind in ('sub', 'subcmp', 'sum2', 'divmod', 'sqrt'):
                        if kind in ('divmod', 'sqrt') and w > heavy_cap and (on_host or be):
                            continue
                        cases.append(make_call(rng, kind, w, on_host, k0(), be=be))
                    for kind in ('sub', 'subcmp', 'sum2'):
                        cases.append(make_call(rng, kind, w, on_host, k0(), be=be, variant='uneq'))
                    for ao in (False, True):
                        cases.append(make_call(rng, 'plusone', w, on_host, k0(), be=be, variant=('none', None, ao)))
                        out_len = rng.choice([1, w, w + 1, w + 2, rng.randint(1, w + 4)])
                        cases.append(make_call(rng, 'plusone', w, on_host, k0(), be=be,
                                               variant=('ok', out_len, ao)))
                for ao in (False, True):
                    for mode in ('none', 'ok'):
                        cases.append(make_call(rng, 'pite', w, on_host, k0(), variant=(mode, w, ao, 0)))
                        cases.append(make_call(rng, 'pxor', w, on_host, k0(), variant=(mode, w, ao, 0)))
                nums = {0, 1, (1 << w) - 1, 1 << w, -1, -3, rng.randint(0, (1 << w) - 1), rng.randint(-4, (1 << w) + 4)}
                for num in sorted(nums):
                    cases.append(make_call(rng, 'equal', w, on_host, k0(), variant=num))
        for on_host in (False, True):
            for ao in (False, True):
                for mode in ('none', 'ok'):
                    cases.append(make_call(rng, 'ite', 1, on_host, k0(), variant=(mode, ao)))
    # the same operand twice (x op x): the harness hands over ONE list object for both operands
    for w in (1, 2, 3, 4):
        for kind in ('sub', 'subcmp', 'sum2', 'divmod'):
            for be in (False, True):
                c0 = make_call(rng, kind, w, False, k0())
                a = list(c0['call'][1])[:w]
                c0['call'] = [kind, a, list(a), be]
                cases.append(c0)
    # error paths and label clashes (host circuits only)
    for _ in range(reps):
        for w in (1, 2, 3, 5):
            cases.append(make_call(rng, 'divmod', w, True, k0(), variant='uneq'))
            for mode in ('exists', 'restr', 'dup'):
                cases.append(make_call(rng, 'plusone', w, True, k0(), variant=(mode, w + 1, True)))
                cases.append(make_call(rng, 'pite', w, True, k0(), variant=(mode, w, True, 0)))
                cases.append(make_call(rng, 'pxor', w, True, k0(), variant=(mode, w, False, 0)))
            cases.append(make_call(rng, 'pite', w, True, k0(), variant=('ok', w + 1, True, 0)))
            cases.append(make_call(rng, 'pite', w, True, k0(), variant=('none', w, True, 1)))
            cases.append(make_call(rng, 'pxor', w, True, k0(), variant=('ok', w - 1, True, 0)))
            cases.append(make_call(rng, 'pxor', w, True, k0(), variant=('none', w, True, 1)))
        for mode in ('exists', 'restr'):
            cases.append(make_call(rng, 'ite', 1, True, k0(), variant=(mode, True)))
        # empty operands
        h = make_host(rng, 2, 3)
        for call in (['sub', [], ['x0'], False], ['sub', ['x0'], [], True], ['subcmp', [], ['x0'], False],
                     ['subcmp', ['x1'], [], False], ['sum2', [], [], False], ['sum2', ['x0'], [], False],
                     ['divmod', [], [], False], ['sqrt', [], True], ['equal', [], 0], ['equal', [], 1],
                     ['plusone', [], None, True, False], ['plusone', ['x0'], [], True, False],
                     ['pxor', [], [], None, True], ['pite', [], [], [], None, False],
                     ['sub', ['x0', 'nope'], ['x1'], False], ['equal', ['nope'], 0],
                     ['plusone', ['x0', 'nope'], None, False, False]):
            cases.append({'host': h, 'k0': k0(), 'call': call})
    return cases


def gen_cases(rng, max_w=8):
    cases = []
    for w in range(1, max_w + 1):
        for be in (False, True):
            cases.append({'gen': ['gsub', w, rng.randint(1, w), be], 'k0': 1})
            cases.append({'gen': ['gdivmod', w, be], 'k0': 1})
            cases.append({'gen': ['gsqrt', w, be], 'k0': 1})
            cases.append({'gen': ['gplusone', w, rng.randint(1, w + 3), be], 'k0': 1})
        cases.append({'gen': ['gequal', w, rng.randint(-2, (1 << w) + 1)], 'k0': 1})
        cases.append({'gen': ['gpite', w], 'k0': 1})
        cases.append({'gen': ['gpxor', w], 'k0': 1})
    cases.append({'gen': ['gite'], 'k0': 1})
    cases.append({'gen': ['gsub', 0, 0, False], 'k0': 1})
    cases.append({'gen': ['gsqrt', 0, False], 'k0': 1})
    return cases


# ------------------------------------------------------------------ the direct oracle
def dec(bits, be=False):
    bits = list(bits)
    if be:
        bits = bits[::-1]
    return sum(1 << i for i, b in enumerate(bits) if b)


def isqrt(a):
    import math
    return math.isqrt(a)


def assignments(rng, inputs, limit_bits=14, samples=400):
    n = len(inputs)
    if n <= limit_bits:
        for vec in itertools.product([False, True], repeat=n):
            yield dict(zip(inputs, vec))
    else:
        for _ in range(samples):
            yield {i: rng.random() < 0.5 for i in inputs}
        yield {i: False for i in inputs}
        yield {i: True for i in inputs}


def targeted_assignments(call, inputs, limit_bits):
    """for operands too wide for exhaustive evaluation: the near misses that random sampling never hits.
    equal: the operand equal to the constant and every single-bit neighbour of it"""
    if call[0] != 'equal' or len(inputs) <= limit_bits:
        return
    ops = call[1]
    if any(o not in inputs for o in ops) or len(set(ops)) != len(ops):
        return
    num = call[2]
    if not (0 <= num < (1 << len(ops))):
        num = num % (1 << len(ops))
    base = {i: False for i in inputs}
    for j, o in enumerate(ops):                 # little-endian: operand j has weight 2^j (see dec())
        base[o] = bool((num >> j) & 1)
    yield dict(base)
    for o in ops:
        a = dict(base)
        a[o] = not a[o]
        yield a


def spec(call, val):
    """the property text for one call under one evaluation `val` (label -> bool of the circuit
    AFTER the call); returns None or a failure message.  `val` is also used for the operands:
    the frame check guarantees they did not change."""
    k = call[0]
    res = call[-1]                     # normalised result lists appended by the caller
    V = lambda ls: [val[l] for l in ls]
    if k == 'gatett':
        exp = call[1][2 * int(val[call[2]]) + int(val[call[3]])] == '1'
        got = val[res[0][0]]
        return None if got == exp else f'add_gate_from_tt({call[1]}) = {got}, table says {exp}'
    if k == 'sub2':
        ls = call[1][::-1] if call[2] else call[1]
        a, b = V(ls)
        got = V(res[0])
        exp = [a != b, (not a) and b]
        return None if got == exp else f'add_sub2 = {got}, expected {exp}'
    if k == 'sub3':
        ls = call[1][::-1] if call[2] else call[1]
        a, b, c = map(int, V(ls))
        got = V(res[0])
        d = a - b - c
        exp = [bool(d % 2), d < 0]
        return None if got == exp else f'add_sub3 = {got}, expected {exp}'
    if k == 'sub':
        be = call[3]
        A, Bv = dec(V(call[1]), be), dec(V(call[2]), be)
        n = len(call[1])
        if len(res[0]) != n:
            return f'add_sub_two_numbers returned {len(res[0])} bits for len(a) = {n}'
        got = dec(V(res[0]), be)
        return None if got == (A - Bv) % (1 << n) else f'sub: {A} - {Bv} mod 2^{n} gave {got} (big_endian={be})'
    if k == 'subcmp':
        be = call[3]
        A, Bv = dec(V(call[1]), be), dec(V(call[2]), be)
        n = max(len(call[1]), len(call[2]))
        if len(res[0]) != n:
            return f'add_subtract_with_compare returned {len(res[0])} bits for widths {len(call[1])}, {len(call[2])}'
        got, bor = dec(V(res[0]), be), val[res[1][0]]
        if got != (A - Bv) % (1 << n) or bor != (A < Bv):
            return f'subtract_with_compare: {A} - {Bv} gave {got}, borrow {bor} (big_endian={be})'
        return None
    if k == 'sum2':
        be = call[3]
        A, Bv = dec(V(call[1]), be), dec(V(call[2]), be)
        got = dec(V(res[0]), be)
        if len(res[0]) != max(len(call[1]), len(call[2])) + 1:
            return 'add_sum_two_numbers: wrong number of result bits'
        return None if got == A + Bv else f'sum: {A} + {Bv} gave {got} (big_endian={be})'
    if k == 'divmod':
        be = call[3]
        A, Bv = dec(V(call[1]), be), dec(V(call[2]), be)
        n = len(call[1])
        if len(res[0]) != n or len(res[1]) != n:
            return 'add_div_mod: wrong number of result bits'
        q, r = dec(V(res[0]), be), dec(V(res[1]), be)
        exp = (A // Bv, A % Bv) if Bv else (0, 0)
        return None if (q, r) == exp else f'div_mod: {A} / {Bv} gave {(q, r)}, expected {exp} (big_endian={be})'
    if k == 'sqrt':
        be = call[2]
        A = dec(V(call[1]), be)
        n = len(call[1])
        if len(res[0]) != (n + 1) // 2:
            return f'add_sqrt returned {len(res[0])} bits for n = {n}'
        got = dec(V(res[0]), be)
        return None if got == isqrt(A) else f'sqrt({A}) gave {got} (big_endian={be})'
    if k == 'equal':
        X = dec(V(call[1]))
        got = val[res[0][0]]
        exp = (X == call[2])
        return None if got == exp else f'equal: operand {X} vs constant {call[2]} on {len(call[1])} bits gave {got}'
    if k == 'plusone':
        be = call[4]
        X = dec(V(call[1]), be)
        m = len(res[0])
        if call[2] is None and m != len(call[1]) + 1:
            return 'add_plus_one: default result must have len(inputs) + 1 bits'
        got = dec(V(res[0]), be)
        return None if got == (X + 1) % (1 << m) else f'plus_one: {X} + 1 mod 2^{m} gave {got} (big_endian={be})'
    if k == 'ite':
        got = val[res[0][0]]
        exp = val[call[2]] if val[call[1]] else val[call[3]]
        return None if got == exp else 'if_then_else: wrong value'
    if k == 'pite':
        got = V(res[0])
        exp = [val[t] if val[i] else val[e] for i, t, e in zip(call[1], call[2], call[3])]
        return None if got == exp and len(got) == len(call[1]) else 'pairwise_if_then_else: wrong value'
    if k == 'pxor':
        got = V(res[0])
        exp = [val[x] != val[y] for x, y in zip(call[1], call[2])]
        return None if got == exp and len(got) == len(call[1]) else 'pairwise_xor: wrong value'
    raise ValueError(k)


WANTS_OUTPUTS = {'plusone': 3, 'ite': 5, 'pite': 5, 'pxor': 4}


def structural(case, before, after, lists):
    """only fresh gates, old gates untouched, inputs unchanged, outputs marked only when asked
    (appended in the order of the returned labels)"""
    call = case['call']
    old = {k: (t, tuple(ops)) for k, t, ops in before['gates']}
    new = {k: (t, tuple(ops)) for k, t, ops in after['gates']}
    for k, g in old.items():
        if new.get(k) != g:
            return f'pre-existing gate {k} was changed: {g} -> {new.get(k)}'
    if [k for k, _, _ in after['gates']][:len(old)] != [k for k, _, _ in before['gates']]:
        return 'pre-existing gates were reordered'
    for k, (t, ops) in new.items():
        if k not in old and t == 'INPUT':
            return f'a new INPUT gate {k} was created'
    if after['inputs'] != before['inputs']:
        return f'inputs changed: {before["inputs"]} -> {after["inputs"]}'
    ao = call[0] in WANTS_OUTPUTS and call[WANTS_OUTPUTS[call[0]]]
    exp_out = before['outputs'] + (list(lists[0]) if ao else [])
    if after['outputs'] != exp_out:
        return (f'outputs: {after["outputs"]}, expected {exp_out} '
                f'({"add_outputs=True" if ao else "no outputs requested"})')
    if after['blocks'] != before['blocks']:
        return 'blocks changed'
    return None


def oracle(case, rng=None, limit_bits=14):
    """THE PROPERTY on the implementation for one case (None = holds / not applicable)"""
    import random
    rng = rng or random.Random(0)
    if 'gen' in case:
        return oracle_gen(case, rng, limit_bits)
    before = case['host']
    c0 = ct.build_circuit(before)
    (kind, payload), c = run_impl(case)
    call = case['call']
    if kind == 'err':
        return expected_error(case, payload)
    lists, after, _ = payload
    msg = structural(case, before, after, lists)
    if msg:
        return msg
    if not well_formed_call(case):
        return None                   # e.g. zero-width operands: nothing is promised about values
    inputs = list(before['inputs'])
    old_labels = [k for k, _, _ in before['gates']]
    fullcall = list(call) + [lists]
    for asg in itertools.chain(targeted_assignments(call, inputs, limit_bits), assignments(rng, inputs, limit_bits)):
        v0 = c0.evaluate_full_circuit(dict(asg))
        v1 = c.evaluate_full_circuit(dict(asg))
        for l in old_labels:
            if v0[l] is not v1[l]:
                return f'frame: pre-existing gate {l} changed its value at {asg}'
        for ls in lists:
            for l in ls:
                if type(v1.get(l)) is not bool:
                    return f'result gate {l} has no Boolean value'
        msg = spec(fullcall, v1)
        if msg:
            return msg + f' at {asg}'
    return None


def well_formed_call(case):
    """operands exist, widths >= 1, shapes as documented, caller-chosen labels fresh and distinct"""
    call = case['call']
    k = call[0]
    labels = set(host_labels(case['host']))
    ops = []
    for x in call[1:]:
        if isinstance(x, list) and x and all(isinstance(y, str) for y in x):
            ops.append(x)
    if k == 'gatett':
        return call[2] in labels and call[3] in labels
    if k == 'ite':
        return all(x in labels for x in call[1:4]) and (
            call[4] is None or (call[4] not in labels and not NEW_RE.match(call[4])))
    res_idx = {'plusone': 2, 'pite': 4, 'pxor': 3}.get(k)
    operand_lists = [x for i, x in enumerate(call[1:], 1) if isinstance(x, list) and i != res_idx]
    if any(len(x) == 0 for x in operand_lists):
        return False
    if any(l not in labels for x in operand_lists for l in x):
        return False
    if k == 'sub2':
        return len(call[1]) == 2
    if k == 'sub3':
        return len(call[1]) == 3
    if k == 'divmod' and len(call[1]) != len(call[2]):
        return False
    if k in ('pite', 'pxor') and len({len(x) for x in operand_lists}) != 1:
        return False
    if res_idx is not None and call[res_idx] is not None:
        rl = call[res_idx]
        if len(set(rl)) != len(rl) or any(l in labels for l in rl):
            return False
        if any(NEW_RE.match(l) for l in rl):
            # a caller-chosen label of the uuid shape may clash with a label generated later
            # (outside the property: uuid4 is assumed not to collide with chosen labels)
            return False
        if k in ('pite', 'pxor') and len(rl) != len(call[1]):
            return False
        if k == 'plusone' and len(rl) == 0:
            return False
    return True


def expected_error(case, name):
    """"every add_* form works on arbitrary existing gates": a well-formed call must not raise"""
    if well_formed_call(case):
        return f'{case["call"][0]} raised {name} on a well-formed call'
    return None


def oracle_gen(case, rng, limit_bits=14):
    (kind, dump), c = run_gen(case)
    gen = case['gen']
    k = gen[0]
    if kind == 'err':
        sizes = [x for x in gen[1:] if isinstance(x, int) and not isinstance(x, bool)]
        if k == 'gequal':
            sizes = sizes[:1]
        return f'{k} raised {dump}' if all(s >= 1 for s in sizes) else None
    ins = list(dump['inputs'])
    outs = list(dump['outputs'])
    ls = gen_labels(gen)
    exp_ins = list(ls) if k in ('gsub', 'gdivmod', 'gsqrt', 'gequal') else \
        (list(ls[0]) if k == 'gplusone' else (list(ls[:3]) if k == 'gite' else [x for part in ls[:-1] for x in part]))
    if ins != exp_ins:
        return f'{k}: inputs {ins}, expected {exp_ins}'
    if k in ('gplusone', 'gpite', 'gpxor') and outs != list(ls[-1]):
        return f'{k}: outputs {outs}, expected {ls[-1]}'
    if k == 'gite' and outs != [ls[-1]]:
        return f'{k}: outputs {outs}'
    for asg in assignments(rng, ins, limit_bits):
        vec = [asg[i] for i in ins]
        o = c.evaluate(vec)
        if any(type(x) is not bool for x in o):
            return f'{k}: non-Boolean output'
        if k == 'gsub':
            na, be = gen[1], gen[3]
            A, Bv = dec(vec[:na], be), dec(vec[na:], be)
            if len(o) != na or dec(o, be) != (A - Bv) % (1 << na):
                return f'{k}: {A} - {Bv} gave {dec(o, be)}'
        elif k == 'gdivmod':
            n, be = gen[1], gen[2]
            A, Bv = dec(vec[:n], be), dec(vec[n:], be)
            exp = (A // Bv, A % Bv) if Bv else (0, 0)
            if len(o) != 2 * n or (dec(o[:n], be), dec(o[n:], be)) != exp:
                return f'{k}: {A} / {Bv} gave {(dec(o[:n], be), dec(o[n:], be))}'
        elif k == 'gsqrt':
            n, be = gen[1], gen[2]
            A = dec(vec, be)
            if len(o) != (n + 1) // 2 or dec(o, be) != isqrt(A):
                return f'{k}: sqrt({A}) gave {dec(o, be)}'
        elif k == 'gequal':
            if o != [dec(vec) == gen[2]]:
                return f'{k}: operand {dec(vec)} constant {gen[2]} gave {o}'
        elif k == 'gplusone':
            be = gen[3]
            if dec(o, be) != (dec(vec, be) + 1) % (1 << gen[2]) or len(o) != gen[2]:
                return f'{k}: {dec(vec, be)} + 1 gave {dec(o, be)}'
        elif k == 'gite':
            if o != [vec[1] if vec[0] else vec[2]]:
                return f'{k}: wrong value'
        elif k == 'gpite':
            n = gen[1]
            if o != [vec[n + i] if vec[i] else vec[2 * n + i] for i in range(n)]:
                return f'{k}: wrong value'
        elif k == 'gpxor':
            n = gen[1]
            if o != [vec[i] != vec[n + i] for i in range(n)]:
                return f'{k}: wrong value'
    return None
