"""Printing implementation states and cases as Coq terms."""

GTYPES = ['INPUT', 'ALWAYS_TRUE', 'ALWAYS_FALSE', 'AND', 'GEQ', 'GT', 'IFF', 'LEQ', 'LIFF', 'LNOT',
          'LT', 'NAND', 'NOR', 'NOT', 'NXOR', 'OR', 'RIFF', 'RNOT', 'XOR']

ERRS = {'CircuitValidationError', 'CircuitGateIsAbsentError', 'CircuitGateAlreadyExistsError',
        'CircuitIsCyclicalError', 'GateTypeNoOperatorError', 'GateStateError', 'GateHasUsersError',
        'GateNotInputError', 'GateDoesntExistError', 'TraverseMethodError', 'CreateBlockError',
        'DeleteBlockError', 'OverlappingBlocksError', 'ReplaceSubcircuitError',
        'MiterDifferentShapesError', 'CircuitEncodingError', 'BitIOError', 'BinaryDictIOError',
        'BadDefinitionError', 'TruthTableBadShapeError', 'BenchParseError', 'NoSolutionError',
        'GenerationError'}
PYERRS = {'TypeError': 'PyTypeError', 'KeyError': 'PyKeyError', 'IndexError': 'PyIndexError',
          'ValueError': 'PyValueError', 'AssertionError': 'PyAssertionError',
          'StopIteration': 'PyStopIteration'}


def err_name(exc) -> str:
    n = type(exc).__name__
    if n in ERRS:
        return n
    if n in PYERRS:
        return PYERRS[n]
    # subclasses of the python built-ins
    for base, name in PYERRS.items():
        if any(b.__name__ == base for b in type(exc).__mro__):
            return name
    return 'UNMODELLED_' + n


def s(x: str) -> str:
    assert all(32 <= ord(ch) < 127 for ch in x), repr(x)
    return '"' + x.replace('"', '""') + '"'


def lst(items) -> str:
    return '[' + '; '.join(items) + ']'


def labels(ls) -> str:
    return lst(s(x) for x in ls)


def opt(x, f) -> str:
    return 'None' if x is None else f'(Some {f(x)})'


def boolean(b) -> str:
    return 'true' if b else 'false'


def state(v) -> str:
    if v is True:
        return 'T'
    if v is False:
        return 'F'
    return 'U'


def dump_circuit(c) -> dict:
    """full observable + internal state of a cirbo Circuit"""
    gates = []
    for k, g in c._gates.items():
        if g.label != k:
            raise AssertionError(f'gate stored under {k!r} carries label {g.label!r}')
        gates.append((k, g.gate_type.name, list(g.operands)))
    return {
        'inputs': list(c._inputs),
        'outputs': list(c._outputs),
        'gates': gates,
        'users': [(k, list(v)) for k, v in c._gate_to_users.items()],
        'blocks': [(k, list(b.inputs), list(b.gates), list(b.outputs)) for k, b in c._blocks.items()],
    }


def circuit(d: dict) -> str:
    gates = lst(f'({s(k)}, mkGate {t} {labels(ops)})' for k, t, ops in d['gates'])
    users = lst(f'({s(k)}, {labels(v)})' for k, v in d['users'])
    blocks = lst(f'({s(k)}, mkBlock {labels(i)} {labels(g)} {labels(o)})' for k, i, g, o in d['blocks'])
    return f'(mkCircuit {labels(d["inputs"])} {labels(d["outputs"])} {gates} {users} {blocks})'


def res(r, okf) -> str:
    kind, val = r
    if kind == 'ok':
        return f'(Ok {okf(val)})'
    return f'(Err {val})' if not val.startswith('UNMODELLED_') else '(Err UnmodelledPythonException)'


DETACH_TYPES = True


def build_circuit(d: dict):
    """rebuild a cirbo Circuit having exactly the dumped internal state"""
    import copy
    import zlib
    from cirbo.core.circuit import Circuit, gate
    from cirbo.core.circuit.circuit import Block
    c = Circuit()
    # For a deterministic third of the circuits the GateType objects are EQUAL to but NOT IDENTICAL with the
    # module constants (gate.AND, ...): what copy.deepcopy (used by minimize_subcircuits for its result) and a
    # pickle round trip (results coming back from the pebble process pool) produce.  The public API cannot tell
    # such a circuit from the original, so every property must hold for it as well; code that compares gate
    # types with `is` breaks exactly there.
    detach = DETACH_TYPES and zlib.crc32(repr([(k, t, list(ops)) for k, t, ops in d['gates']]).encode()) % 3 == 0
    types = {}

    def gtype(t):
        if not detach:
            return getattr(gate, t)
        if t not in types:
            types[t] = copy.deepcopy(getattr(gate, t))
            assert types[t] is not getattr(gate, t) and types[t] == getattr(gate, t)
        return types[t]
    for k, t, ops in d['gates']:
        c._gates[k] = gate.Gate(k, gtype(t), tuple(ops))
    c._inputs = list(d['inputs'])
    c._outputs = list(d['outputs'])
    c._gate_to_users = {k: list(v) for k, v in d['users']}
    for k, i, g, o in d['blocks']:
        c._blocks[k] = Block(k, c, list(i), list(g), list(o))
    return c
