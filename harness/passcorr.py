"""Correspondence and oracles for the simplification passes and pipelines (C03, C18)."""
import itertools
import json

from . import coqterm as ct
from . import evalcorr, gen, semoracle, wforacle

HEADER = ('Require Import Cirbo.Model.Base Cirbo.Model.Gate Cirbo.Model.Circuit Cirbo.Model.History '
          'Cirbo.Model.Passes.')
CASE_TYPE = 'pass_case'


def build(t):
    from cirbo.core.circuit.transformer import TransformerComposition
    from cirbo.minimization.simplification import (MergeDuplicateGates, MergeEquivalentGates, MergeUnaryOperators,
                                                   RemoveRedundantGates)
    k = t[0]
    if k == 'RR':
        return RemoveRedundantGates(allow_inputs_removal=t[1])
    if k == 'MU':
        return MergeUnaryOperators()
    if k == 'MD':
        return MergeDuplicateGates()
    if k == 'ME':
        return MergeEquivalentGates()
    if k == 'COMP':
        return TransformerComposition([build(x) for x in t[1]])
    if k == 'PIPE':
        return build(t[1]) | build(t[2])
    raise ValueError(k)


def term(t):
    k = t[0]
    if k == 'RR':
        return f'(TRR {ct.boolean(t[1])})'
    if k in ('MU', 'MD', 'ME'):
        return 'T' + k
    if k == 'COMP':
        return f'(TComp {ct.lst(term(x) for x in t[1])})'
    if k == 'PIPE':
        return f'(pipe {term(t[1])} {term(t[2])})'
    raise ValueError(k)


def random_transformer(rng, depth=0, heavy=True):
    leaves = [['RR', False], ['RR', False], ['RR', True], ['MU'], ['MD']] + ([['ME']] if heavy else [])
    r = rng.random()
    if depth >= 2 or r < 0.55:
        return rng.choice(leaves)
    if r < 0.8:
        return ['PIPE', random_transformer(rng, depth + 1, heavy), random_transformer(rng, depth + 1, heavy)]
    return ['COMP', [random_transformer(rng, depth + 1, heavy) for _ in range(rng.randint(0, 3))]]


def run_impl(dump, ts, leaf_only):
    from cirbo.core.circuit.transformer import Transformer
    c = ct.build_circuit(dump)
    before = ct.dump_circuit(c)
    try:
        if leaf_only:
            out = build(ts[0])._transform(c)
        else:
            out = Transformer.apply_transformers(c, [build(t) for t in ts])
    except RecursionError:
        raise
    except Exception as e:  # noqa: BLE001
        return ('err', ct.err_name(e)), ct.dump_circuit(c) == before
    return ('ok', ct.dump_circuit(out)), ct.dump_circuit(c) == before


def unary_chain_circuit(rng, kind):
    """a circuit whose unary gates are all NOT (kind='NOT') or all IFF (kind='IFF'), with chains of
    2-9 consecutive unary gates whose members are also operands of other gates and outputs"""
    used, order, avail = set(), [], []
    for _ in range(rng.randint(1, 3)):
        l = gen.fresh_label(rng, used)
        used.add(l)
        order.append((l, 'INPUT', []))
        avail.append(l)
    taps = []
    for _ in range(rng.randint(1, 3)):
        base = rng.choice(avail)
        cur = base
        for _ in range(rng.randint(2, 9)):
            l = gen.fresh_label(rng, used)
            used.add(l)
            order.append((l, kind, [cur]))
            cur = l
            avail.append(l)
            taps.append(l)
        for _ in range(rng.randint(0, 2)):
            l = gen.fresh_label(rng, used)
            used.add(l)
            t = rng.choice(['AND', 'OR', 'XOR', 'NAND'])
            order.append((l, t, [rng.choice(avail), rng.choice(taps)]))
            avail.append(l)
    users = {}
    for l, t, ops in order:
        for o in ops:
            users.setdefault(o, []).append(l)
    outs = [rng.choice(taps) for _ in range(rng.randint(1, 3))] + [rng.choice(avail)]
    return {'inputs': [l for l, t, _ in order if t == 'INPUT'], 'outputs': outs, 'gates': order,
            'users': list(users.items()), 'blocks': []}


def near_duplicate_circuit(rng):
    """gates that are duplicates or NEAR-duplicates of each other: same type with permuted operands, with one
    operand repeated (n-ary XOR(a,a,b) next to XOR(a,b)), with one operand swapped, same operands with
    another type, asymmetric gates with mirrored operands; every variant is also an output, so a wrong
    merge is visible in the truth table"""
    used, order, avail = set(), [], []
    for _ in range(rng.randint(2, 4)):
        l = gen.fresh_label(rng, used)
        used.add(l)
        order.append((l, 'INPUT', []))
        avail.append(l)
    sym = ['AND', 'OR', 'XOR', 'NXOR', 'NAND', 'NOR']
    asym = ['GT', 'LT', 'GEQ', 'LEQ', 'LIFF', 'RIFF', 'LNOT', 'RNOT']
    outs = []

    def add(t, ops):
        l = gen.fresh_label(rng, used)
        used.add(l)
        order.append((l, t, list(ops)))
        avail.append(l)
        outs.append(l)
        return l

    for _ in range(rng.randint(1, 4)):
        if rng.random() < 0.7:
            t = rng.choice(sym)
            ops = [rng.choice(avail) for _ in range(rng.randint(2, 4))]
        else:
            t = rng.choice(asym)
            ops = [rng.choice(avail), rng.choice(avail)]
        add(t, ops)
        for _ in range(rng.randint(1, 4)):
            v = rng.randrange(6)
            o2, t2 = list(ops), t
            if v == 0:
                rng.shuffle(o2)
            elif v == 1 and t in sym:
                o2.insert(rng.randrange(len(o2) + 1), rng.choice(o2))
            elif v == 2:
                o2[rng.randrange(len(o2))] = rng.choice(avail)
            elif v == 3:
                t2 = rng.choice(sym if (t in sym or len(o2) != 2) else sym + asym)
            elif v == 4 and t in sym:
                o2 = sorted(set(o2)) if len(set(o2)) >= 2 else o2
            else:
                o2 = o2[::-1]
            add(t2, o2)
    users = {}
    for l, t, ops in order:
        for o in ops:
            users.setdefault(o, []).append(l)
    rng.shuffle(outs)
    return {'inputs': [l for l, t, _ in order if t == 'INPUT'], 'outputs': outs[:rng.randint(2, max(2, len(outs)))],
            'gates': order, 'users': list(users.items()), 'blocks': []}


LEAVES = [['RR', False], ['RR', True], ['MU'], ['MD'], ['ME']]


def sibling_variant(rng, dump):
    """same labels and wiring, other gate types (arity class kept): what a transformer object may have
    seen in an earlier call"""
    classes = [['NOT', 'IFF'], ['AND', 'OR', 'XOR', 'NAND', 'NOR', 'NXOR'],
               ['GEQ', 'GT', 'LEQ', 'LT', 'LIFF', 'LNOT', 'RIFF', 'RNOT', 'AND', 'OR', 'XOR']]
    gates = []
    for k, t, ops in dump['gates']:
        if t != 'INPUT' and rng.random() < 0.5:
            for cl in classes:
                if t in cl and (len(ops) == 2 or cl is not classes[2]):
                    t = rng.choice(cl)
                    break
        gates.append((k, t, list(ops)))
    d = dict(dump)
    d['gates'] = gates
    return d


def make_case(rng, dump, n_pipelines=3):
    heavy = len(dump['inputs']) <= 5
    runs = []
    for leaf in LEAVES:
        if leaf == ['ME'] and not heavy:
            continue
        res, untouched = run_impl(dump, [leaf], True)
        runs.append({'ts': [leaf], 'leaf_only': True, 'result': res, 'untouched': untouched})
    for _ in range(n_pipelines):
        ts = [random_transformer(rng, heavy=heavy) for _ in range(rng.randint(0, 3))]
        res, untouched = run_impl(dump, ts, False)
        runs.append({'ts': ts, 'leaf_only': False, 'result': res, 'untouched': untouched})
    return {'circuit': dump, 'runs': runs}


def case_term(case):
    runs = ct.lst(f'({ct.lst(term(t) for t in r["ts"])}, {ct.boolean(r["leaf_only"])}, '
                  f'{ct.res(r["result"], ct.circuit)})' for r in case['runs'])
    return f'({ct.circuit(case["circuit"])}, {runs})'


# ------------------------------------------------------------------ oracles
def tt(dump):
    return semoracle.truth_table_of(dump)


def reachable_from_outputs(dump):
    g = semoracle.gates_of(dump)
    seen, todo = set(), list(dump['outputs'])
    while todo:
        l = todo.pop()
        if l in seen:
            continue
        seen.add(l)
        todo += g[l][1]
    return seen


def apply(dump, ts):
    from cirbo.core.circuit.transformer import Transformer
    c = ct.build_circuit(dump)
    out = Transformer.apply_transformers(c, [build(t) for t in ts])
    return c, out


def oracle_c03(case):
    """function, interface and argument preserved; never more gates"""
    dump, ts = case['circuit'], case['ts']
    if not semoracle.evaluable(dump):
        return None
    c = ct.build_circuit(dump)
    if wforacle.wf_violation(c):
        return None
    before = ct.dump_circuit(c)
    from cirbo.core.circuit.transformer import Transformer
    try:
        if case.get('cleanup') is not None:
            from cirbo.minimization.simplification import cleanup
            out = cleanup(c, use_heavy=case['cleanup'])
        else:
            out = Transformer.apply_transformers(c, [build(t) for t in ts])
    except Exception as e:  # noqa: BLE001
        return f'pipeline raises {type(e).__name__}: {e}'
    if out is c:
        if ts and linear_len(ts):
            return 'the argument itself was returned'
    if ct.dump_circuit(c) != before:
        return 'the argument circuit was modified'
    msg = wforacle.wf_violation(out)
    if msg:
        return 'result not well formed: ' + msg
    # a transformer object carries no state from one call to the next: the same objects applied first to
    # a sibling circuit (same labels, other gate types) and then to this one give the result of fresh objects
    if case.get('first') is not None and ts:
        objs = [build(t) for t in ts]
        try:
            Transformer.apply_transformers(ct.build_circuit(case['first']), objs)
        except Exception:  # noqa: BLE001
            pass
        try:
            again = Transformer.apply_transformers(ct.build_circuit(dump), objs)
            if ct.dump_circuit(again) != ct.dump_circuit(out):
                return 'a transformer object that was used on another circuit before gives a different result than a fresh one'
        except Exception as e:  # noqa: BLE001
            return f'a transformer object that was used on another circuit before raises {type(e).__name__}: {e}'
    removes_inputs = any(t == ['RR', True] for t in flatten(ts))
    od = ct.dump_circuit(out)
    if removes_inputs:
        reach = None
        exp_inputs = [i for i in dump['inputs'] if i in od['inputs']]
        if od['inputs'] != exp_inputs:
            return f'inputs {od["inputs"]} are not a subsequence of {dump["inputs"]}'
        leaves = list(flatten(ts))
        if leaves and leaves[-1] == ['RR', True]:
            # removal was requested by the LAST pass: exactly the inputs reachable from the outputs remain
            live = set(reachable_from_outputs(od))
            dead = [i for i in od['inputs'] if i not in live]
            if dead:
                return (f'input removal was requested by the last pass of {ts} but the unreachable inputs {dead} '
                        f'are still there')
    elif od['inputs'] != dump['inputs']:
        return f'inputs changed: {od["inputs"]} vs {dump["inputs"]}'
    if len(od['outputs']) != len(dump['outputs']):
        return 'number of outputs changed'
    if len(od['gates']) > len(dump['gates']):
        return f'result has more gates ({len(od["gates"])}) than the argument ({len(dump["gates"])})'
    # truth table over the ORIGINAL inputs (removed inputs must be irrelevant)
    for a in semoracle.all_assignments(dump['inputs']):
        ref = evalcorr.ref_eval(dump, a)
        got = out.evaluate([a[i] for i in od['inputs']])
        if got != [ref[o] for o in dump['outputs']]:
            return f'function changed at {a}: {got}'
    return None


def flatten(ts):
    for t in ts:
        if t[0] == 'COMP':
            yield from flatten(t[1])
        elif t[0] == 'PIPE':
            yield from flatten([t[1], t[2]])
        else:
            yield t


def linear_len(ts):
    return sum(1 for _ in flatten(ts))


def canonical_sig(t, ops, symmetric):
    return (t,) + tuple(sorted(ops) if symmetric else ops)


SYM = {'INPUT', 'ALWAYS_TRUE', 'ALWAYS_FALSE', 'AND', 'IFF', 'NAND', 'NOR', 'NOT', 'NXOR', 'OR', 'XOR'}


def oracle_c18(case):
    """stated effects of each pass + pipelines equal sequencing"""
    dump = case['circuit']
    if not semoracle.evaluable(dump):
        return None
    c = ct.build_circuit(dump)
    if wforacle.wf_violation(c):
        return None
    g = semoracle.gates_of(dump)
    from cirbo.core.circuit.transformer import Transformer
    from cirbo.minimization.simplification import cleanup
    # RR: exactly the reachable gates (+ all inputs unless removal requested); idempotent
    for allow in (False, True):
        _, out = apply(dump, [['RR', allow]])
        reach = reachable_from_outputs(dump)
        exp = set(reach) | (set() if allow else set(dump['inputs']))
        if set(out._gates) != exp:
            return f'RR(allow_inputs_removal={allow}) keeps {sorted(out._gates)}, reachable are {sorted(exp)}'
        for l in out._gates:
            if (out._gates[l].gate_type.name, list(out._gates[l].operands)) != (g[l][0], g[l][1]):
                return f'RR changed gate {l}'
        od = ct.dump_circuit(out)
        _, twice = apply(od, [['RR', allow]])
        td = ct.dump_circuit(twice)
        if not (twice == out) or td['inputs'] != od['inputs'] or td['outputs'] != od['outputs']:
            return f'RR(allow_inputs_removal={allow}) applied twice differs from applied once'
    # MD (+ its implied RR): no two gates with the same type and operands (up to order for symmetric)
    _, out = apply(dump, [['MD']])
    sigs = {}
    for l, gt in out._gates.items():
        if gt.gate_type.name == 'INPUT':
            continue
        s = canonical_sig(gt.gate_type.name, gt.operands, gt.gate_type.name in SYM)
        if s in sigs:
            return f'after MergeDuplicateGates {l} and {sigs[s]} have the same type and operands {s}'
        sigs[s] = l
    # ME: no two non-input gates with the same truth table
    if len(dump['inputs']) <= 5:
        _, out = apply(dump, [['ME']])
        gtt = out.get_gates_truth_table()
        seen = {}
        for l, gt in out._gates.items():
            if gt.gate_type.name == 'INPUT':
                continue
            k = tuple(gtt[l])
            if k in seen:
                return f'after MergeEquivalentGates {l} and {seen[k]} have the same truth table'
            seen[k] = l
    # MU
    unary = {t for t, _ in g.values() if t in ('NOT', 'LNOT', 'RNOT', 'IFF', 'LIFF', 'RIFF')}
    _, out = apply(dump, [['MU']])
    og = {l: (x.gate_type.name, list(x.operands)) for l, x in out._gates.items()}
    if unary and unary <= {'NOT'}:
        for l, (t, ops) in og.items():
            if t == 'NOT' and og[ops[0]][0] == 'NOT':
                return f'after MergeUnaryOperators {l} is a negation of the negation {ops[0]}'
    if unary and unary <= {'IFF'}:
        for l, (t, ops) in og.items():
            for o in ops:
                if og[o][0] == 'IFF':
                    return f'after MergeUnaryOperators the buffer {o} is still an operand of {l}'
        for o in out._outputs:
            if og[o][0] == 'IFF':
                return f'after MergeUnaryOperators the buffer {o} is still an output'
    # pipelines = sequencing of the constituent passes (with their implied post passes)
    for ts in case.get('pipelines', []):
        try:
            _, whole = apply(dump, ts)
        except Exception as e:  # noqa: BLE001
            return f'pipeline raises {type(e).__name__}: {e}'
        cur = ct.build_circuit(dump)
        for leaf in flatten(ts):
            cur = build(leaf).transform(cur)
        if ct.dump_circuit(whole) != ct.dump_circuit(cur):
            if not (whole == cur):
                return f'pipeline {ts} differs from applying its passes one after another'
        # the list of passes may be ANY iterable (annotated tp.Iterable[Transformer]): a generator, a tuple
        try:
            lazy = Transformer.apply_transformers(ct.build_circuit(dump), (build(t) for t in ts))
            tup = Transformer.apply_transformers(ct.build_circuit(dump), tuple(build(t) for t in ts))
        except Exception as e:  # noqa: BLE001
            return f'pipeline given as a generator / tuple raises {type(e).__name__}: {e}'
        if not (lazy == whole) or not (tup == whole):
            return f'pipeline {ts} given as a generator / tuple differs from the same passes given as a list'
        if ts:
            piped = build(ts[0])
            for t in ts[1:]:
                piped = piped | build(t)
            via_pipe = piped.transform(ct.build_circuit(dump))
            if not (via_pipe == whole):
                return f'pipe operator over {ts} differs from applying the list'
    # light, heavy, and light AGAIN: every call stands alone, whatever was called before in the same process
    for nth, heavy in enumerate((False, True, False) if len(dump['inputs']) <= 5 else (False,)):
        cl = cleanup(ct.build_circuit(dump), use_heavy=heavy)
        seq = ct.build_circuit(dump)
        for leaf in [['RR', False], ['MU'], ['MD']] + ([['ME']] if heavy else []):
            seq = build(leaf).transform(seq)
        if not (cl == seq):
            return (f'cleanup(use_heavy={heavy}) differs from its passes applied one after another'
                    + (' (the call after a heavy cleanup in the same process)' if nth == 2 else ''))
    return None
