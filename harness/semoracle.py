"""Semantic oracles (truth tables by brute force on the implementation) for C10, C13, C14, C19."""
import itertools

from . import coqterm as ct
from . import evalcorr, gen, wforacle

MAX_INPUTS = 7


def gates_of(dump):
    return {k: (t, list(o)) for k, t, o in dump['gates']}


def evaluable(dump):
    return evalcorr.well_formed_for_eval(dump) and len(dump['inputs']) <= MAX_INPUTS and acyclic(dump)


def acyclic(dump):
    g = gates_of(dump)
    state = {}

    def visit(l):
        stack = [(l, iter(g[l][1]))]
        state[l] = 1
        while stack:
            n, it = stack[-1]
            x = next(it, None)
            if x is None:
                state[n] = 2
                stack.pop()
            elif state.get(x) == 1:
                return False
            elif state.get(x) is None:
                state[x] = 1
                stack.append((x, iter(g[x][1])))
        return True
    return all(state.get(l) == 2 or visit(l) for l in g)


def all_assignments(inputs):
    for vec in itertools.product([False, True], repeat=len(inputs)):
        yield dict(zip(inputs, vec))


def impl_full(c, asg):
    return c.evaluate_full_circuit(dict(asg))


def mutate_everything(probe_target):
    """in-place edits through public mutators that touch every list a circuit owns"""
    from cirbo.core.circuit import gate as G
    c = probe_target
    labels = list(c._gates)
    for i, l in enumerate(labels[:6]):
        try:
            c.rename_gate(l, l + '~r')
        except Exception:  # noqa: BLE001
            pass
    try:
        c.emplace_gate('~fresh_in', G.INPUT)
        c.mark_as_output('~fresh_in')
        c.order_outputs([])
        c.order_inputs([])
    except Exception:  # noqa: BLE001
        pass
    for b in list(c._blocks.values()):
        b._inputs.append('~x')
        b._gates.append('~x')
        b._outputs.append('~x')


# ------------------------------------------------------------------ C10
def oracle_connect(case):
    """case: dict(base, other, tc, oc, right, name, add_prefix)"""
    base, other = case['base'], case['other']
    if not (evaluable(base) and evaluable(other)):
        return None
    cb, co = ct.build_circuit(base), ct.build_circuit(other)
    if wforacle.wf_violation(cb) or wforacle.wf_violation(co):
        return None
    before_other = ct.dump_circuit(co)
    tc, oc, right, name, ap = case['tc'], case['oc'], case['right'], case['name'], case['add_prefix']
    try:
        cb.connect_circuit(co, list(tc), list(oc), right_connect=right, name=name, add_prefix=ap)
    except Exception:  # noqa: BLE001
        return None
    if ct.dump_circuit(co) != before_other:
        return 'the attached circuit was modified'
    msg = wforacle.wf_violation(cb)
    if msg:
        return 'result not well formed: ' + msg
    prefix = name + '@' if (name != '' and ap) else ''
    # the documented composition identifies EVERY connector pair (oc_i, tc_i).  A gate of `other` can be
    # identified with one base gate only (left: an input of other is fed by one gate; right: it is written
    # over the one base input it replaces), so a call that returns although oc repeats a gate has dropped
    # a pair silently
    bg, og = gates_of(base), gates_of(other)
    multi = len(oc) == len(tc) and len(set(oc)) != len(oc) and len(set(zip(oc, tc))) != len(set(oc))
    if multi and not right:
        # LEFT: one input of `other` cannot be fed by two different base gates - a normal return is contradictory
        dropped = [(o, t) for o, t in zip(oc, tc) if dict(zip(oc, tc))[o] != t]
        return (f'connector pairs {dropped} were not identified: the call returned although the input of the '
                f'attached circuit is paired with several base gates')
    if multi and any(og[o][0] == 'INPUT' for o in oc if oc.count(o) > 1):
        return None       # RIGHT, one INPUT of other paired with several base inputs: nothing definite is documented
    # RIGHT with one gate of `other` feeding several base inputs: whether this is refused (as the repaired library
    # does) or realised, every pair (t_i, o_i) must hold in what is returned - judged by the interface and the
    # values below through the pair map t -> o
    t2o = dict(zip(tc, oc))
    mapping = dict(zip(oc, tc))
    ren = lambda l: mapping[l] if l in mapping else prefix + l
    # documented interface
    if right:
        exp_inputs = [i for i in base['inputs'] if not (i in t2o and og[t2o[i]][0] != 'INPUT')]
    else:
        exp_inputs = list(base['inputs'])
    exp_inputs += [ren(i) for i in other['inputs'] if i not in oc]
    exp_outputs = [o for o in base['outputs'] if o not in tc] + [ren(o) for o in other['outputs'] if o not in oc]
    if list(cb._inputs) != exp_inputs:
        return f'inputs are {cb._inputs}, documented composition has {exp_inputs}'
    if list(cb._outputs) != exp_outputs:
        return f'outputs are {cb._outputs}, documented composition has {exp_outputs}'
    if len(exp_inputs) > MAX_INPUTS:
        return None
    for a in all_assignments(exp_inputs):
        if right:
            oa = {x: (a[mapping[x]] if x in mapping else a[ren(x)]) for x in other['inputs']}
            vo = evalcorr.ref_eval(other, oa)
            ba = {t: (vo[t2o[t]] if t in t2o else a[t]) for t in base['inputs']}
            vb = evalcorr.ref_eval(base, ba)
        else:
            vb = evalcorr.ref_eval(base, {t: a[t] for t in base['inputs']})
            oa = {x: (vb[mapping[x]] if x in mapping else a[ren(x)]) for x in other['inputs']}
            vo = evalcorr.ref_eval(other, oa)
        full = impl_full(cb, a)
        for l in bg:
            if full.get(l) is not vb[l]:
                return f'base gate {l} computes {full.get(l)} instead of {vb[l]} at {a}'
        for l in og:
            if l in mapping and not right:
                continue
            if multi and l in mapping:
                continue      # which of its base labels carries a gate that feeds several inputs is not documented
            if full.get(ren(l)) is not vo[l]:
                return f'attached gate {l} (as {ren(l)}) computes {full.get(ren(l))} instead of {vo[l]} at {a}'
        got = cb.evaluate([a[i] for i in exp_inputs])
        exp = [vb[o] for o in base['outputs'] if o not in tc] + [vo[o] for o in other['outputs'] if o not in oc]
        if got != exp:
            return f'outputs {got} instead of {exp} at {a}'
    if multi:
        return None
    # no mutable state is shared with the attached circuit: later edits of either side stay local
    snap_other = ct.dump_circuit(co)
    snap_res = ct.dump_circuit(cb)
    if True:
        mutate_everything(probe_target=cb)
        if ct.dump_circuit(co) != snap_other:
            return 'editing the composed circuit afterwards changed the attached circuit (shared mutable state)'
        cb = ct.build_circuit(snap_res)   # continue the remaining checks on an unedited equal state
        cb2 = ct.build_circuit(base)
        co2 = ct.build_circuit(other)
        try:
            cb2.connect_circuit(co2, list(tc), list(oc), right_connect=right, name=name, add_prefix=ap)
            snap2 = ct.dump_circuit(cb2)
            mutate_everything(probe_target=co2)
            if ct.dump_circuit(cb2) != snap2:
                return 'editing the attached circuit afterwards changed the composed circuit (shared mutable state)'
        except Exception:  # noqa: BLE001
            pass
    if name != '':
        # extracting the block gives back the attached circuit's function
        try:
            sub = cb.get_block(name).into_circuit()
        except Exception as e:  # noqa: BLE001
            return f'block {name}.into_circuit() raises {type(e).__name__}: {e}'
        msg = wforacle.wf_violation(sub)
        if msg:
            return f'block {name}.into_circuit() is not well formed: {msg}'
        if len(sub._outputs) != len(other['outputs']):
            return f'block {name} has {len(sub._outputs)} outputs, attached circuit {len(other["outputs"])}'
        # function of the attached circuit's inputs (connectors identified with base gates)
        sub_inputs = list(sub._inputs)
        block_in = [ren(i) for i in other['inputs']]
        if sorted(set(block_in)) != sorted(sub_inputs) and not right:
            return f'block {name} inputs {sub_inputs} are not the attached inputs {block_in}'
        if len(sub_inputs) <= MAX_INPUTS and not right and len(set(block_in)) == len(block_in):
            for a in all_assignments(sub_inputs):
                oa = {x: a[ren(x)] for x in other['inputs']}
                vo = evalcorr.ref_eval(other, oa)
                got = sub.evaluate([a[i] for i in sub_inputs])
                exp = [vo[o] for o in other['outputs']]
                if got != exp:
                    return f'block {name} extracted computes {got} instead of {exp} at {a}'
        # ... and still does after a LATER public edit of the composed circuit: a base gate that feeds the attached
        # circuit (first one that feeds several of its inputs, if any) is renamed; the block follows the renaming
        feeders = [t for t in tc if list(tc).count(t) > 1] + list(tc)
        if not right and feeders and feeders[0] + '~c' not in cb._gates:
            t_old, t_new = feeders[0], feeders[0] + '~c'
            cb3 = ct.build_circuit(snap_res)
            try:
                cb3.rename_gate(t_old, t_new)
                sub3 = cb3.get_block(name).into_circuit()
            except Exception as e:  # noqa: BLE001
                return f'after rename_gate({t_old!r}, {t_new!r}) block {name}.into_circuit() raises {type(e).__name__}: {e}'
            msg = wforacle.wf_violation(cb3) or wforacle.wf_violation(sub3)
            if msg:
                return f'after rename_gate({t_old!r}, {t_new!r}) the circuit / block {name} is not well formed: {msg}'
            want = sorted({t_new if x == t_old else x for x in block_in})
            if sorted(sub3._inputs) != want:
                return (f'after rename_gate({t_old!r}, {t_new!r}) block {name} extracted has inputs '
                        f'{list(sub3._inputs)}, the attached inputs are {want}')
            if len(sub3._outputs) != len(other['outputs']):
                return f'after rename_gate block {name} has {len(sub3._outputs)} outputs'
    return None


def oracle_wrapper(case):
    """the five wrappers equal connect_circuit with their documented connector lists"""
    base, other = case['base'], case['other']
    kind, name, ap = case['wrapper'], case['name'], case['add_prefix']

    def run(fn):
        cb, co = ct.build_circuit(base), ct.build_circuit(other)
        try:
            fn(cb, co)
        except Exception as e:  # noqa: BLE001
            return ('err', type(e).__name__)
        if name:
            gen.canonicalise_block(cb, name)
        return ('ok', ct.dump_circuit(cb))
    tc, oc, right = case.get('tc'), case.get('oc'), case.get('right', False)
    if kind == 'connect_left':
        got = run(lambda b, o: b.connect_left(o, list(tc), name=name, add_prefix=ap))
        exp = run(lambda b, o: b.connect_circuit(o, list(tc), list(o.inputs), right_connect=False, name=name, add_prefix=ap))
    elif kind == 'connect_right':
        got = run(lambda b, o: b.connect_right(o, list(oc), name=name, add_prefix=ap))
        exp = run(lambda b, o: b.connect_circuit(o, list(b.inputs), list(oc), right_connect=True, name=name, add_prefix=ap))
    elif kind == 'connect_inputs':
        got = run(lambda b, o: b.connect_inputs(o, name=name, add_prefix=ap))
        exp = run(lambda b, o: b.connect_circuit(o, list(b.inputs), list(o.inputs), right_connect=True, name=name, add_prefix=ap))
    elif kind == 'add_circuit':
        got = run(lambda b, o: b.add_circuit(o, name=name, add_prefix=ap))
        exp = run(lambda b, o: b.connect_circuit(o, [], [], name=name, add_prefix=ap))
    else:  # extend_circuit: None means the documented default, an explicit list (even empty) is used as given
        got = run(lambda b, o: b.extend_circuit(o, this_connectors=None if tc is None else list(tc),
                                                other_connectors=None if oc is None else list(oc),
                                                right_connect=right, name=name, add_prefix=ap))
        exp = run(lambda b, o: b.connect_circuit(
            o,
            list(tc) if tc is not None else list(b.inputs if right else b.outputs),
            list(oc) if oc is not None else list(o.outputs if right else o.inputs),
            right_connect=right, name=name, add_prefix=ap))
    if got != exp:
        return f'{kind} differs from connect_circuit with its documented connectors: {str(got)[:150]} vs {str(exp)[:150]}'
    return None


# ------------------------------------------------------------------ C13
def spoil_gadgets(n):
    """what an earlier caller in the same process may have done: generate the gadgets build_miter uses and edit
    the returned circuits in place.  A library that hands out a NEW circuit on every call is unaffected"""
    try:
        from cirbo.synthesis.generation.generation import generate_pairwise_xor
        g = generate_pairwise_xor(n)
        mutate_everything(g)
        g.set_outputs(list(g._gates)[:1])
    except Exception:  # noqa: BLE001
        pass


def oracle_miter(case):
    l, r = case['left'], case['right']
    if not (evaluable(l) and evaluable(r)):
        return None
    cl, cr = ct.build_circuit(l), ct.build_circuit(r)
    if wforacle.wf_violation(cl) or wforacle.wf_violation(cr):
        return None
    from cirbo.sat.miter import build_miter
    from cirbo.sat.exceptions import MiterDifferentShapesError
    # operands with a HISTORY: gates renamed through the public rename_gate before the miter is built (each gate at
    # most once, onto fresh labels); the operand is then the renamed circuit, and the property speaks about it
    ren = case.get('renames') or {}
    for side, c in (('left', cl), ('right', cr)):
        for old, new in ren.get(side, []):
            c.rename_gate(old, new)
    if ren.get('left'):
        l = gen.rename_dump(l, dict(map(tuple, ren['left'])))
    if ren.get('right'):
        r = gen.rename_dump(r, dict(map(tuple, ren['right'])))
    bl, br = ct.dump_circuit(cl), ct.dump_circuit(cr)
    same_shape = len(l['inputs']) == len(r['inputs']) and len(l['outputs']) == len(r['outputs'])
    spoil_gadgets(len(l['outputs']))
    try:
        m = build_miter(cl, cr)
    except MiterDifferentShapesError:
        return None if not same_shape else 'equal shapes rejected with MiterDifferentShapesError'
    except Exception as e:  # noqa: BLE001
        if not same_shape:
            return f'mismatched shapes raise {type(e).__name__}, not the dedicated error'
        if len(l['outputs']) == 0:
            return None
        return f'build_miter raises {type(e).__name__}: {e}'
    if not same_shape:
        return 'mismatched shapes accepted'
    if ct.dump_circuit(cl) != bl or ct.dump_circuit(cr) != br:
        return 'build_miter modified an operand'
    if len(l['outputs']) == 0:
        return None
    if len(m._inputs) != len(l['inputs']) or len(m._outputs) != 1:
        return f'miter has {len(m._inputs)} inputs / {len(m._outputs)} outputs'
    msg = wforacle.wf_violation(m)
    if msg:
        return 'miter not well formed: ' + msg
    for vec in itertools.product([False, True], repeat=len(l['inputs'])):
        vl = evalcorr.ref_eval(l, dict(zip(l['inputs'], vec)))
        vr = evalcorr.ref_eval(r, dict(zip(r['inputs'], vec)))
        differ = [vl[o] for o in l['outputs']] != [vr[o] for o in r['outputs']]
        try:
            got = m.evaluate(list(vec))
        except Exception as e:  # noqa: BLE001
            return f'evaluating the miter raises {type(e).__name__}: {e}'
        if got != [differ]:
            return f'miter gives {got} at {vec}, circuits differ = {differ}'
    return None


# ------------------------------------------------------------------ C14
BENCH_SET = {'INPUT', 'NOT', 'AND', 'OR', 'NAND', 'NOR', 'XOR', 'NXOR', 'IFF'}


def oracle_into_bench(dump):
    if not evaluable(dump) or not dump['inputs']:
        return None
    c = ct.build_circuit(dump)
    if wforacle.wf_violation(c):
        return None
    old_blocks = {k: set(g) for k, _, g, _ in dump['blocks']}
    import copy as _copy
    twin = _copy.copy(c)                      # a copy made BEFORE the conversion shares nothing with c
    twin_snap = ct.dump_circuit(twin)
    try:
        c.into_bench()
    except Exception as e:  # noqa: BLE001
        return f'into_bench raises {type(e).__name__}: {e}'
    if ct.dump_circuit(twin) != twin_snap:
        return 'into_bench changed a copy of the circuit that was made before the call (shared mutable state)'
    msg = oracle_into_bench_relabel(dump)
    if msg:
        return msg
    if list(c._inputs) != dump['inputs'] or list(c._outputs) != dump['outputs']:
        return 'inputs or outputs changed'
    bad = sorted({g.gate_type.name for g in c._gates.values()} - BENCH_SET)
    if bad:
        return f'gate types outside the bench basis remain: {bad}'
    msg = wforacle.wf_violation(c)
    if msg:
        return 'result not well formed: ' + msg
    old = gates_of(dump)
    for a in all_assignments(dump['inputs']):
        ref = evalcorr.ref_eval(dump, a)
        full = impl_full(c, a)
        for l in old:
            if full.get(l) is not ref[l]:
                return f'gate {l} computes {full.get(l)} instead of {ref[l]} at {a}'
    # helper gates stay inside the blocks that contained the rewritten gate
    for l, g in c._gates.items():
        if l in old:
            continue
        owners = [u for u in c.get_gate_users(l)]
        for name, members in old_blocks.items():
            if any(u in members for u in owners) and l not in c._blocks[name].gates:
                return f'helper gate {l} of {owners} is outside block {name}'
    # the SAME object converted again after edits that put gates outside the bench basis back in
    # (replace_inputs rewrites an input into a constant in place; a fresh GEQ gate): every call converts
    if len(dump['inputs']) < 2:          # a constant is converted with the help of an input: one must remain
        return None
    x = dump['inputs'][0]
    try:
        c.replace_inputs([x], [])
        c.into_bench()
        bad = sorted({g.gate_type.name for g in c._gates.values()} - BENCH_SET)
        if bad:
            return f'into_bench after replace_inputs on the same object leaves gate types outside the bench basis: {bad}'
        helper = '~geq'
        c.emplace_gate(helper, G().GEQ, (dump['inputs'][-1], dump['inputs'][-1]))
        c.into_bench()
    except Exception as e:  # noqa: BLE001
        return f'second into_bench (after replace_inputs / emplace_gate) raises {type(e).__name__}: {e}'
    bad = sorted({g.gate_type.name for g in c._gates.values()} - BENCH_SET)
    if bad:
        return f'third into_bench on the same object leaves gate types outside the bench basis: {bad}'
    msg = wforacle.wf_violation(c)
    if msg:
        return 'result of the second into_bench not well formed: ' + msg
    rest = [i for i in dump['inputs'] if i != x]
    if list(c._inputs) != rest:
        return 'inputs changed by the second into_bench'
    for a in all_assignments(rest):
        ref = evalcorr.ref_eval(dump, dict(a, **{x: True}))
        full = impl_full(c, a)
        for l in old:
            if l != x and full.get(l) is not ref[l]:
                return f'after the second into_bench gate {l} computes {full.get(l)} instead of {ref[l]} at {a}'
    return None


def G():
    from cirbo.core.circuit import gate
    return gate


def oracle_into_bench_relabel(dump):
    """convert; rename a converted comparison gate; add a NEW gate of the same kind under the freed label (operands
    mirrored); convert again: the old gate must keep its function and the new one must get its own"""
    cand = [(l, t, ops) for l, t, ops in dump['gates'] if t in ('GT', 'LT', 'GEQ', 'LEQ') and len(ops) == 2]
    if not cand:
        return None
    l, t, ops = cand[0]
    c = ct.build_circuit(dump)
    try:
        c.into_bench()
        c.rename_gate(l, l + '~old')
        c.emplace_gate(l, getattr(G(), t), (ops[1] if ops[1] != l else l + '~old', ops[0] if ops[0] != l else l + '~old'))
        c.into_bench()
    except Exception as e:  # noqa: BLE001
        return f'into_bench / rename_gate / emplace_gate / into_bench raises {type(e).__name__}: {e}'
    msg = wforacle.wf_violation(c)
    if msg:
        return 'after convert, rename, add, convert: not well formed: ' + msg
    r = lambda x: l + '~old' if x == l else x
    ref_dump = {'inputs': list(dump['inputs']), 'outputs': [],
                'gates': [(r(k), tt, [r(o) for o in oo]) for k, tt, oo in dump['gates']] + [(l, t, [r(ops[1]), r(ops[0])])],
                'users': [], 'blocks': []}
    for a in all_assignments(dump['inputs']):
        ref = evalcorr.ref_eval(ref_dump, a)
        full = impl_full(c, a)
        for k in ref:
            if full.get(k) is not ref[k]:
                return (f'after convert, rename {l} -> {l}~old, add a new {t} gate {l}, convert: gate {k} computes '
                        f'{full.get(k)} instead of {ref[k]} at {a}')
    return None


# ------------------------------------------------------------------ C19
def truth_table_of(dump):
    return [[evalcorr.ref_eval(dump, a)[o] for a in all_assignments(dump['inputs'])] for o in dump['outputs']]


def oracle_rename(case):
    dump, old, new = case['circuit'], case['old'], case['new']
    if not evaluable(dump):
        return None
    c = ct.build_circuit(dump)
    if wforacle.wf_violation(c):
        return None
    g = gates_of(dump)
    try:
        c.rename_gate(old, new)
    except Exception as e:  # noqa: BLE001
        # an absent old label or an existing new label is refused: with which exception is not part of the property
        ok = old not in g or new in g
        return None if ok else f'rename_gate raises {type(e).__name__} for old in circuit={old in g}, new in circuit={new in g}'
    if old not in g or new in g:
        return 'rename_gate accepted an absent old label or an existing new label'
    msg = wforacle.wf_violation(c)
    if msg:
        return 'result not well formed: ' + msg
    r = lambda l: new if l == old else l
    after = ct.dump_circuit(c)
    if after['inputs'] != [r(x) for x in dump['inputs']] or after['outputs'] != [r(x) for x in dump['outputs']]:
        return 'inputs / outputs do not point at the renamed gate'
    if {k: (t, o) for k, t, o in after['gates']} != {r(k): (t, [r(x) for x in o]) for k, (t, o) in g.items()}:
        return 'gates / operands do not point at the renamed gate'
    for (k, i, gs, o), (k2, i2, gs2, o2) in zip(dump['blocks'], after['blocks']):
        if (k2, i2, gs2, o2) != (k, [r(x) for x in i], [r(x) for x in gs], [r(x) for x in o]):
            return f'block {k} does not point at the renamed gate'
    if sorted(c.get_gate_users(new)) != sorted(u for u, (t, o) in g.items() for x in o if x == old):
        return 'users of the renamed gate changed'
    tt_before = truth_table_of(dump)
    if c.get_truth_table() != tt_before:
        return 'truth table changed by renaming'
    return None


def oracle_replace_inputs(case):
    dump, tt, ff = case['circuit'], case['to_true'], case['to_false']
    if not evaluable(dump):
        return None
    c = ct.build_circuit(dump)
    if wforacle.wf_violation(c):
        return None
    try:
        c.replace_inputs(list(tt), list(ff))
    except Exception:  # noqa: BLE001
        return None
    msg = wforacle.wf_violation(c)
    if msg:
        return 'result not well formed: ' + msg
    fixed = {**{x: True for x in tt}, **{x: False for x in ff}}
    remaining = [i for i in dump['inputs'] if i not in fixed]
    if list(c._inputs) != remaining:
        return f'remaining inputs {c._inputs}, expected {remaining}'
    for a in all_assignments(remaining):
        ref = evalcorr.ref_eval(dump, {**a, **fixed})
        got = c.evaluate([a[i] for i in remaining])
        if got != [ref[o] for o in dump['outputs']]:
            return f'cofactor differs at {a}: {got}'
    return None


def oracle_remove_gate(case):
    dump, l = case['circuit'], case['label']
    c = ct.build_circuit(dump)
    if wforacle.wf_violation(c):
        return None
    g = gates_of(dump)
    used = any(l in o for _, (t, o) in g.items())
    try:
        c.remove_gate(l)
    except Exception as e:  # noqa: BLE001
        if l in g and not used:
            return f'remove_gate of an unused gate raises {type(e).__name__}'
        return None
    if l not in g or used:
        return 'remove_gate succeeded for an absent or used gate'
    if l in c._gates or l in c._outputs or l in c._inputs:
        return 'removed gate still referenced'
    msg = wforacle.wf_violation(c)
    return 'result not well formed: ' + msg if msg else None


DOCUMENTED_REPLACE_ERRORS = {'ReplaceSubcircuitError', 'CreateBlockError', 'DeleteBlockError',
                             'CircuitValidationError', 'CircuitGateAlreadyExistsError',
                             'CircuitGateIsAbsentError', 'GateDoesntExistError'}


def oracle_replace_subcircuit(case):
    """case: circuit, sub, imap, omap, equivalent(bool)"""
    dump, sub = case['circuit'], case['sub']
    if not (evaluable(dump) and evaluable(sub)):
        return None
    c, s = ct.build_circuit(dump), ct.build_circuit(sub)
    if wforacle.wf_violation(c) or wforacle.wf_violation(s):
        return None
    try:
        c.replace_subcircuit(s, dict(case['imap']), dict(case['omap']))
    except Exception as e:  # noqa: BLE001
        from cirbo.core.circuit import exceptions as _cx
        base = getattr(_cx, 'CircuitError', None)
        if type(e).__name__ not in DOCUMENTED_REPLACE_ERRORS and not (base is not None and isinstance(e, base)):
            return f'replace_subcircuit raises undocumented {type(e).__name__}: {e}'
        return None
    msg = wforacle.wf_violation(c)
    if msg:
        return 'result not well formed: ' + msg
    if case.get('equivalent'):
        ren = {**dict(map(tuple, case['imap'])), **dict(map(tuple, case['omap']))}
        if len(c._inputs) != len(dump['inputs']) or len(c._outputs) != len(dump['outputs']):
            return 'number of inputs / outputs changed by an equivalent replacement'
        if [list(r) for r in c.get_truth_table()] != truth_table_of(dump):
            return 'truth table changed by an equivalent replacement'
    return None


# ------------------------------------------------------------------ generators of equivalent replacements
def cone(dump, ins, outs):
    g = gates_of(dump)
    seen, todo = [], list(outs)
    while todo:
        l = todo.pop()
        if l in seen or l in ins:
            continue
        seen.append(l)
        todo += g[l][1]
    return seen


def equivalent_replacement(rng, dump, ins, outs):
    """re-label the cone and apply random local equivalences -> (sub dump, imap, omap) or None"""
    g = gates_of(dump)
    cone_l = cone(dump, ins, outs)
    if any(g[l][0] == 'INPUT' for l in cone_l):
        return None
    order = [k for k, _, _ in topo(dump) if k in cone_l]
    used = set()
    fresh = lambda: gen.fresh_label(rng, used, 'e')
    ren = {}
    gates = []
    for i in ins:
        ren[i] = fresh()
        used.add(ren[i])
        gates.append((ren[i], 'INPUT', []))
    for l in order:
        t, ops = g[l]
        ops = [ren[o] for o in ops]
        nl = fresh()
        used.add(nl)
        r = rng.random()
        if r < 0.2 and t in ('AND', 'OR', 'XOR', 'NAND', 'NOR', 'NXOR'):
            rng.shuffle(ops)
            gates.append((nl, t, ops))
        elif r < 0.4 and t in ('AND', 'OR', 'XOR'):
            h = fresh()
            used.add(h)
            gates.append((h, 'N' + t, ops))
            gates.append((nl, 'NOT', [h]))
        elif r < 0.55:
            h = fresh()
            used.add(h)
            gates.append((h, t, ops))
            gates.append((nl, 'IFF', [h]))
        else:
            gates.append((nl, t, ops))
        ren[l] = nl
    users = {}
    for l, t, ops in gates:
        for o in ops:
            users.setdefault(o, []).append(l)
    sub = {'inputs': [ren[i] for i in ins], 'outputs': [ren[o] for o in outs], 'gates': gates,
           'users': list(users.items()), 'blocks': []}
    return sub, [(i, ren[i]) for i in ins], [(o, ren[o]) for o in outs]


def topo(dump):
    g = gates_of(dump)
    done, out = set(), []

    def visit(l):
        if l in done:
            return
        done.add(l)
        for o in g[l][1]:
            visit(o)
        out.append((l,) + tuple(g[l]))
    for l in g:
        visit(l)
    return out
