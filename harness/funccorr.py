"""Correspondence and direct oracle for the Function / FunctionModel protocol (C12).

A case is JSON: {'kind': 'func', 'n': n, 'm': m, 'table': [[bool]*2^n]*m} (one Boolean function,
all three classes x every query), or one of the small kinds 'iter', 'ttmake', 'tmodel', 'pmodel',
'intun', 'intbin', 'utils'.  `impl_*` run the implementation, `term_*` print the Coq case,
`oracle` evaluates the property itself (the mathematical definitions on the truth table)."""
import copy
import itertools
import json

from . import coqterm as ct

HEADER = ('Require Import Cirbo.Model.Base Cirbo.Model.Gate Cirbo.Model.Circuit Cirbo.Model.Eval '
          'Cirbo.Model.History Cirbo.Model.FuncProto Cirbo.Model.FuncProtoCases.')
CASE_TYPE = 'fcase'

CLASSES = ('Circuit', 'TruthTable', 'PyFunction')


# ------------------------------------------------------------------ small helpers
def err_name(e):
    n = type(e).__name__
    if n == 'BadBooleanValue':          # no constructor of its own in Base.err (see FuncProto.parse_bool)
        return 'BadDefinitionError'
    return ct.err_name(e)


def call(fn, conv):
    try:
        r = fn()
    except RecursionError:
        raise
    except Exception as e:  # noqa: BLE001
        return ['err', err_name(e)]
    try:
        return ['ok', conv(r)]
    except _BadValue as e:
        return ['err', 'UNMODELLED_value_' + str(e)]


class _BadValue(Exception):
    pass


def cbool(v):
    if v is True or v is False:
        return v
    raise _BadValue(repr(v)[:30])


def cvec(v):
    if not isinstance(v, (list, tuple)):
        raise _BadValue(repr(v)[:30])
    return [cbool(x) for x in v]


def cnats(v):
    if not isinstance(v, list) or any(type(x) is not int or x < 0 for x in v):
        raise _BadValue(repr(v)[:30])
    return list(v)


def coptvec(v):
    return None if v is None else cvec(v)


def ctable(v):
    if not isinstance(v, list):
        raise _BadValue(repr(v)[:30])
    return [cvec(r) for r in v]


def ctri(v):
    from cirbo.core.logic import _DontCare
    if isinstance(v, _DontCare):
        return '*'
    return cbool(v)


def ctris(v):
    if not isinstance(v, (list, tuple)):
        raise _BadValue(repr(v)[:30])
    return [ctri(x) for x in v]


def ctritable(v):
    return [ctris(r) for r in v]


def index_of(x):
    r = 0
    for b in x:
        r = 2 * r + (1 if b else 0)
    return r


def vectors(n):
    return [list(v) for v in itertools.product((False, True), repeat=n)]


# ------------------------------------------------------------------ the three representations
def table_callable(table):
    """the callable handed to PyFunction / PyFunctionModel (FuncProtoCases.table_callable)"""
    from cirbo.core.utils import input_to_canonical_index

    n_rows = len(table)
    width = len(table[0]) if table else 0
    # the identity function is realistically written as `lambda xs: xs`: the callable hands back
    # its own argument object (this is what exposes aliasing between the iterator and the result)
    identity = width == 2 ** n_rows and n_rows > 0 and all(
        [row[i] for row in table] == list(v) for i, v in enumerate(vectors(n_rows)))

    def f(args):
        if identity and len(args) == n_rows and type(args) is list:
            return args
        i = input_to_canonical_index(args)
        return [row[i] for row in table]
    return f


def build_circuit(n, table):
    """a circuit computing the table, built through the public API: constants, outputs that are
    inputs, NOT gates, shared minterm ANDs, OR of minterms"""
    from cirbo.core.circuit import Circuit, gate
    c = Circuit()
    ins = [f'x{i}' for i in range(n)]
    c.add_inputs(ins)
    vecs = vectors(n)
    made = {}

    def neg(i):
        l = f'n{i}'
        if l not in made:
            c.emplace_gate(l, gate.NOT, (ins[i],))
            made[l] = 1
        return l

    def minterm(k):
        l = f'm{k}'
        if l not in made:
            lits = [ins[i] if vecs[k][i] else neg(i) for i in range(n)]
            if n == 1:
                return lits[0]
            c.emplace_gate(l, gate.AND, tuple(lits))
            made[l] = 1
        return l

    outs = []
    for j, row in enumerate(table):
        ones = [k for k, v in enumerate(row) if v]
        o = f'o{j}'
        eq = [i for i in range(n) if all(row[k] == vecs[k][i] for k in range(len(vecs)))]
        ne = [i for i in range(n) if all(row[k] != vecs[k][i] for k in range(len(vecs)))]
        if not ones:
            c.emplace_gate(o, gate.ALWAYS_FALSE, ())
        elif len(ones) == len(row):
            c.emplace_gate(o, gate.ALWAYS_TRUE, ())
        elif eq:
            o = ins[eq[0]]
        elif ne:
            o = neg(ne[0])
        elif len(ones) == 1:
            o = minterm(ones[0])
        else:
            c.emplace_gate(o, gate.OR, tuple(minterm(k) for k in ones))
        outs.append(o)
    c.set_outputs(outs)
    return c


def build_reps(n, table):
    """-> {class name: object or ('err', kind)}"""
    from cirbo.core.truth_table import TruthTable
    from cirbo.core.python_function import PyFunction
    reps = {}
    for name, mk in (('Circuit', lambda: build_circuit(n, table)),
                     ('TruthTable', lambda: TruthTable([list(r) for r in table])),
                     ('PyFunction', lambda: PyFunction(table_callable(table), n))):
        try:
            reps[name] = mk()
        except Exception as e:  # noqa: BLE001
            reps[name] = ('err', err_name(e))
    return reps


# ------------------------------------------------------------------ queries
def queries(n, m):
    qs = [['sizes']]
    vs = vectors(n)
    for x in vs:
        qs.append(['evaluate', x])
    if n > 0:
        qs.append(['evaluate', [True] * (n - 1)])
    qs.append(['evaluate', [False] * n + [True]])
    for x in vs:
        for j in range(m + 1):
            qs.append(['evaluate_at', x, j])
    if n > 0:
        qs.append(['evaluate_at', [True] * (n - 1), 0])
    qs.append(['is_constant'])
    qs += [['is_constant_at', j] for j in range(m + 1)]
    for inv in (False, True):
        qs.append(['is_monotone', inv])
        qs += [['is_monotone_at', j, inv] for j in range(m + 1)]
    qs.append(['is_symmetric'])
    qs += [['is_symmetric_at', j] for j in range(m + 1)]
    for j in range(m + 1):
        for i in range(n + 2):
            qs.append(['is_dependent_on_input_at', j, i])
        for i in range(n + 1):
            qs.append(['is_output_equal_to_input', j, i])
            qs.append(['is_output_equal_to_input_negation', j, i])
        qs.append(['get_significant_inputs_of', j])
    outsets = [[]] + [[j] for j in range(m + 1)]
    if m >= 2:
        outsets += [[0, 1], [1, 0]]
    if m >= 1:
        outsets += [[0, 0], [0, m]]
    for o in outsets:
        qs.append(['find_negations_to_make_symmetric', o])
    qs.append(['get_truth_table'])
    return qs


CONV = {'evaluate': cvec, 'evaluate_at': cbool, 'is_constant': cbool, 'is_constant_at': cbool,
        'is_monotone': cbool, 'is_monotone_at': cbool, 'is_symmetric': cbool, 'is_symmetric_at': cbool,
        'is_dependent_on_input_at': cbool, 'is_output_equal_to_input': cbool,
        'is_output_equal_to_input_negation': cbool, 'get_significant_inputs_of': cnats,
        'find_negations_to_make_symmetric': coptvec, 'get_truth_table': ctable}


def run_query(obj, q):
    name = q[0]
    if name == 'sizes':
        return call(lambda: [obj.input_size, obj.output_size], cnats)
    if name in ('is_monotone',):
        return call(lambda: obj.is_monotone(inverse=q[1]), cbool)
    if name == 'is_monotone_at':
        return call(lambda: obj.is_monotone_at(q[1], inverse=q[2]), cbool)
    args = [list(a) if isinstance(a, list) else a for a in q[1:]]
    return call(lambda: getattr(obj, name)(*args), CONV[name])


def protocol_aliases(obj, n, table):
    """check / check_at / get_model_truth_table / define of a completely defined Function
    must be evaluate / evaluate_at / get_truth_table / identity -> None | message"""
    for x in vectors(n):
        if call(lambda: obj.check(list(x)), cvec) != call(lambda: obj.evaluate(list(x)), cvec):
            return f'check({x}) differs from evaluate'
        for j in range(len(table)):
            if call(lambda: obj.check_at(list(x), j), cbool) != call(lambda: obj.evaluate_at(list(x), j), cbool):
                return f'check_at({x},{j}) differs from evaluate_at'
    if call(obj.get_model_truth_table, ctable) != call(obj.get_truth_table, ctable):
        return 'get_model_truth_table differs from get_truth_table'
    # a fully defined function is its own completion: the result of define({}) computes the same table (whether it
    # is the same object, and whether a redundant definition is refused or ignored, is not part of the property)
    try:
        same = obj.define({})
        if call(same.get_truth_table, ctable) != call(obj.get_truth_table, ctable):
            return 'define({}) of a defined function computes another table'
    except Exception as e:  # noqa: BLE001
        return f'define({{}}) of a defined function raises {type(e).__name__}'
    return None


def positional_callable(n, table):
    """def f(a0, .., a_{n-1}): return [row[index] ...]  with exactly n positional parameters"""
    params = ', '.join(f'a{i}' for i in range(n))
    env = {'table': table, 'index_of': index_of}
    exec(f'def f({params}):\n    return [row[index_of([{params}])] for row in table]\n', env)
    return env['f']


def alternative_constructions(n, m, table, impl):
    """other ways to build the same representation answer exactly like the plain one:
    PyFunction.from_positional, PyFunction with output_size given, TruthTable from '01' strings / 0-1 ints"""
    from cirbo.core.truth_table import TruthTable
    from cirbo.core.python_function import PyFunction
    qs = impl['queries']
    alts = [('PyFunction.from_positional', 'PyFunction', lambda: PyFunction.from_positional(positional_callable(n, table))),
            ('PyFunction(output_size=m)', 'PyFunction', lambda: PyFunction(table_callable(table), n, output_size=m)),
            ('TruthTable(strings)', 'TruthTable',
             lambda: TruthTable([''.join('1' if v else '0' for v in r) for r in table])),
            ('TruthTable(ints)', 'TruthTable', lambda: TruthTable([[int(v) for v in r] for r in table]))]
    for name, base, mk in alts:
        if isinstance(impl['answers'][base], tuple):
            continue
        try:
            obj = mk()
        except Exception as e:  # noqa: BLE001
            return f'{name}: constructor raised {err_name(e)}'
        for q, want in zip(qs, impl['answers'][base]):
            if q[0] in ('evaluate', 'evaluate_at') and len(q[1]) != n:
                continue        # a wrong-length vector reaches the user's callable: its own exception
            got = run_query(obj, q)
            if got != want:
                return f'{name}.{q[0]}: {q[1:]} gave {got}, {base} gives {want}'
    return None


_IMPL_CACHE = {}


def case_key(case):
    return json.dumps(case, sort_keys=True)


def impl_func(case):
    """all answers of the three classes for one function"""
    key = case_key(case)
    if key in _IMPL_CACHE:
        return _IMPL_CACHE[key]
    n, m, table = case['n'], case['m'], case['table']
    reps = build_reps(n, table)
    qs = queries(n, m)
    out = {'queries': qs, 'answers': {}, 'circuit': None, 'alias': {}, 'alt': None}
    for name in CLASSES:
        obj = reps[name]
        if isinstance(obj, tuple):
            out['answers'][name] = obj
            continue
        if name == 'Circuit':
            out['circuit'] = ct.dump_circuit(obj)
        out['answers'][name] = [run_query(obj, q) for q in qs]
        out['alias'][name] = protocol_aliases(obj, n, table)
    try:
        out['alt'] = alternative_constructions(n, m, table, out)
    except Exception as e:  # noqa: BLE001
        out['alt'] = 'alternative constructions crashed: ' + repr(e)[:200]
    if len(_IMPL_CACHE) > 64:
        _IMPL_CACHE.clear()
    _IMPL_CACHE[key] = out
    return out


# ------------------------------------------------------------------ Coq terms
def b(v):
    return 'true' if v else 'false'


def vec(v):
    return ct.lst(b(x) for x in v)


def nats(v):
    return ct.lst(str(x) for x in v)


def tbl(t):
    return ct.lst(vec(r) for r in t)


def tri(v):
    return 'DontCare' if v == '*' else f'(Def {b(v)})'


def tris(v):
    return ct.lst(tri(x) for x in v)


def tritbl(t):
    return ct.lst(tris(r) for r in t)


def query_term(q):
    k = q[0]
    if k == 'sizes':
        return 'QSizes'
    if k == 'evaluate':
        return f'(QEvaluate {vec(q[1])})'
    if k == 'evaluate_at':
        return f'(QEvaluateAt {vec(q[1])} {q[2]})'
    if k == 'is_constant':
        return 'QConstant'
    if k == 'is_constant_at':
        return f'(QConstantAt {q[1]})'
    if k == 'is_monotone':
        return f'(QMonotone {b(q[1])})'
    if k == 'is_monotone_at':
        return f'(QMonotoneAt {q[1]} {b(q[2])})'
    if k == 'is_symmetric':
        return 'QSymmetric'
    if k == 'is_symmetric_at':
        return f'(QSymmetricAt {q[1]})'
    if k == 'is_dependent_on_input_at':
        return f'(QDependent {q[1]} {q[2]})'
    if k == 'is_output_equal_to_input':
        return f'(QEqualInput {q[1]} {q[2]})'
    if k == 'is_output_equal_to_input_negation':
        return f'(QEqualInputNeg {q[1]} {q[2]})'
    if k == 'get_significant_inputs_of':
        return f'(QSignificant {q[1]})'
    if k == 'find_negations_to_make_symmetric':
        return f'(QFindNegations {nats(q[1])})'
    if k == 'get_truth_table':
        return 'QTruthTable'
    raise ValueError(k)


def answer_term(q, v):
    k = q[0]
    if k in ('sizes', 'get_significant_inputs_of'):
        return f'(ANats {nats(v)})'
    if k == 'evaluate':
        return f'(AVec {vec(v)})'
    if k == 'find_negations_to_make_symmetric':
        return '(AOptVec None)' if v is None else f'(AOptVec (Some {vec(v)}))'
    if k == 'get_truth_table':
        return f'(ATable {tbl(v)})'
    return f'(ABool {b(v)})'


def qres_list(qs, answers):
    if isinstance(answers, tuple):
        return None
    return ct.lst(f'({query_term(q)}, {ct.res(tuple(a), lambda v, q=q: answer_term(q, v))})'
                  for q, a in zip(qs, answers))


def bits(v):
    return '"' + ''.join('1' if x else '0' for x in v) + '"'


SHORT_ERR = {'PyIndexError': 'eI', 'PyValueError': 'eV', 'GateDoesntExistError': 'eG'}


def compact_answer(q, a):
    """one answer in the compact syntax of FuncProtoCases.v (bt bf eI eV eG av an ao aN atb)"""
    if a[0] == 'err':
        if a[1] in SHORT_ERR:
            return SHORT_ERR[a[1]]
        return '(Err UnmodelledPythonException)' if a[1].startswith('UNMODELLED') else f'(Err {a[1]})'
    k, v = q[0], a[1]
    if k in ('sizes', 'get_significant_inputs_of'):
        return f'(an {nats(v)})'
    if k == 'evaluate':
        return f'(av {bits(v)})'
    if k == 'find_negations_to_make_symmetric':
        return 'aN' if v is None else f'(ao {bits(v)})'
    if k == 'get_truth_table':
        return f'(atb {ct.lst(bits(r) for r in v)})'
    return 'bt' if v else 'bf'


def term_func(case, impl):
    """CFuncQ: the query list is `queries n m` of FuncProtoCases.v = queries(n, m) here, in this order"""
    qs = impl['queries']
    assert qs == queries(case['n'], case['m'])
    parts = []
    for name in CLASSES:
        a = impl['answers'][name]
        if isinstance(a, tuple):
            parts.append(f'(Err {a[1]})' if not a[1].startswith('UNMODELLED') else '(Err UnmodelledPythonException)')
        else:
            parts.append('(Ok ' + ct.lst(compact_answer(q, x) for q, x in zip(qs, a)) + ')')
    circ = ct.opt(impl['circuit'], ct.circuit)
    table = 'tb ' + ct.lst(bits(r) for r in case['table'])
    return f'(CFuncQ {case["n"]} ({table}) {circ} {parts[0]} {parts[1]} {parts[2]})'


# ------------------------------------------------------------------ the small kinds: implementation runs
def impl_iter(case):
    from cirbo.core.circuit.utils import input_iterator_with_fixed_sum
    n, k, negs = case['n'], case['k'], case['negs']

    def run():
        if negs is None:
            return [list(v) for v in input_iterator_with_fixed_sum(n, k)]
        return [list(v) for v in input_iterator_with_fixed_sum(n, k, negations=list(negs))]
    return call(run, ctable)


def impl_ttmake(case):
    from cirbo.core.truth_table import TruthTable

    def run():
        t = TruthTable([list(r) for r in case['table']])
        return t
    return call(run, lambda t: [t.input_size, t.output_size, ctable(t._table_t)])


def untri(table):
    from cirbo.core.logic import DontCare
    # every second don't-care is an EQUAL but NOT IDENTICAL object (pickle / copy of a model table)
    k = [0]

    def dc():
        k[0] += 1
        return DontCare if k[0] % 2 else copy.copy(DontCare)
    return [[dc() if v == '*' else v for v in row] for row in table]


def to_definition(d):
    return {(tuple(x), j): v for x, j, v in d}


def observe_defined(f, n):
    """what is recorded of the function returned by define"""
    tt = call(f.get_truth_table, ctable)
    evs = [[x, call(lambda x=x: f.evaluate(list(x)), cvec)] for x in vectors(n)]
    return [tt, evs]


def model_observations(mdl, n, m, defs, is_tt):
    checks = [[x, call(lambda x=x: mdl.check(list(x)), ctris)] for x in vectors(n)]
    checks.append([[True] * (n + 1), call(lambda: mdl.check([True] * (n + 1)), ctris)])
    check_ats = [[x, j, call(lambda x=x, j=j: mdl.check_at(list(x), j), ctri)]
                 for x in vectors(n) for j in range(m + 1)]
    mtt = call(mdl.get_model_truth_table, ctritable)
    dres = []
    for d in defs:
        try:
            f = mdl.define(to_definition(d))
        except Exception as e:  # noqa: BLE001
            dres.append([d, ['err', err_name(e)]])
            continue
        dres.append([d, ['ok', observe_defined(f, n)]])
    return {'checks': checks, 'check_ats': check_ats, 'mtt': mtt, 'defs': dres}


def impl_tmodel(case):
    from cirbo.core.truth_table import TruthTableModel
    try:
        mdl = TruthTableModel(untri(case['table']))
    except Exception as e:  # noqa: BLE001
        return {'sizes': ['err', err_name(e)]}
    n, m = mdl.input_size, mdl.output_size
    r = model_observations(mdl, n, m, case['defs'], True)
    r['sizes'] = ['ok', [n, m]]
    return r


def impl_pmodel(case):
    from cirbo.core.python_function import PyFunctionModel
    n, out = case['n'], case['out']
    try:
        mdl = PyFunctionModel(table_callable(untri(case['table'])), n, output_size=out)
    except Exception as e:  # noqa: BLE001
        return {'sizes': ['err', err_name(e)]}
    r = model_observations(mdl, mdl.input_size, mdl.output_size, case['defs'], False)
    r['sizes'] = ['ok', [mdl.input_size, mdl.output_size]]
    return r


def int_inputs(total):
    xs = vectors(total)
    if total > 0:
        xs.append([True] * (total - 1))
    xs.append([False] * (total + 1))
    return xs


def impl_intun(case):
    from cirbo.core.python_function import PyFunction
    t = case['tbl']
    try:
        p = PyFunction.from_int_unary_func(lambda i: t[i], case['in_len'], case['out_len'], big_endian=case['be'])
    except Exception as e:  # noqa: BLE001
        return {'sizes': ['err', err_name(e)]}
    return {'sizes': ['ok', [p.input_size, p.output_size]],
            'evs': [[x, call(lambda x=x: p.evaluate(list(x)), cvec)] for x in int_inputs(case['in_len'])]}


def impl_intbin(case):
    from cirbo.core.python_function import PyFunction
    t = case['tbl']
    try:
        p = PyFunction.from_int_binary_func(lambda i, j: t[i][j], case['in_len'], case['out_len'],
                                            big_endian=case['be'])
    except Exception as e:  # noqa: BLE001
        return {'sizes': ['err', err_name(e)]}
    return {'sizes': ['ok', [p.input_size, p.output_size]],
            'evs': [[x, call(lambda x=x: p.evaluate(list(x)), cvec)] for x in int_inputs(2 * case['in_len'])]}


def impl_utils(case):
    from cirbo.core import utils
    return {'i2c': [[x, utils.input_to_canonical_index(list(x))] for x in case['vecs']],
            'c2i': [[i, s, cvec(utils.canonical_index_to_input(i, s))] for i, s in case['c2i']],
            'gbv': [[v, i, s, call(lambda v=v, i=i, s=s: utils.get_bit_value(v, i, s), cbool)]
                    for v, i, s in case['gbv']]}


IMPL = {'func': impl_func, 'iter': impl_iter, 'ttmake': impl_ttmake, 'tmodel': impl_tmodel,
        'pmodel': impl_pmodel, 'intun': impl_intun, 'intbin': impl_intbin, 'utils': impl_utils}


def run_impl(case):
    """(case, implementation observations); never raises for an implementation error"""
    try:
        return IMPL[case['kind']](case)
    except RecursionError:
        raise
    except Exception as e:  # noqa: BLE001
        return {'crash': err_name(e) + ': ' + str(e)[:200]}


# ------------------------------------------------------------------ Coq terms of the small kinds
def R(r, okf):
    return ct.res(tuple(r), okf)


def optvec(v):
    return ct.opt(v, vec)


def def_term(d):
    return ct.lst(f'(({vec(x)}, {j}), {b(v)})' for x, j, v in d)


def sizes_term(r):
    return R(r, lambda s: f'({s[0]}, {s[1]})')


def evs_term(evs):
    return ct.lst(f'({vec(x)}, {R(r, vec)})' for x, r in evs)


def obs_term(o):
    tt, evs = o
    return f'({R(tt, tbl)}, {evs_term(evs)})'


def case_term(case, impl):
    k = case['kind']
    if 'crash' in impl:
        raise ValueError('implementation run crashed: ' + impl['crash'])
    if k == 'func':
        return term_func(case, impl)
    if k == 'iter':
        return f'(CIter {case["n"]} {case["k"]} {optvec(case["negs"])} {R(impl, tbl)})'
    if k == 'ttmake':
        return f'(CTTMake {tbl(case["table"])} {R(impl, lambda s: f"({s[0]}, {s[1]}, {tbl(s[2])})")})'
    if k in ('tmodel', 'pmodel'):
        if impl['sizes'][0] == 'err':
            rest = '[] [] ' + ('' if k == 'tmodel' else '(Err OutOfFuel) ') + '[]'
        else:
            checks = ct.lst(f'({vec(x)}, {R(r, tris)})' for x, r in impl['checks'])
            cats = ct.lst(f'({vec(x)}, {j}, {R(r, tri)})' for x, j, r in impl['check_ats'])
            if k == 'tmodel':
                defs = ct.lst(f'({def_term(d)}, {R(r, lambda o: f"({tbl(o[0][1])}, {evs_term(o[1])})")})'
                              if r[0] == 'err' or r[1][0][0] == 'ok' else
                              # a TruthTable whose get_truth_table raises does not exist; keep the case failing
                              f'({def_term(d)}, (Err OutOfFuel))'
                              for d, r in impl['defs'])
                rest = f'{checks} {cats} {defs}'
            else:
                defs = ct.lst(f'({def_term(d)}, {obs_term(r[1]) if r[0] == "ok" else "(Err OutOfFuel, [])"})'
                              for d, r in impl['defs'])
                rest = f'{checks} {cats} {R(impl["mtt"], tritbl)} {defs}'
        if k == 'tmodel':
            return f'(CTModel {tritbl(case["table"])} {sizes_term(impl["sizes"])} {rest})'
        return (f'(CPModel {tritbl(case["table"])} {case["n"]} {ct.opt(case["out"], str)} '
                f'{sizes_term(impl["sizes"])} {rest})')
    if k == 'intun':
        return (f'(CIntUnary {nats(case["tbl"])} {case["in_len"]} {case["out_len"]} {b(case["be"])} '
                f'{sizes_term(impl["sizes"])} {evs_term(impl.get("evs", []))})')
    if k == 'intbin':
        return (f'(CIntBinary {ct.lst(nats(r) for r in case["tbl"])} {case["in_len"]} {case["out_len"]} '
                f'{b(case["be"])} {sizes_term(impl["sizes"])} {evs_term(impl.get("evs", []))})')
    if k == 'utils':
        return (f'(CUtils {ct.lst(f"({vec(x)}, {i})" for x, i in impl["i2c"])} '
                f'{ct.lst(f"({i}, {s}, {vec(v)})" for i, s, v in impl["c2i"])} '
                f'{ct.lst(f"({v}, {i}, {s}, {R(r, b)})" for v, i, s, r in impl["gbv"])})')
    raise ValueError(k)


# ------------------------------------------------------------------ the direct oracle: the property itself
def perm_apply(p, x):
    return [x[i] for i in p]


def spec(n, m, table):
    """the mathematical definitions, evaluated on the truth table"""
    vs = vectors(n)
    val = lambda j, x: table[j][index_of(x)]  # noqa: E731
    S = {}
    for j in range(m):
        row = table[j]
        S['is_constant_at', j] = all(v == row[0] for v in row)
        S['is_monotone_at', j, False] = all(row[a] <= row[c] for a in range(len(row)) for c in range(a, len(row)))
        S['is_monotone_at', j, True] = all(row[a] >= row[c] for a in range(len(row)) for c in range(a, len(row)))
        S['is_symmetric_at', j] = all(val(j, x) == val(j, perm_apply(p, x))
                                      for x in vs for p in itertools.permutations(range(n)))
        for i in range(n):
            S['is_dependent_on_input_at', j, i] = any(
                val(j, x) != val(j, x[:i] + [not x[i]] + x[i + 1:]) for x in vs)
            S['is_output_equal_to_input', j, i] = all(val(j, x) == x[i] for x in vs)
            S['is_output_equal_to_input_negation', j, i] = all(val(j, x) == (not x[i]) for x in vs)
        S['get_significant_inputs_of', j] = [i for i in range(n) if S['is_dependent_on_input_at', j, i]]
    S['is_constant',] = all(S['is_constant_at', j] for j in range(m))
    S['is_symmetric',] = all(S['is_symmetric_at', j] for j in range(m))
    for inv in (False, True):
        S['is_monotone', inv] = all(S['is_monotone_at', j, inv] for j in range(m))
    for x in vs:
        S['evaluate', tuple(x)] = [table[j][index_of(x)] for j in range(m)]
        for j in range(m):
            S['evaluate_at', tuple(x), j] = table[j][index_of(x)]
    S['get_truth_table',] = [list(r) for r in table]
    S['sizes',] = [n, m]
    return S


def negations_ok(n, table, outs, negs):
    """x |-> f(x xor negs) is invariant under input permutations on the selected outputs"""
    vs = vectors(n)
    g = lambda j, x: table[j][index_of([a != c for a, c in zip(x, negs)])]  # noqa: E731
    return all(g(j, x) == g(j, perm_apply(p, x)) for j in outs for x in vs
               for p in itertools.permutations(range(n)))


def qkey(q):
    return tuple(tuple(a) if isinstance(a, list) else a for a in q)


def oracle_func(case):
    n, m, table = case['n'], case['m'], case['table']
    impl = impl_func(case)
    S = spec(n, m, table)
    qs = impl['queries']
    per_class = {}
    for name in CLASSES:
        ans = impl['answers'][name]
        if isinstance(ans, tuple):
            return f'{name}: cannot represent the function: constructor raised {ans[1]}'
        if impl['alias'].get(name):
            return f'{name}.protocol: {impl["alias"][name]}'
        per_class[name] = ans
        for q, a in zip(qs, ans):
            k = qkey(q)
            if q[0] == 'find_negations_to_make_symmetric':
                if any(j >= m for j in q[1]):
                    continue
                exists = any(negations_ok(n, table, q[1], list(g)) for g in vectors(n))
                if a[0] != 'ok':
                    return f'{name}.{q[0]}: {q[1:]} raised {a[1]}'
                if a[1] is None and exists:
                    return f'{name}.{q[0]}: {q[1:]} answered None but negations exist'
                if a[1] is not None and (len(a[1]) != n or not negations_ok(n, table, q[1], a[1])):
                    return f'{name}.{q[0]}: {q[1:]} answered {a[1]} which does not make the outputs symmetric'
                continue
            if k not in S:
                continue        # an index argument outside the function's arities
            if a[0] != 'ok':
                return f'{name}.{q[0]}: {q[1:]} raised {a[1]}, the definition gives {S[k]}'
            if a[1] != S[k]:
                return f'{name}.{q[0]}: {q[1:]} answered {a[1]}, the definition gives {S[k]}'
    if impl.get('alt'):
        return impl['alt']
    # the three representations answer alike (implied above except for the witnesses of find_negations)
    for i, q in enumerate(qs):
        if qkey(q) in S or (q[0] == 'find_negations_to_make_symmetric' and all(j < m for j in q[1])):
            a = [per_class[c][i] for c in CLASSES]
            if q[0] == 'find_negations_to_make_symmetric':
                # any valid witness is an answer (each one was validated above): agreement = existence
                a = [(x[0], x[1] is None) if x[0] == 'ok' else x for x in a]
            if not (a[0] == a[1] == a[2]):
                return f'agreement.{q[0]}: {q[1:]} Circuit/TruthTable/PyFunction answered {a}'
    return None


def oracle_iter(case):
    n, k, negs = case['n'], case['k'], case['negs']
    if negs is not None and len(negs) != n:
        return None
    r = impl_iter(case)
    if r[0] != 'ok':
        return f'iterator.input_iterator_with_fixed_sum: ({n},{k},{negs}) raised {r[1]}'
    g = negs if negs is not None else [False] * n
    want = sorted(x for x in vectors(n) if sum(a != c for a, c in zip(x, g)) == k)
    if sorted(r[1]) != want:
        return (f'iterator.input_iterator_with_fixed_sum: ({n},{k},{negs}) yields {r[1]}, expected exactly '
                f'the vectors with popcount(x xor negations) = {k}, each once')
    return None


def complete_definition(table, d, n):
    """does d give a value to every don't-care position (and only name positions of the table)"""
    keys = {(tuple(x), j) for x, j, _ in d}
    if any(len(x) != n or j >= len(table) for x, j in keys):
        return False
    return all((tuple(x), j) in keys for j, row in enumerate(table) for x in vectors(n) if row[index_of(x)] == '*')


def oracle_model(case, impl, cls):
    table = case['table']
    if impl['sizes'][0] != 'ok':
        return None
    n, m = impl['sizes'][1]
    if any(len(r) != 2 ** n for r in table) or m != len(table):
        return None
    # check / check_at / get_model_truth_table report the model
    for x, r in impl['checks']:
        if len(x) == n and r != ['ok', [row[index_of(x)] for row in table]]:
            return f'{cls}.check: {x} gave {r}'
    for x, j, r in impl['check_ats']:
        if j < m and r != ['ok', table[j][index_of(x)]]:
            return f'{cls}.check_at: {x},{j} gave {r}'
    if impl['mtt'] != ['ok', [list(r) for r in table]]:
        return f'{cls}.get_model_truth_table: gave {impl["mtt"]}'
    for d, r in impl['defs']:
        if not complete_definition(table, d, n):
            continue
        dd = {(tuple(x), j): v for x, j, v in d}
        if r[0] != 'ok':
            return f'{cls}.define: complete definition {d} raised {r[1]}'
        tt, evs = r[1]
        want = [[(row[index_of(x)] if row[index_of(x)] != '*' else dd[tuple(x), j]) for x in vectors(n)]
                for j, row in enumerate(table)]
        if tt != ['ok', want]:
            return (f'{cls}.define: model {table} completed by {d} has truth table {tt}, expected {want} '
                    f'(the model where it is defined, the definition elsewhere)')
        for x, e in evs:
            if e != ['ok', [want[j][index_of(x)] for j in range(m)]]:
                return f'{cls}.define: completed function evaluates {x} to {e}'
    return None


def bits_value(v, big_endian):
    v = list(v) if big_endian else list(v)[::-1]
    return sum((1 << i) for i, bit in enumerate(reversed(v)) if bit)


def oracle_int(case, impl):
    name = 'from_int_unary_func' if case['kind'] == 'intun' else 'from_int_binary_func'
    il, ol, be, t = case['in_len'], case['out_len'], case['be'], case['tbl']
    total = il if case['kind'] == 'intun' else 2 * il
    if impl['sizes'] != ['ok', [total, ol]]:
        return f'wrapper.{name}: sizes {impl["sizes"]}, expected {[total, ol]} (in_len={il}, out_len={ol})'
    for x, r in impl['evs']:
        if len(x) != total:
            continue
        if case['kind'] == 'intun':
            want = t[bits_value(x, be)]
        else:
            want = t[bits_value(x[:il], be)][bits_value(x[il:], be)]
        if r[0] != 'ok':
            return f'wrapper.{name}: evaluate({x}) raised {r[1]}'
        if len(r[1]) != ol or bits_value(r[1], be) != want % (2 ** ol):
            return (f'wrapper.{name}: evaluate({x}) = {r[1]} (big_endian={be}); the stated bit order gives '
                    f'{want} mod 2^{ol}')
    return None


def oracle_sigwide(case):
    """get_significant_inputs_of on circuits with 9-11 inputs whose outputs read two or three inputs (one of them with
    index >= 8): Circuit, the TruthTable of the same function and the definition (the inputs the output depends on,
    in increasing order) must agree"""
    import random
    from cirbo.core.circuit import Circuit, gate as G
    from cirbo.core.truth_table import TruthTable
    rng = random.Random(case['seed'])
    n = case['n']
    c = Circuit()
    ins = [f'x{i}' for i in range(n)]
    c.add_inputs(ins)
    outs = []
    for k in range(3):
        sup = sorted(rng.sample(range(n - 3), rng.choice([1, 2])) + [rng.randrange(8, n)], reverse=bool(k % 2))
        cur = ins[sup[0]]
        for j, i in enumerate(sup[1:]):
            l = f'g{k}_{j}'
            c.emplace_gate(l, rng.choice([G.AND, G.OR, G.XOR, G.GT]), (cur, ins[i]))
            cur = l
        outs.append((cur, sorted(sup)))
        c.mark_as_output(cur)
    try:
        tt = TruthTable(c.get_truth_table())
        for j, (_, sup) in enumerate(outs):
            got_c = list(c.get_significant_inputs_of(j))
            got_t = list(tt.get_significant_inputs_of(j))
            want = [i for i in sup if any(
                c.evaluate_at([bool((v >> p) & 1) if q != i else False for q, p in ((q, sup.index(q) if q in sup else 0) for q in range(n))], j)
                != c.evaluate_at([bool((v >> p) & 1) if q != i else True for q, p in ((q, sup.index(q) if q in sup else 0) for q in range(n))], j)
                for v in range(1 << len(sup)))]
            if got_t != want:
                return f'TruthTable.get_significant_inputs_of: {n} inputs, output {j}: {got_t}, the definition gives {want}'
            if got_c != want:
                return (f'Circuit.get_significant_inputs_of: {n} inputs, output {j} reads {sup}: answered {got_c}, '
                        f'TruthTable and the definition give {want}')
    except Exception as e:  # noqa: BLE001
        return f'Circuit.get_significant_inputs_of: raised {type(e).__name__} on a circuit with {n} inputs'
    return None


SIGWIDE_CASES = [{'kind': 'sigwide', 'n': n, 'seed': s} for n in (9, 10, 11) for s in range(3)]
SYMWIDE_CASES = [{'kind': 'symwide', 'n': n, 'f': f} for n in (9, 10, 11)
                 for f in ('proj0', 'projlast', 'and01', 'x0_and_two', 'parity', 'threshold3')]


def oracle_symwide(case):
    """symmetry queries of TruthTable on 9-11 inputs (beyond what the permutation spec can tabulate), on functions
    whose symmetry is known by construction; output 1 is always the parity (symmetric)"""
    from cirbo.core.truth_table import TruthTable
    n, f = case['n'], case['f']
    bit = lambda j, i: (j >> (n - 1 - i)) & 1          # noqa: E731  input 0 is the most significant bit of the index
    pc = lambda j: bin(j).count('1')                   # noqa: E731
    fn, sym = {'proj0': (lambda j: bit(j, 0) == 1, False), 'projlast': (lambda j: bit(j, n - 1) == 1, False),
               'and01': (lambda j: bit(j, 0) == 1 and bit(j, 1) == 1, False),
               'x0_and_two': (lambda j: bit(j, 0) == 1 and pc(j) >= 2, False),
               'parity': (lambda j: pc(j) % 2 == 1, True), 'threshold3': (lambda j: pc(j) >= 3, True)}[f]
    table = [[bool(fn(j)) for j in range(2 ** n)], [pc(j) % 2 == 1 for j in range(2 ** n)]]
    try:
        tt = TruthTable(table)
        got = (tt.is_symmetric(), tt.is_symmetric_at(0), tt.is_symmetric_at(1))
    except Exception as e:  # noqa: BLE001
        return f'TruthTable: symmetry query raised {err_name(e)} on the {n}-input function {f}'
    if got != (sym, sym, True):
        return (f'TruthTable.is_symmetric: on the {n}-input function ({f}, parity) the answers (is_symmetric, '
                f'is_symmetric_at(0), is_symmetric_at(1)) are {got}, the definition gives {(sym, sym, True)}')
    return None


WIDE_CASES = [{'kind': 'intwide', 'op': op, 'in_len': il, 'out_len': ol, 'be': be}
              for op, il, ol in (('mul', 32, 64), ('mul', 40, 80), ('sq', 33, 66), ('add', 60, 61), ('id', 64, 64))
              for be in (False, True)]


def oracle_intwide(case):
    """integer wrappers on operands far beyond what can be tabulated (values of 2^53 and more: nothing in the
    wrapper may go through floating point): evaluate on chosen vectors against Python integer arithmetic"""
    import random
    from cirbo.core.python_function import PyFunction
    op, il, ol, be = case['op'], case['in_len'], case['out_len'], case['be']
    rng = random.Random(il * 1000 + ol + be)
    fns = {'mul': lambda x, y: x * y, 'add': lambda x, y: x + y}
    vals = [0, 1, (1 << il) - 1, (1 << il) - 2, (1 << (il - 1)) + 1, 0x5555555555555555555555 % (1 << il)] + \
           [rng.getrandbits(il) for _ in range(6)]

    def bits(v, n):
        b = [bool((v >> (n - 1 - k)) & 1) for k in range(n)]
        return b if be else b[::-1]
    try:
        if op in fns:
            p = PyFunction.from_int_binary_func(fns[op], il, ol, big_endian=be)
            for x in vals:
                for y in vals[:6]:
                    got = p.evaluate(bits(x, il) + bits(y, il))
                    if list(got) != bits(fns[op](x, y) % (1 << ol), ol):
                        return (f'wrapper.from_int_binary_func: {op} of {il}-bit operands {x}, {y} (big_endian={be}) '
                                f'gives bits of {bits_value(got, be)}, not {fns[op](x, y) % (1 << ol)}')
        else:
            f = (lambda x: x * x) if op == 'sq' else (lambda x: x)
            p = PyFunction.from_int_unary_func(f, il, ol, big_endian=be)
            for x in vals:
                got = p.evaluate(bits(x, il))
                if list(got) != bits(f(x) % (1 << ol), ol):
                    return (f'wrapper.from_int_unary_func: {op} of the {il}-bit operand {x} (big_endian={be}) gives '
                            f'bits of {bits_value(got, be)}, not {f(x) % (1 << ol)}')
    except Exception as e:  # noqa: BLE001
        return f'wrapper.wide: raised {type(e).__name__}: {e}'
    return None


def oracle_utils(case):
    from cirbo.core import utils
    for s_, i_ in ((54, (1 << 53) + 1), (64, (1 << 64) - 1), (64, (1 << 63) + 12345), (80, 3 ** 50), (100, (1 << 99) + 1)):
        want = [bool((i_ >> (s_ - 1 - k)) & 1) for k in range(s_)]
        r = call(lambda: list(utils.canonical_index_to_input(i_, s_)), cvec)
        if r != ['ok', want]:
            return f'utils.canonical_index_to_input: ({i_},{s_}) is not the {s_}-bit big-endian binary form of the index'
        r = call(lambda: utils.input_to_canonical_index(list(want)), lambda v: v)
        if r != ['ok', i_]:
            return f'utils.input_to_canonical_index: the {s_}-bit form of {i_} gave {r}'
    for n in range(0, 5):
        for i, x in enumerate(vectors(n)):
            r = call(lambda: utils.input_to_canonical_index(list(x)), lambda v: v)
            if r != ['ok', i]:
                return f'utils.input_to_canonical_index: {x} gave {r}, position in the enumeration is {i}'
            r = call(lambda: list(utils.canonical_index_to_input(i, n)), cvec)
            if r != ['ok', x]:
                return f'utils.canonical_index_to_input: ({i},{n}) gave {r}, expected {x}'
            for bit in range(n):
                r = call(lambda: utils.get_bit_value(i, bit, n), cbool)
                if r != ['ok', x[bit]]:
                    return f'utils.get_bit_value: ({i},{bit},{n}) gave {r}, expected {x[bit]}'
    return None


def oracle(case):
    k = case['kind']
    if k == 'func':
        return oracle_func(case)
    if k == 'iter':
        return oracle_iter(case)
    if k == 'tmodel':
        return oracle_model(case, run_impl(case), 'TruthTableModel')
    if k == 'pmodel':
        return oracle_model(case, run_impl(case), 'PyFunctionModel')
    if k in ('intun', 'intbin'):
        return oracle_int(case, run_impl(case))
    if k == 'utils':
        return oracle_utils(case)
    if k == 'intwide':
        return oracle_intwide(case)
    if k == 'sigwide':
        return oracle_sigwide(case)
    if k == 'symwide':
        return oracle_symwide(case)
    return None


# ------------------------------------------------------------------ generators
def all_tables(n, m):
    rows = [list(r) for r in itertools.product((False, True), repeat=2 ** n)]
    for combo in itertools.product(rows, repeat=m):
        yield [list(r) for r in combo]


def func_case(n, m, table):
    return {'kind': 'func', 'n': n, 'm': m, 'table': table}


def func_cases(rng, sample_32, exhaustive_32):
    cases = []
    for n, m in ((0, 1), (0, 2), (1, 1), (1, 2), (2, 1), (2, 2), (3, 1)):
        cases += [func_case(n, m, t) for t in all_tables(n, m)]
    if exhaustive_32:
        cases += [func_case(3, 2, t) for t in all_tables(3, 2)]
    else:
        seen = set()
        while len(seen) < sample_32:
            seen.add(rng.getrandbits(16))
        for code in sorted(seen):
            bits = [bool((code >> i) & 1) for i in range(16)]
            cases.append(func_case(3, 2, [bits[:8], bits[8:]]))
    return cases


def random_tri_table(rng, n, m):
    dens = rng.choice([0.0, 0.2, 0.5, 0.8, 1.0])
    return [[('*' if rng.random() < dens else rng.random() < 0.5) for _ in range(2 ** n)] for _ in range(m)]


def random_definitions(rng, table, n, count):
    """complete, complete with redundant entries on defined positions, and incomplete definitions"""
    vs = vectors(n)
    free = [(x, j) for j, row in enumerate(table) for x in vs if row[index_of(x)] == '*']
    fixed = [(x, j) for j, row in enumerate(table) for x in vs if row[index_of(x)] != '*']
    defs = []
    for c in range(count):
        d = [[x, j, rng.random() < 0.5] for x, j in free]
        mode = c % 3
        if mode == 1 and fixed:   # also names positions the model already fixes (with either value)
            for x, j in rng.sample(fixed, rng.randint(1, len(fixed))):
                d.append([x, j, rng.random() < 0.5])
        if mode == 2 and d:       # incomplete
            for _ in range(rng.randint(1, len(d))):
                d.pop(rng.randrange(len(d)))
        rng.shuffle(d)
        defs.append(d)
    return defs


def model_cases(rng, count):
    cases = []
    # the smallest witnesses of a model that fixes a value which the definition names again
    for v, w in ((False, True), (True, False)):
        t = [[v, '*']]
        d = [[[[False], 0, w], [[True], 0, True]]]
        cases.append({'kind': 'tmodel', 'table': t, 'defs': d})
        cases.append({'kind': 'pmodel', 'table': t, 'n': 1, 'out': None, 'defs': d})
    shapes = [(0, 1), (1, 1), (1, 2), (2, 1), (2, 2), (3, 1), (3, 2)]
    for c in range(count):
        n, m = shapes[c % len(shapes)]
        table = random_tri_table(rng, n, m)
        defs = random_definitions(rng, table, n, 6)
        cases.append({'kind': 'tmodel', 'table': table, 'defs': defs})
        cases.append({'kind': 'pmodel', 'table': table, 'n': n, 'out': rng.choice([None, m]), 'defs': defs})
    # badly shaped model tables
    for t in ([[True, '*', False]], [[]], [], [[True, '*'], ['*']]):
        cases.append({'kind': 'tmodel', 'table': t, 'defs': []})
    return cases


def shrink(case, msg):
    """keep one definition of a model case if that alone still fails"""
    if case.get('kind') in ('tmodel', 'pmodel') and len(case.get('defs', [])) > 1:
        for d in case['defs']:
            c = dict(case, defs=[d])
            m = oracle(c)
            if m:
                return c, m
    return case, msg


def misc_cases(rng, quick):
    cases = [{'kind': 'utils',
              'vecs': [x for n in range(0, 5) for x in vectors(n)],
              'c2i': [[i, s] for s in range(0, 5) for i in range(0, 2 ** s + 3)],
              'gbv': [[v, i, s] for s in range(0, 4) for v in range(0, 2 ** s) for i in range(0, s + 2)]}]
    for n in range(0, 6 if quick else 7):
        for k in range(0, n + 2):
            cases.append({'kind': 'iter', 'n': n, 'k': k, 'negs': None})
            for _ in range(2 if quick else 6):
                cases.append({'kind': 'iter', 'n': n, 'k': k, 'negs': [rng.random() < 0.5 for _ in range(n)]})
            if n > 0:
                cases.append({'kind': 'iter', 'n': n, 'k': k, 'negs': [True] * (n - 1)})
            cases.append({'kind': 'iter', 'n': n, 'k': k, 'negs': [True] * (n + 1)})
    for t in ([], [[]], [[True, False, True]], [[True, False], [True]], [[True], [True, False]],
              [[True]], [[True], [False]], [[False, True, True, False], [True, True, False, False]]):
        cases.append({'kind': 'ttmake', 'table': t})
    for il in range(0, 4):
        for ol in range(0, 5):
            for be in (False, True):
                for _ in range(1 if quick else 3):
                    cases.append({'kind': 'intun', 'in_len': il, 'out_len': ol, 'be': be,
                                  'tbl': [rng.randrange(0, 2 ** (ol + 1) + 1) for _ in range(2 ** il)]})
    for il in range(0, 3):
        for ol in range(0, 5):
            for be in (False, True):
                cases.append({'kind': 'intbin', 'in_len': il, 'out_len': ol, 'be': be,
                              'tbl': [[rng.randrange(0, 2 ** (ol + 1) + 1) for _ in range(2 ** il)]
                                      for _ in range(2 ** il)]})
    return cases
