"""Correspondence (netlist equality) and direct oracle for the multipliers and squarers of C08.

A case is JSON:  {'host': circuit dump, 'k0': first uuid number, 'call': [kind, args...]}
or, for the generate_* wrappers, {'gen': [kind, args...], 'k0': ...}.

  ['mul', fn, a, b, big_endian]     fn in FNS (the six modes, add_mul_karatsuba over add_mul_pow2_m1, and the
                                    private last_step_sum_with_new_powers_sum)
  ['square', mode, x, big_endian]   mode in ('DEFAULT', 'POW2_M1'): add_square / add_square_pow2_m1
  ['gmul', n, m, mode, big_endian]  generate_mul(n, m, type=MulMode[mode])
  ['gsquare', n, mode, big_endian]  generate_square(n, type=SquareMode[mode])

Labels: as for C07 (harness/sumcorr.py): the weighted sums order their work lists by label STRING, so
both sides are compared after the order-preserving renaming 'new_%032x' % j -> 'new_%04x' % j.

Two evaluators of the model:
  * inside Coq (vm_compute over generated case files, framework.coqrun.run_cases): full comparison of
    returned labels, circuit state and uuid counter through Model/MulCases.v check_mul_case;
  * for the large netlists (10^3 - 10^4 gates) the SAME Gallina functions extracted to OCaml
    (Extraction with ExtrOcamlBasic + ExtrOcamlString only; the driver below is built inside the check):
    the driver prints the model's result as text lines (returned labels, every gate with type and operands in
    gate-map order, every users list in order, inputs, outputs, counter) and the harness compares them
    with the same lines computed from the implementation's state: exact netlist equality.
"""
import hashlib
import os
import pathlib
import random
import subprocess

from . import arithcorr as ac
from . import coqterm as ct
from . import env
from . import sumcorr as sc

HEADER = ('Require Import Cirbo.Model.Base Cirbo.Model.Gate Cirbo.Model.Circuit Cirbo.Model.History '
          'Cirbo.Model.Builder Cirbo.Generated.ArithTables Cirbo.Model.ArithMul Cirbo.Model.ArithSquare '
          'Cirbo.Model.MulCases.')
CASE_TYPE = 'mul_case'
GEN_CASE_TYPE = 'mgen_case'

FNS = {'add_mul': 'FMul', 'add_mul_alter': 'FAlter', 'add_mul_dadda': 'FDadda', 'add_mul_wallace': 'FWallace',
       'add_mul_pow2_m1': 'FPow2m1', 'add_mul_karatsuba': 'FKaratsuba',
       'add_mul_karatsuba_with_efficient_sum': 'FKaratsubaEff',
       'last_step_sum_with_new_powers_sum': 'FLastStep'}
PUBLIC_FNS = [f for f in FNS if f != 'last_step_sum_with_new_powers_sum']
MUL_MODES = {'DEFAULT': 'MDefault', 'KARATSUBA': 'MKaratsuba', 'ALTER': 'MAlter', 'DADDA': 'MDadda',
             'WALLACE': 'MWallace', 'POW2_M1': 'MPow2m1'}
SQ_MODES = {'DEFAULT': 'SDefault', 'POW2_M1': 'SPow2m1'}
SQ_FNS = {'DEFAULT': 'add_square', 'POW2_M1': 'add_square_pow2_m1'}

ren = sc.ren
ren_dump = sc.ren_dump


# ------------------------------------------------------------------ running the implementation
def _mods():
    from cirbo.synthesis.generation.arithmetics import multiplication, square
    return multiplication, square


def call_impl(c, call):
    """operand lists are real list objects, the same object when equal; no generator may modify them"""
    M, SQ = _mods()

    def run(L):
        if call[0] == 'mul':
            return list(getattr(M, call[1])(c, L(call[2]), L(call[3]), big_endian=call[4]))
        if call[0] == 'square':
            return list(getattr(SQ, SQ_FNS[call[1]])(c, L(call[2]), big_endian=call[3]))
        raise ValueError(call[0])
    return ac.hand_over(call[1], run)


def run_impl(case):
    """-> (('ok', (labels, dump_after, counter)) | ('err', name), circuit after)"""
    c = ct.build_circuit(case['host'])
    env.uuid_counter.n = case['k0'] - 1
    try:
        labels = call_impl(c, case['call'])
    except RecursionError:
        raise
    except Exception as e:  # noqa: BLE001
        return ('err', ac.err_name(e)), c
    return ('ok', (labels, ct.dump_circuit(c), env.uuid_counter.n + 1)), c


def gen_impl(gen):
    M, SQ = _mods()
    if gen[0] == 'gmul':
        return M.generate_mul(gen[1], gen[2], type=M.MulMode[gen[3]], big_endian=gen[4])
    if gen[0] == 'gsquare':
        return SQ.generate_square(gen[1], type=SQ.SquareMode[gen[2]], big_endian=gen[3])
    raise ValueError(gen[0])




def run_gen(case):
    env.uuid_counter.n = case['k0'] - 1
    try:
        c = gen_impl(case['gen'])
        ok, d1, c = ac.fresh_on_every_call(case, c, lambda: gen_impl(case['gen']))
    except RecursionError:
        raise
    except Exception as e:  # noqa: BLE001
        return ('err', ac.err_name(e)), None
    if not ok:
        return ('err', ac.SHARED_STATE), None
    return ('ok', d1), c


# ------------------------------------------------------------------ Coq terms
L = sc.L
B = sc.B


def call_term(call):
    if call[0] == 'mul':
        return f'(MCMul {FNS[call[1]]} {L(call[2])} {L(call[3])} {B(call[4])})'
    return f'(MCSquare {SQ_MODES[call[1]]} {L(call[2])} {B(call[3])})'


def case_term(case, result):
    host = ct.circuit(ren_dump(case['host']))

    def okf(v):
        labels, dump, k = v
        return f'({L(labels)}, {ct.circuit(ren_dump(dump))}, {k}%N)'
    return f'({host}, {case["k0"]}%N, {call_term(case["call"])}, {ct.res(result, okf)})'


def gen_inputs(gen):
    n = gen[1] + gen[2] if gen[0] == 'gmul' else gen[1]
    return [str(i) for i in range(n)]


def gen_term(gen):
    ins = L(gen_inputs(gen))
    if gen[0] == 'gmul':
        return f'(GMul {ins} {gen[1]} {MUL_MODES[gen[3]]} {B(gen[4])})'
    return f'(GSquare {ins} {SQ_MODES[gen[2]]} {B(gen[3])})'


def gen_case_term(case, result):
    return f'({case["k0"]}%N, {gen_term(case["gen"])}, {ct.res(result, lambda d: ct.circuit(ren_dump(d)))})'


# ------------------------------------------------------------------ the extracted model (large netlists)
EXTRACT_V = '''Require Import Cirbo.Model.Base Cirbo.Model.Gate Cirbo.Model.Circuit Cirbo.Model.Builder
  Cirbo.Model.ArithMul Cirbo.Model.ArithSquare Cirbo.Model.MulCases.
Require Import ExtrOcamlBasic ExtrOcamlString.
Extraction Language OCaml.
Extraction "mulmodel.ml" circuit_with_inputs run_mul_case.
'''

DRIVER_ML = r'''(* reads lines "mul <FN> <n> <m> <be> <k0>" / "square <MODE> <n> <be> <k0>" (bare circuit with the
   inputs "0".."n+m-1"), runs the extracted model and prints its result as text *)
open Mulmodel
let explode s = List.init (String.length s) (String.get s)
let implode l = String.of_seq (List.to_seq l)
let rec pos_of_int i = if i = 1 then XH else if i land 1 = 0 then XO (pos_of_int (i lsr 1)) else XI (pos_of_int (i lsr 1))
let n_of_int i = if i = 0 then N0 else Npos (pos_of_int i)
let rec int_of_pos = function XH -> 1 | XO p -> 2 * int_of_pos p | XI p -> 2 * int_of_pos p + 1
let int_of_n = function N0 -> 0 | Npos p -> int_of_pos p
let labels lo hi = List.init (hi - lo) (fun i -> explode (string_of_int (lo + i)))
let fn_of = function
  | "FMul" -> FMul | "FAlter" -> FAlter | "FDadda" -> FDadda | "FWallace" -> FWallace | "FPow2m1" -> FPow2m1
  | "FKaratsuba" -> FKaratsuba | "FKaratsubaEff" -> FKaratsubaEff | "FLastStep" -> FLastStep
  | s -> failwith s
let tname = function
  | INPUT -> "INPUT" | ALWAYS_TRUE -> "ALWAYS_TRUE" | ALWAYS_FALSE -> "ALWAYS_FALSE" | AND -> "AND" | GEQ -> "GEQ"
  | GT -> "GT" | IFF -> "IFF" | LEQ -> "LEQ" | LIFF -> "LIFF" | LNOT -> "LNOT" | LT -> "LT" | NAND -> "NAND"
  | NOR -> "NOR" | NOT -> "NOT" | NXOR -> "NXOR" | OR -> "OR" | RIFF -> "RIFF" | RNOT -> "RNOT" | XOR -> "XOR"
let line tag ls = print_string tag; List.iter (fun l -> print_char ' '; print_string (implode l)) ls; print_newline ()
let () =
  try
    while true do
      let w = String.split_on_char ' ' (input_line stdin) in
      let (n, call, k0) = match w with
        | ["mul"; f; n; m; be; k0] ->
          let n = int_of_string n and m = int_of_string m in
          (n + m, MCMul (fn_of f, labels 0 n, labels n (n + m), be = "1"), int_of_string k0)
        | ["square"; t; n; be; k0] ->
          let n = int_of_string n in
          (n, MCSquare ((if t = "SDefault" then SDefault else SPow2m1), labels 0 n, be = "1"), int_of_string k0)
        | _ -> failwith "bad line" in
      print_endline "BEGIN";
      (match circuit_with_inputs (labels 0 n) with
       | Err _ -> print_endline "E host"
       | Ok host ->
         match run_mul_case host (n_of_int k0) call with
         | Err _ -> print_endline "E"
         | Ok ((res, c), k) ->
           line "R" res;
           List.iter (fun (l, g) -> line ("G " ^ implode l ^ " " ^ tname g.gtyp) g.gops) c.gates;
           List.iter (fun (l, us) -> line ("U " ^ implode l) us) c.users;
           line "I" c.inputs; line "O" c.outputs;
           Printf.printf "B %d\n" (List.length c.blocks);
           Printf.printf "K %d\n" (int_of_n k));
      print_endline "END"
    done
  with End_of_file -> ()
'''


def build_driver(coq_dir: pathlib.Path, prop_id='C08'):
    """extract the model and compile the driver; returns the path of the executable.
    Rebuilt whenever the compiled model files changed."""
    d = coq_dir / 'Corr' / prop_id / 'extract'
    d.mkdir(parents=True, exist_ok=True)
    vos = [coq_dir / 'Model' / f for f in ('MulCases.vo', 'ArithMul.vo', 'ArithSquare.vo', 'ArithSumW.vo',
                                           'ArithSumN.vo', 'Circuit.vo', 'Builder.vo')]
    h = hashlib.sha1()
    for v in vos:
        h.update(v.read_bytes())
    h.update(EXTRACT_V.encode())
    h.update(DRIVER_ML.encode())
    stamp = d / 'stamp'
    exe = d / 'muldriver'
    if exe.exists() and stamp.exists() and stamp.read_text() == h.hexdigest():
        return exe
    (d / 'extract_mul.v').write_text(EXTRACT_V)
    (d / 'driver.ml').write_text(DRIVER_ML)
    for cmd in (['timeout', '600', 'coqc', '-Q', str(coq_dir), 'Cirbo', 'extract_mul.v'],
                ['timeout', '600', 'ocamlfind', 'ocamlopt', '-w', '-a', '-O2', 'mulmodel.mli', 'mulmodel.ml',
                 'driver.ml', '-o', 'muldriver']):
        p = subprocess.run(cmd, cwd=d, capture_output=True, text=True)
        if p.returncode != 0:
            raise RuntimeError('building the extracted model failed: ' + (p.stdout + p.stderr)[-1500:])
    stamp.write_text(h.hexdigest())
    return exe


def bare_line(case):
    call = case['call']
    be = '1' if call[-1] else '0'
    if call[0] == 'mul':
        return f'mul {FNS[call[1]]} {len(call[2])} {len(call[3])} {be} {case["k0"]}'
    return f'square {SQ_MODES[call[1]]} {len(call[2])} {be} {case["k0"]}'


def impl_lines(result):
    if result[0] != 'ok':
        return ['E']
    labels, dump, k = result[1]
    d = ren_dump(dump)
    out = [' '.join(['R'] + [ren(x) for x in labels])]
    out += [' '.join(['G', g, t] + list(ops)) for g, t, ops in d['gates']]
    out += [' '.join(['U', g] + list(us)) for g, us in d['users']]
    out.append(' '.join(['I'] + d['inputs']))
    out.append(' '.join(['O'] + d['outputs']))
    out.append(f'B {len(d["blocks"])}')
    out.append(f'K {k}')
    return out


def _case_size(case):
    call = case['call']
    return max(len(call[2]), len(call[3])) if call[0] == 'mul' else len(call[2]) * 3 // 4


def run_driver(exe, cases, jobs=16):
    """run the extracted model on bare-circuit cases (one process per case, largest first);
    returns one list of lines per case"""
    from concurrent.futures import ThreadPoolExecutor

    def one(i):
        p = subprocess.run(['timeout', '1500', str(exe)], input=bare_line(cases[i]) + '\n', capture_output=True,
                           text=True)
        lines = [ln.rstrip() for ln in p.stdout.splitlines()]
        if p.returncode != 0 or lines[:1] != ['BEGIN'] or lines[-1:] != ['END']:
            return [f'driver failed (exit {p.returncode}): ' + p.stderr[-300:]]
        return lines[1:-1]
    order = sorted(range(len(cases)), key=lambda i: -_case_size(cases[i]))
    out = [None] * len(cases)
    with ThreadPoolExecutor(jobs) as ex:
        for i, r in zip(order, ex.map(one, order)):
            out[i] = r
    return out


# ------------------------------------------------------------------ case generators
k0_of = sc.k0_of


def mk_mul(rng, fn, n, m, on_host, be, variant=None, k0=None):
    k0 = k0_of(rng) if k0 is None else k0
    host = ac.mk_host(rng, n + m, on_host, k0)
    if on_host:
        if variant == 'same':
            a = ac.pick(rng, host, n)
            b = (a * ((m + n - 1) // n))[:m]
        elif variant == 'outputs' and host['outputs']:
            a = [rng.choice(host['outputs']) for _ in range(n)]
            b = [rng.choice(host['outputs']) for _ in range(m)]
        elif variant == 'onelabel':
            x = rng.choice(ac.host_labels(host))
            a, b = [x] * n, [x] * m
        else:
            a, b = ac.pick(rng, host, n), ac.pick(rng, host, m)
    else:
        a, b = host['inputs'][:n], host['inputs'][n:]
    return {'host': host, 'k0': k0, 'call': ['mul', fn, a, b, be]}


def mk_square(rng, mode, n, on_host, be, variant=None, k0=None):
    k0 = k0_of(rng) if k0 is None else k0
    host = ac.mk_host(rng, n, on_host, k0)
    if on_host:
        if variant == 'onelabel':
            x = [rng.choice(ac.host_labels(host))] * n
        elif variant == 'outputs' and host['outputs']:
            x = [rng.choice(host['outputs']) for _ in range(n)]
        else:
            x = ac.pick(rng, host, n)
    else:
        x = list(host['inputs'])
    return {'host': host, 'k0': k0, 'call': ['square', mode, x, be]}


def corpus_cases():
    """minimal inputs of the defect found on the pinned tree (D29); run first on every check.
    add_mul_wallace compacted the two final rows by skipping empty cells: for n = 2 row 1 has an empty
    cell between gates from m = 9 on; the product is wrong from m = 11 on (3 * 704 gave 1088); for n = 3
    from m = 28 on"""
    rng = random.Random(29)
    cases = [mk_mul(rng, 'add_mul_wallace', 2, 11, False, False, k0=1),
             mk_mul(rng, 'add_mul_wallace', 2, 9, False, False, k0=1),
             mk_mul(rng, 'add_mul_wallace', 2, 12, False, True, k0=1),
             mk_mul(rng, 'add_mul_wallace', 2, 13, True, False, k0=5),
             mk_mul(rng, 'add_mul_wallace', 2, 16, False, False, k0=1),
             mk_mul(rng, 'add_mul_wallace', 3, 28, False, False, k0=1)]
    cases.append({'gen': ['gmul', 2, 11, 'WALLACE', False], 'k0': 1})
    return cases


def small_cases(rng, max_w=8, full_w=4, sq_max=12):
    """run inside Coq.  Every public function x every width pair (n, m) <= max_w once (host / endianness drawn at
    random); all four combinations of bare/host x endianness for widths <= full_w; probes: repeated operand
    labels, one label for every bit, both operands the same list, operands that are outputs of the host"""
    cases = [c for c in corpus_cases() if 'call' in c]
    for m in range(9, 21):            # the shapes whose final rows have empty cells between gates (n = 2)
        cases.append(mk_mul(rng, 'add_mul_wallace', 2, m, rng.random() < 0.3, rng.random() < 0.5))
    for fn in PUBLIC_FNS:
        for n in range(1, max_w + 1):
            for m in range(1, max_w + 1):
                if n <= full_w and m <= full_w:
                    for on_host in (False, True):
                        for be in (False, True):
                            cases.append(mk_mul(rng, fn, n, m, on_host, be))
                else:
                    cases.append(mk_mul(rng, fn, n, m, rng.random() < 0.4, rng.random() < 0.5))
        for variant in ('same', 'outputs', 'onelabel'):
            for _ in range(2):
                cases.append(mk_mul(rng, fn, rng.randint(1, 5), rng.randint(1, 5), True, rng.random() < 0.5,
                                    variant=variant))
    for n in range(1, max_w + 1):
        for be in (False, True):
            cases.append(mk_mul(rng, 'last_step_sum_with_new_powers_sum', n, n, rng.random() < 0.5, be))
    cases.append(mk_mul(rng, 'last_step_sum_with_new_powers_sum', 3, 2, False, False))    # IndexError
    cases.append(mk_mul(rng, 'last_step_sum_with_new_powers_sum', 2, 4, True, True))
    for mode in SQ_MODES:
        for n in range(1, sq_max + 1):
            for on_host in (False, True):
                for be in (False, True):
                    if n > 6 and on_host and be:
                        continue
                    cases.append(mk_square(rng, mode, n, on_host, be))
        for variant in ('onelabel', 'outputs'):
            cases.append(mk_square(rng, mode, rng.randint(2, 6), True, rng.random() < 0.5, variant=variant))
    # error paths: empty operands, missing operands
    h = ac.make_host(rng, 3, 4)
    for fn in PUBLIC_FNS:
        for a, b in (([], ['x0']), (['x0'], []), ([], []), (['x0', 'nope'], ['x1']), (['x0', 'x1'], ['x1', 'nope'])):
            if fn == 'add_mul_wallace' and not b and len(a) != 1:
                continue          # `while len(c[0]) != 2` does not terminate for m = 0, n != 1
            cases.append({'host': h, 'k0': k0_of(rng), 'call': ['mul', fn, a, b, rng.random() < 0.5]})
    for mode in SQ_MODES:
        for x in ([], ['nope'], ['x0', 'nope', 'x1']):
            cases.append({'host': h, 'k0': k0_of(rng), 'call': ['square', mode, x, False]})
    return cases


def medium_cases(rng, widths):
    """run inside Coq: selected wider shapes (a few hundred to ~1500 gates)"""
    cases = []
    for fn, n, m in widths:
        cases.append(mk_mul(rng, fn, n, m, rng.random() < 0.3, rng.random() < 0.5))
    return cases


# thresholds of the code: Karatsuba recurses for n == 18 and n >= 20 (operands are padded to the wider one);
# at n = 35 (halves 17 / 18), 36 (18 / 18; sum 19), 37 (sum 20) the recursion is two deep;
# add_square splits for n >= 48 except 49 and 53
KARA_QUICK = [(17, 17), (18, 18), (19, 19), (20, 20), (21, 21), (20, 3), (35, 35), (37, 37), (41, 41),
              (18, 1), (1, 20), (1, 18), (21, 1)]   # a one-bit operand at a width that recurses: n + m - 1 result bits
KARA_THOROUGH = [(n, n) for n in (22, 23, 24, 34, 36, 38, 39, 40, 42, 47, 64)] + [(22, 1), (1, 35), (25, 18),
                                                                               (40, 21), (37, 36)]
SQ_QUICK = [47, 48, 49, 50, 51, 53, 54, 55]      # 51, 55: ODD widths on the split path (the halves differ in length)
SQ_THOROUGH = [51, 52, 55, 60, 96]


def large_cases(rng, quick=True):
    """bare circuits, run through the extracted model"""
    cases = []
    pairs = KARA_QUICK if quick else KARA_QUICK + KARA_THOROUGH
    for fn in ('add_mul_karatsuba', 'add_mul_karatsuba_with_efficient_sum'):
        for n, m in pairs:
            for be in ((False, True) if n <= 21 else (rng.random() < 0.5,)):
                cases.append(mk_mul(rng, fn, n, m, False, be, k0=1))
    for n in (SQ_QUICK if quick else SQ_QUICK + SQ_THOROUGH):
        for be in ((False, True) if n in (48, 49) else (rng.random() < 0.5,)):
            cases.append(mk_square(rng, 'DEFAULT', n, False, be, k0=1))
    for n in ((31, 47) if quick else (31, 32, 33, 47, 63, 64)):
        cases.append(mk_square(rng, 'POW2_M1', n, False, rng.random() < 0.5, k0=1))
    for fn, n, m in ([('add_mul', 16, 16), ('add_mul_dadda', 16, 13), ('add_mul_wallace', 13, 16),
                      ('add_mul_alter', 16, 16), ('add_mul_pow2_m1', 15, 16), ('add_mul_pow2_m1', 31, 31)]
                     + ([] if quick else [(f, n, m) for f in PUBLIC_FNS[:5] for (n, m) in ((24, 24), (32, 9), (9, 32),
                                                                                        (32, 32))])):
        cases.append(mk_mul(rng, fn, n, m, False, rng.random() < 0.5, k0=1))
    return cases


def gen_cases(rng, max_w=5):
    cases = [c for c in corpus_cases() if 'gen' in c]
    for mode in MUL_MODES:
        for n in range(1, max_w + 1):
            for m in range(1, max_w + 1):
                if (n + m) % 2 == 0 or n == 1 or m == 1:
                    cases.append({'gen': ['gmul', n, m, mode, rng.random() < 0.5], 'k0': 1})
    for mode in SQ_MODES:
        for n in range(1, max_w + 3):
            cases.append({'gen': ['gsquare', n, mode, rng.random() < 0.5], 'k0': 1})
    cases.append({'gen': ['gmul', 0, 2, 'DEFAULT', False], 'k0': 1})
    cases.append({'gen': ['gsquare', 0, 'DEFAULT', False], 'k0': 1})
    return cases


# ------------------------------------------------------------------ the direct oracle
def expected_len(call):
    """the number of result bits the property states"""
    if call[0] == 'mul':
        n, m = len(call[2]), len(call[3])
        return n + m - 1 if (n == 1 or m == 1) else n + m
    n = len(call[2])
    return 1 if n == 1 else 2 * n


def well_formed_call(case):
    call = case['call']
    labels = set(ac.host_labels(case['host']))
    ops = [call[2], call[3]] if call[0] == 'mul' else [call[2]]
    if any(len(x) == 0 for x in ops) or any(l not in labels for x in ops for l in x):
        return False
    if call[0] == 'mul' and call[1] == 'last_step_sum_with_new_powers_sum':
        n, m = len(call[2]), len(call[3])
        return n == m or n == 1 or m == 1       # private helper of the Karatsuba mode: equal widths only
    return True


def _nary(t, vals, mask):
    if t in ('AND', 'NAND'):
        r = mask
        for v in vals:
            r &= v
    elif t in ('OR', 'NOR'):
        r = 0
        for v in vals:
            r |= v
    else:
        r = 0
        for v in vals:
            r ^= v
    return r ^ mask if t in ('NAND', 'NOR', 'NXOR') else r


def eval_parallel(gates, inputs, patterns, mask):
    """reference interpreter over a dumped netlist, all assignments at once: bit k of the integer
    computed for a gate is its value under assignment k (inputs: label -> integer)"""
    val = {}
    pending = list(gates)
    while pending:
        rest = []
        for k, t, ops in pending:
            if t == 'INPUT':
                val[k] = patterns[k]
                continue
            if any(o not in val for o in ops):
                rest.append((k, t, ops))
                continue
            v = [val[o] for o in ops]
            if t in ('AND', 'OR', 'XOR', 'NAND', 'NOR', 'NXOR'):
                val[k] = _nary(t, v, mask)
            elif t == 'NOT':
                val[k] = v[0] ^ mask
            elif t == 'IFF':
                val[k] = v[0]
            elif t == 'ALWAYS_TRUE':
                val[k] = mask
            elif t == 'ALWAYS_FALSE':
                val[k] = 0
            elif t == 'GT':
                val[k] = v[0] & (v[1] ^ mask)
            elif t == 'LT':
                val[k] = (v[0] ^ mask) & v[1]
            elif t == 'GEQ':
                val[k] = v[0] | (v[1] ^ mask)
            elif t == 'LEQ':
                val[k] = (v[0] ^ mask) | v[1]
            elif t == 'LIFF':
                val[k] = v[0]
            elif t == 'RIFF':
                val[k] = v[1]
            elif t == 'LNOT':
                val[k] = v[0] ^ mask
            elif t == 'RNOT':
                val[k] = v[1] ^ mask
            else:
                raise ValueError(t)
        if len(rest) == len(pending):
            raise ValueError('cyclic or dangling netlist')
        pending = rest
    return val


def input_patterns(rng, inputs, limit_bits, samples):
    """-> (patterns, K, exhaustive): K assignments encoded bit-parallel"""
    n = len(inputs)
    if n <= limit_bits:
        K = 1 << n
        pats = {}
        for i, x in enumerate(inputs):
            block = (1 << (1 << i)) - 1                 # 2^i ones
            period = 1 << (i + 1)
            v = 0
            for start in range(1 << i, K, period):
                v |= block << start
            pats[x] = v
        return pats, K, True
    K = samples
    pats = {x: rng.getrandbits(K) for x in inputs}
    # the all-zero and the all-one operands are always among the samples
    for x in inputs:
        pats[x] = (pats[x] & ~3) | 2
    return pats, K, False


def number(vals, labels, k, be):
    ls = list(labels)[::-1] if be else list(labels)
    return sum(((vals[l] >> k) & 1) << i for i, l in enumerate(ls))


def check_values(call, labels, after_gates, inputs, rng, limit_bits, samples, c_before=None, c_after=None,
                 old_labels=()):
    pats, K, exhaustive = input_patterns(rng, inputs, limit_bits, samples)
    mask = (1 << K) - 1
    val = eval_parallel(after_gates, inputs, pats, mask)
    be = call[-1]
    for k in range(K):
        got = number(val, labels, k, be)
        if call[0] in ('mul',):
            A, Bv = number(val, call[2], k, be), number(val, call[3], k, be)
            if got != A * Bv:
                return f'{call[1]}: {A} * {Bv} gave {got} (widths {len(call[2])} x {len(call[3])}, big_endian={be})'
        else:
            X = number(val, call[2], k, be)
            if got != X * X:
                return f'{SQ_FNS[call[1]]}: {X}^2 gave {got} (width {len(call[2])}, big_endian={be})'
    # cross-check the interpreter with the library's own evaluator, and the frame on values
    if c_after is not None:
        for k in sorted({0, K - 1, K // 2, rng.randrange(K), rng.randrange(K)}):
            asg = {x: bool((pats[x] >> k) & 1) for x in inputs}
            v1 = c_after.evaluate_full_circuit(dict(asg))
            for l in labels:
                if type(v1.get(l)) is not bool or v1[l] != bool((val[l] >> k) & 1):
                    return f'result gate {l}: evaluate_full_circuit gives {v1.get(l)} at {asg}'
            if c_before is not None:
                v0 = c_before.evaluate_full_circuit(dict(asg))
                for l in old_labels:
                    if v0[l] is not v1[l]:
                        return f'frame: pre-existing gate {l} changed its value at {asg}'
    return None


def oracle(case, rng=None, limit_bits=12, samples=2000):
    """THE PROPERTY on the implementation for one case (None = holds / not applicable)"""
    rng = rng or random.Random(0)
    if 'gen' in case:
        return oracle_gen(case, rng, limit_bits, samples)
    before = case['host']
    call = case['call']
    c0 = ct.build_circuit(before)
    (kind, payload), c = run_impl(case)
    wf = well_formed_call(case)
    if kind == 'err':
        return f'{call[1]} raised {payload} on a well-formed call' if wf else None
    labels, after, _ = payload
    msg = ac.structural(case, before, after, [labels])
    if msg:
        return msg
    if not wf:
        return None
    existing = {k for k, _, _ in after['gates']}
    for l in labels:
        if l not in existing:
            return f'{call[1]} returned the label {l!r}, which is not a gate of the circuit'
    if len(labels) != expected_len(call):
        return (f'{call[1] if call[0] == "mul" else SQ_FNS[call[1]]}: {len(labels)} result bits for widths '
                f'{[len(x) for x in call[2:-1]]}, the property states {expected_len(call)}')
    msg = check_values(call, labels, after['gates'], list(before['inputs']), rng, limit_bits, samples,
                       c_before=c0, c_after=c, old_labels=[k for k, _, _ in before['gates']])
    if msg:
        return msg
    return oracle_iterables(case, labels, after)


def oracle_iterables(case, labels, after):
    """the operands are annotated tp.Iterable[Label]: the same call with one-shot iterators (and with tuples) on a
    fresh host must build the same gates and return the same labels"""
    call = case['call']
    if sum(len(x) for x in call[2:-1]) > 14:
        return None
    M, SQ = _mods()
    for wrap, name in ((iter, 'one-shot iterators'), (tuple, 'tuples')):
        c = ct.build_circuit(case['host'])
        env.uuid_counter.n = case['k0'] - 1
        try:
            if call[0] == 'mul':
                got = list(getattr(M, call[1])(c, wrap(list(call[2])), wrap(list(call[3])), big_endian=call[4]))
            else:
                got = list(getattr(SQ, SQ_FNS[call[1]])(c, wrap(list(call[2])), big_endian=call[3]))
        except Exception as e:  # noqa: BLE001
            return f'{call[1]}: operands given as {name} raise {type(e).__name__} (given as lists the call returns)'
        if got != list(labels) or ct.dump_circuit(c) != after:
            return (f'{call[1]}: operands given as {name} give another result than the same labels given as lists '
                    f'({len(got)} result bits vs {len(labels)})')
    return None


def oracle_gen(case, rng, limit_bits=12, samples=2000):
    (kind, dump), c = run_gen(case)
    gen = case['gen']
    sizes = [gen[1], gen[2]] if gen[0] == 'gmul' else [gen[1]]
    if kind == 'err':
        return f'{gen[0]} raised {dump}' if all(s >= 1 for s in sizes) else None
    if any(s < 1 for s in sizes):
        return None
    ins = list(dump['inputs'])
    if ins != gen_inputs(gen):
        return f'{gen[0]}: inputs {ins}'
    if gen[0] == 'gmul':
        call = ['mul', 'generate_mul(' + gen[3] + ')', ins[:gen[1]], ins[gen[1]:], gen[4]]
    else:
        call = ['square', gen[2], ins, gen[3]]
    outs = list(dump['outputs'])
    if len(outs) != expected_len(call):
        return f'{gen[0]} {gen[1:]}: {len(outs)} outputs, the property states {expected_len(call)}'
    msg = check_values(call, outs, dump['gates'], ins, rng, limit_bits, samples)
    if msg:
        return msg
    # the observable entry point: Circuit.evaluate on a few vectors
    be = gen[-1]
    for _ in range(6):
        vec = [rng.random() < 0.5 for _ in ins]
        o = c.evaluate(vec)
        if gen[0] == 'gmul':
            exp = ac.dec(vec[:gen[1]], be) * ac.dec(vec[gen[1]:], be)
        else:
            exp = ac.dec(vec, be) ** 2
        if any(type(x) is not bool for x in o) or ac.dec(o, be) != exp:
            return f'{gen[0]} {gen[1:]}: evaluate({vec}) decodes to {ac.dec(o, be)}, expected {exp}'
    return None
